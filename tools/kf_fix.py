#!/usr/bin/env python3
# usage: tools/kf_fix.py <property> <commit> "<what failed>" [open-id ...]   — adds a fixed: line and removes the open entries with these ids
import json,sys
pid,commit,what=sys.argv[1:4]; ids=set(sys.argv[4:])
k=json.load(open('/verif/known_findings.json'))
before=len(k['open'])
k['open']=[o for o in k['open'] if not (o['property']==pid and o['id'] in ids)]
k['fixed'].append(f"fixed: property={pid} {commit} {what}")
json.dump(k,open('/verif/known_findings.json','w'),indent=1)
print('removed',before-len(k['open']),'open; fixed now',len(k['fixed']))
