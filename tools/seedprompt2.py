#!/usr/bin/env python3
# round-2 prompt: property text + worktree + the mechanisms already used in round 1 (to be avoided)
import json,sys,glob
pid,wt=sys.argv[1],sys.argv[2]
p=[json.loads(l) for l in open('/verif/properties.jsonl') if json.loads(l)['id']==pid][0]
used=[]
for d in sorted(glob.glob(f'/verif/seeded/{pid}-*/meta.json')):
    try:
        m=json.load(open(d)); used.append('- '+', '.join(m.get('files_changed',[]))+': '+(m.get('what_it_breaks') or '')[:300].replace('\n',' '))
    except Exception: pass
base=open('/tmp/seedprompt-%s.txt'%pid).read() if False else None
import subprocess
txt=subprocess.check_output(['python3','/verif/tools/seedprompt.py',pid,wt]).decode()
txt=txt.replace("YOUR TASK: produce TWO different","These changes were ALREADY made by someone else in an earlier round — do NOT repeat them or trivial variants of them; pick different functions and different mechanisms:\n"+'\n'.join(used)+"\n\nPrefer this time: state that survives between calls (reused buffers, cached values, positions), two cooperating sites, rarely taken branches (error paths, boundary sizes, empty / single-element / maximal inputs), ordering of two steps, and — where the property is about schedules, faults or asynchronous polling — changes that only manifest under a particular interleaving, completion order, partial transfer or Pending answer.\n\nYOUR TASK: produce TWO different")
print(txt)
