#!/usr/bin/env python3
# usage: tools/kf_add.py < file-with-one-JSON-object-per-line   (adds/replaces open entries by (property,id,fingerprint))
import json,sys,html
k=json.load(open('/verif/known_findings.json'))
for line in sys.stdin:
    line=line.strip()
    if not line: continue
    e=json.loads(html.unescape(line))
    k['open']=[o for o in k['open'] if not (o['property']==e['property'] and o['fingerprint']==e['fingerprint'])]
    k['open'].append(e)
k['open'].sort(key=lambda o:(o['property'],o['id']))
json.dump(k,open('/verif/known_findings.json','w'),indent=1)
print(len(k['open']),'open entries')
