#!/usr/bin/env python3
# prints a markdown table of seeded/ and mutants/ results for DESIGN.md §9.3
import json,glob,os,re
print("| change | property | needs to manifest | repo tests pass | demo fails/passes | caught by (first fingerprint) |")
print("|---|---|---|---|---|---|")
for d in sorted(glob.glob('/verif/seeded/*/')):
    n=os.path.basename(d.rstrip('/'))
    try:
        v=json.load(open(d+'verify.json')); m=json.load(open(d+'meta.json'))
    except Exception as e:
        continue
    fp=[l for l in v.get('check_violation_lines',[]) if l.startswith('fingerprint:')]
    fp=fp[0][len('fingerprint: '):] if fp else ''
    need=(m.get('needs_to_manifest') or '')[:140].replace('|','/').replace('\n',' ')
    print(f"| seeded/{n} | {v['property']} | {need} | {'yes' if v.get('existing_tests_pass_with_change') else 'NO'} | {'yes' if v.get('demo_fails_with_change') else 'NO'}/{'yes' if v.get('demo_passes_without_change') else 'NO'} | {'**MISSED**' if not v.get('caught') else fp[:150]} |")
print()
print("| mutant (author-written) | first line |")
print("|---|---|")
for f in sorted(glob.glob('/verif/mutants/*.diff')):
    first=open(f).readline().strip().lstrip('# ')[:200].replace('|','/')
    print(f"| mutants/{os.path.basename(f)} | {first} |")
