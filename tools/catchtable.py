#!/usr/bin/env python3
# prints a markdown table of seeded/ and mutants/ results for DESIGN.md §9.3
import json,glob,os,re
print("| change | property | needs to manifest | repo tests pass | demo fails/passes | caught by (first fingerprint) |")
print("|---|---|---|---|---|---|")
def load(d):
    try:
        return json.load(open(d+'verify.json'))
    except Exception:
        return None
# cross-checks: seeded/<owner>-x<NN>-<round><a|b> is the seed <CNN>-<round><a|b> run against <owner>'s check
cross={}
for d in sorted(glob.glob('/verif/seeded/*-x*/')):
    n=os.path.basename(d.rstrip('/'))
    m=re.match(r'(C\d\d)-x(\d\d)-?(.*)$',n)
    v=load(d)
    if m and v and v.get('caught'):
        label=m.group(3) or ''
        cross.setdefault(f"C{m.group(2)}-{label}",[]).append((m.group(1),n))
for d in sorted(glob.glob('/verif/seeded/*/')):
    n=os.path.basename(d.rstrip('/'))
    try:
        v=json.load(open(d+'verify.json')); m=json.load(open(d+'meta.json'))
    except Exception as e:
        continue
    fp=[l for l in v.get('check_violation_lines',[]) if l.startswith('fingerprint:')]
    fp=fp[0][len('fingerprint: '):] if fp else ''
    if v.get('new_fingerprints'):
        fp=str(v['new_fingerprints'][0]).replace('fingerprint: ','')
    if v.get('caught'):
        cell=fp[:150]
    elif v.get('note'):
        cell=v['note']
    elif not v.get('demo_fails_with_change'):
        cell='not a violation on the current tree any more (the demonstration passes with the change: neutralised by a later repair)'
    elif n in cross:
        cell='not by '+v['property']+' (the mechanism belongs to another check): caught by '+', '.join(f"{o} (seeded/{x})" for o,x in cross[n])
    else:
        cell='**MISSED**'
    need=(m.get('needs_to_manifest') or '')[:140].replace('|','/').replace('\n',' ')
    print(f"| seeded/{n} | {v['property']} | {need} | {'yes' if v.get('existing_tests_pass_with_change') else 'NO'} | {'yes' if v.get('demo_fails_with_change') else 'NO'}/{'yes' if v.get('demo_passes_without_change') else 'NO'} | {cell} |")
print()
print("| mutant (author-written) | first line |")
print("|---|---|")
for f in sorted(glob.glob('/verif/mutants/*.diff')):
    first=open(f).readline().strip().lstrip('# ')[:200].replace('|','/')
    print(f"| mutants/{os.path.basename(f)} | {first} |")
