#!/usr/bin/env python3
# usage: tools/manifest_add.py <ID> <category> <design_ref> <<< '{"text":..., "note":..., "technique":...}'
import json,sys
pid,cat,ref=sys.argv[1:4]
d=json.load(sys.stdin)
m=json.load(open('/verif/MANIFEST.json'))
m['checks']=[c for c in m['checks'] if c['property_id']!=pid]
m['checks'].append({"property_id":pid,"quick_cmd":f"./check {pid} quick","thorough_cmd":f"./check {pid} thorough","evidence_file":f"evidence/{pid}.json",
  "replay_cmd_template":f"./check {pid} --replay {{path}}","engine":"vmc","level_claimed":{"category":cat,"text":d['text'],"design_ref":ref},"level_note":d['note'],"technique":d['technique']})
m['checks'].sort(key=lambda c:c['property_id'])
m['not_applicable']=[n for n in m['not_applicable'] if n['property_id']!=pid]
pk=' '.join('-p '+c['property_id'].lower() for c in m['checks'])
m['setup_cmd']=f"cd mc && CARGO_NET_OFFLINE=true cargo build --release --offline {pk}"
for e in m['engines']:
    if e['name']=='vmc': e['serves_properties']=[c['property_id'] for c in m['checks']]
json.dump(m,open('/verif/MANIFEST.json','w'),indent=1)
print("claimed:",[c['property_id'] for c in m['checks']])
