#!/usr/bin/env python3
# prints the prompt for a seeding sub-agent: only the property text and its worktree
import json,sys
pid,wt=sys.argv[1],sys.argv[2]
p=[json.loads(l) for l in open('/verif/properties.jsonl') if json.loads(l)['id']==pid][0]
print(f"""You are given a private git worktree of the Rust library zaeleus/noodles (bioinformatics file formats) at {wt}. Work ONLY inside that directory (never read or touch /repo or /verif; use `CARGO_TARGET_DIR={wt}/target` and `--offline` for every cargo command; there is no network).

Here is a semantic property that the library is supposed to satisfy:

Title: {p['title']}
Statement: {p['statement']}
Quantified over: {p['quantifier']['text']}

YOUR TASK: produce TWO different, independent, realistic changes (call them a and b) to the library's source code (not to its tests) that each BREAK this property while (1) the code still compiles, and (2) the existing test suite still passes — run `cargo test --offline -p <each crate you touched and the crates that depend on it>` (or `cargo test --workspace --offline`) with the change applied and confirm. Each change must be the kind of slip a maintainer could plausibly make (an off-by-one in cursor/offset logic, a reordered pair of steps, a shared scratch buffer, a dropped error, a boundary condition, a wrong field used) and must need something SPECIFIC to manifest — a particular interleaving or completion order, a fault or short transfer at a particular point, a multi-step sequence of operations, an unusual input shape or boundary value, or two cooperating sites that each look fine alone — NOT something that any ordinary use would expose at once. The two changes should be in different functions/mechanisms. Do not modify any code under `#[cfg(noodles_verif)]` or files named verif.rs (those are unrelated instrumentation hooks; leave them alone), and do not touch Cargo.toml/Cargo.lock.

For each change provide a DEMONSTRATION: a small integration test file (e.g. {wt}/<crate>/tests/seed_<x>.rs) or example program that FAILS with the change applied and PASSES on the unmodified tree — verify both directions yourself (apply / `git stash` / re-run).

Deliver, for x in {{a, b}}:
  {wt}/SEED/<x>/patch.diff   — `git diff` of the SOURCE change only (no tests, no demo), applicable with `git apply` on the unmodified tree
  {wt}/SEED/<x>/demo.rs      — the demonstration source, with a leading comment saying where to put it and the exact command to run it
  {wt}/SEED/<x>/meta.json    — {{"property": "{pid}", "what_it_breaks": "...", "needs_to_manifest": "...", "files_changed": [...], "commands_run": [...], "existing_tests_pass_with_change": true, "demo_fails_with_change": true, "demo_passes_without_change": true}}
Leave the worktree's tracked files UNMODIFIED at the end (git stash/checkout), keeping only the untracked SEED/ directory. Reply with a short summary of the two changes.""")
