#!/usr/bin/env python3
"""tools/kf_exact.py <PID> <check-log> <id-prefix> "<why_not_fixed>"
Adds one open known-findings entry per UNLISTED fingerprint printed in a check log, matching it exactly
except for the harness name (class-level: entry point + outcome + normalised message + source file).
'minimal' is taken from the replay file the check wrote for that class."""
import json,re,sys,os
pid,log,prefix,why=sys.argv[1:5]
k=json.load(open('/verif/known_findings.json'))
txt=open(log).read()
blocks=re.findall(r"^VIOLATION property=%s replay=(\S+)\n\s+fingerprint: (.*)$"%pid,txt,re.M)
seen={}
for rp,fp in blocks:
    g=re.sub(r"harness=\S+ ","harness=* ",fp,1)
    if g in seen: continue
    dec=''
    try:
        r=json.load(open(rp)); dec=(r.get('decoded') or '')[:400]+' | observed: '+(r.get('observed') or '')[:200]
    except Exception: pass
    seen[g]=dec
existing={o['fingerprint'] for o in k['open'] if o['property']==pid}
n=len([o for o in k['open'] if o['property']==pid and o['id'].startswith(prefix)])
for g,dec in sorted(seen.items()):
    if g in existing: continue
    n+=1
    body=g.split('harness=* ',1)[1]
    k['open'].append({"property":pid,"id":f"{prefix}-{n:03d}","fingerprint":g,"what":body[:220],"minimal":dec,"why_not_fixed":why})
k['open'].sort(key=lambda o:(o['property'],o['id']))
json.dump(k,open('/verif/known_findings.json','w'),indent=1)
print(len(seen),'classes;',len([o for o in k['open'] if o['property']==pid]),'open entries for',pid)
