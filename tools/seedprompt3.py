#!/usr/bin/env python3
# round-2 prompt: property text + worktree + the mechanisms already used in round 1 (to be avoided)
import json,sys,glob
pid,wt=sys.argv[1],sys.argv[2]
p=[json.loads(l) for l in open('/verif/properties.jsonl') if json.loads(l)['id']==pid][0]
used=[]
for d in sorted(glob.glob(f'/verif/seeded/{pid}-*/meta.json')):
    try:
        m=json.load(open(d)); used.append('- '+', '.join(m.get('files_changed',[]))+': '+(m.get('what_it_breaks') or '')[:300].replace('\n',' '))
    except Exception: pass
base=open('/tmp/seedprompt-%s.txt'%pid).read() if False else None
import subprocess
txt=subprocess.check_output(['python3','/verif/tools/seedprompt.py',pid,wt]).decode()
txt=txt.replace("YOUR TASK: produce TWO different","These changes were ALREADY made by someone else in an earlier round — do NOT repeat them or trivial variants of them; pick different functions and different mechanisms:\n"+'\n'.join(used)+"\n\nPrefer this time: (1) alternative or rarely used public entry points of the same functionality (builders and their options, iterator adaptors versus explicit read calls, query variants, get_mut-then-continue, lazy versus eager paths, trait-object paths); (2) inputs larger than 64 KiB or crossing an internal buffer / block / container boundary; (3) multi-step use of ONE object (a second query, seeking back, reuse after an error was returned, interleaving two kinds of calls); (4) boundaries inside less common field types and option combinations (two features that each work alone); (5) where the property is about schedules, faults or asynchronous polling: a change that needs a particular interleaving, completion order, partial transfer, Pending answer or fault position. Avoid anything that ordinary use or a simple one-record round trip would expose.\n\nYOUR TASK: produce TWO different")
print(txt)
