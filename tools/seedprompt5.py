#!/usr/bin/env python3
# round-5 prompt: property text + worktree + everything used in rounds 1-3 (to be avoided) + steering towards
# state that persists between calls, error/recovery paths, option interplay, schedules and layouts of foreign files
import json,sys,glob,subprocess
pid,wt=sys.argv[1],sys.argv[2]
used=[]
for d in sorted(glob.glob(f'/verif/seeded/{pid}-*/meta.json')):
    try:
        m=json.load(open(d)); used.append('- '+', '.join(m.get('files_changed',[]))+': '+(m.get('what_it_breaks') or '')[:260].replace('\n',' '))
    except Exception: pass
txt=subprocess.check_output(['python3','/verif/tools/seedprompt.py',pid,wt]).decode()
steer="""These changes were ALREADY made by others in earlier rounds — do NOT repeat them or trivial variants of them; pick different functions and different mechanisms:
"""+'\n'.join(used)+"""

Prefer this time (pick what fits this property), and prefer source files that none of the changes listed above touched:
(1) state that survives from one call or object to the next: caches, thread-locals, statics, reused scratch buffers, builder defaults, a field that is reset in `new` but not in `clear`/`seek`/`finish`;
(2) the call AFTER something unusual: after an error was returned, after Interrupted/WouldBlock, after a partial write, after a seek to the same place, after `get_mut()`/`into_inner()`/`get_ref()` was used, after reading exactly to a boundary;
(3) two options or features that each work alone (compression level x block size, custom builder setting x large input, index + a file another tool wrote, lazy + eager mixed on one reader);
(4) where the property is about schedules, worker pools, faults or asynchronous polling: a change that needs a particular interleaving, worker count versus number of blocks in flight, completion order, a Pending answer at one specific poll, a wake-up that is registered too late, a fault at one position;
(5) arithmetic at 2^k and 2^k +/- 1 of an internal size (u8/u16/i32 widths, 64 KiB blocks, bin and chunk counts) reached only through a less common field or layout;
(6) a layout that is legal for the format and written by other tools but never by noodles itself (empty blocks, padding, optional trailers, unusual line endings, records split differently), read by the noodles reader.
Avoid anything that ordinary use, or a one-record round trip, or reading a small file once from start to end, would expose.

YOUR TASK: produce TWO different"""
txt=txt.replace("YOUR TASK: produce TWO different",steer)
txt+="\nIMPORTANT: several people work in sibling worktrees of the same repository at the same time. NEVER use `git stash` (the stash is shared between worktrees and others will pop your change): to set a change aside use `git diff > /tmp/seed5-"+pid.lower()+"-x.diff && git checkout -- .` and `git apply` to bring it back; before writing patch.diff make sure `git status` lists only files you changed yourself."
txt+="\nWhen you are done, delete your build output (rm -rf "+wt+"/target) — disk space is limited."
print(txt)
