#!/usr/bin/env python3
# regenerates the generated tables of DESIGN.md §9 (between <!-- BEGIN:x --> / <!-- END:x --> markers)
import json,re,subprocess,glob,os
D='/verif/DESIGN.md'
s=open(D).read()
k=json.load(open('/verif/known_findings.json'))
def block(name,body):
    global s
    a=f'<!-- BEGIN:{name} -->'; b=f'<!-- END:{name} -->'
    if a not in s: s+=f'\n{a}\n{b}\n'
    s=re.sub(re.escape(a)+r'.*?'+re.escape(b), lambda m: a+'\n'+body+'\n'+b, s, flags=re.S)
# fixed
rows=['| property | commit | what failed (and which harness found it) |','|---|---|---|']
for f in k['fixed']:
    m=re.match(r'fixed: property=(\S+) (\S+) (.*)',f)
    if m: rows.append(f'| {m.group(1)} | `{m.group(2)}` | {m.group(3).replace("|","/")} |')
block('fixed','\n'.join(rows)+f'\n\n({len(rows)-2} repairs, one unguarded `fix:` commit each.)')
# open: group C15 exact entries
rows=['| property | id | fingerprint glob | what | why not repaired |','|---|---|---|---|---|']
c15=[o for o in k['open'] if o['id'].startswith('C15H')]
for o in k['open']:
    if o['id'].startswith('C15H'): continue
    rows.append(f"| {o['property']} | {o['id']} | `{o['fingerprint']}` | {o['what'][:260].replace('|','/')} | {o.get('why_not_fixed','')[:260].replace('|','/')} |")
if c15:
    files={}
    for o in c15:
        m=re.search(r'file=(\S+)',o['fingerprint']); f=m.group(1) if m else re.search(r'outcome=(\S+)',o['fingerprint']).group(1)
        files[f]=files.get(f,0)+1
    rows.append(f"| C15 | C15H-001 … C15H-{len(c15):03d} | one exact entry per (format, entry point, outcome, normalised message, source file); harness wildcarded | hostile-input panic / hang / abort sites: "+', '.join(f'{f} ×{n}' for f,n in sorted(files.items()))+" | each needs its own bounds check / error path; not a small repair as a whole |")
block('open','\n'.join(rows))
# status table from MANIFEST + evidence
m=json.load(open('/verif/MANIFEST.json'))
rows=['| id | level | tier of committed evidence | harnesses | evaluations | distinct | states | exhaustive | known findings observed | wall s |','|---|---|---|---|---|---|---|---|---|---|']
for c in m['checks']:
    p=c['property_id']
    try:
        e=json.load(open(f'/verif/evidence/{p}.json')); cov=e['coverage']
        hs=', '.join(h.get('harness','?') for h in cov.get('harnesses',[]))
        rows.append(f"| {p} | {e['level']} | {e['tier']} | {hs[:300]} | {cov['evaluations']:,} | {cov['distinct_nontrivial']:,} | {cov.get('states',0):,} | {cov.get('exhaustive')} | {', '.join(cov.get('known_findings_observed',[]))[:120]} | {e['wall_s']:.0f} |")
    except Exception as ex:
        rows.append(f'| {p} | ? | no evidence yet ({ex}) | | | | | | | |')
na=m.get('not_applicable',[])
block('status','\n'.join(rows)+'\n\nnot_applicable: '+(', '.join(n['property_id']+' ('+n['reason']+')' for n in na) if na else 'none — all twenty properties are decided by bounded exhaustive exploration of the real code.'))
# catch table
out=subprocess.run(['/verif/tools/catchtable.py'],capture_output=True,text=True).stdout
block('catch',out)
open(D,'w').write(s)
print('synced: fixed',len(k['fixed']),'open',len(k['open']))
