//! C04 — BAI / CSI / tabix region queries ≡ filtered linear scan.
//!
//! E1, complete: sorted record sets from the bin-edge alphabet × block layouts × reference containers ×
//! index kinds; every region of the edge alphabet ± 1 (plus every record end ± 1), open-ended regions,
//! whole references and the unmapped query, with the index used in memory and after write → read.
//! Oracle: the harness's own model of the file (what was written; spans by `gidx::span`), never a second
//! call into noodles.

mod bamx;
mod model;
mod vcfx;

use std::path::PathBuf;

use gidx::spec;
use noodles_bam::{self as bam, bai};
use noodles_bcf as bcf;
use noodles_csi::{
    self as csi,
    binning_index::index::reference_sequence::index::{BinnedIndex, LinearIndex},
};
use noodles_tabix as tabix;
use noodles_vcf as vcf;
use vmc::{Chooser, Config, Outcome, Violation};

use model::Rec;

#[derive(Clone, Copy, Debug, PartialEq)]
enum Kind {
    /// BAM + `bam::fs::index` → BAI
    BamBai,
    /// BAM + `Indexer::<BinnedIndex>::new(ms, d)` driven by the `fs::index` reader loop → CSI
    BamBinned(u8, u8),
    /// BAM + `Indexer::<LinearIndex>::new(ms, d)` (in memory only: no file format carries it)
    BamLinear(u8, u8),
    /// BCF + `bcf::fs::index` → CSI
    BcfCsi,
    /// bgzipped VCF + `vcf::fs::index` → tabix
    VcfTabix,
    /// bgzipped VCF + `Indexer::<BinnedIndex>::new(ms, d)` with a tabix header in the CSI aux
    VcfBinned(u8, u8),
}

impl Kind {
    fn geometry(self) -> (u8, u8) {
        match self {
            Kind::BamBai | Kind::BcfCsi | Kind::VcfTabix => (14, 5),
            Kind::BamBinned(ms, d) | Kind::BamLinear(ms, d) | Kind::VcfBinned(ms, d) => (ms, d),
        }
    }
    fn is_vcf(self) -> bool {
        matches!(self, Kind::BcfCsi | Kind::VcfTabix | Kind::VcfBinned(..))
    }
    fn label(self) -> &'static str {
        match self {
            Kind::BamBai => "bai(bam::fs::index)",
            Kind::BamBinned(14, 5) => "csi(indexer-binned,bam,default-geometry)",
            Kind::BamBinned(..) => "csi(indexer-binned,bam,non-default-geometry)",
            Kind::BamLinear(..) => "linear(indexer-linear,bam,non-default-geometry)",
            Kind::BcfCsi => "csi(bcf::fs::index)",
            Kind::VcfTabix => "tabix(vcf::fs::index)",
            Kind::VcfBinned(14, 5) => "csi(indexer-binned,vcf,default-geometry)",
            Kind::VcfBinned(..) => "csi(indexer-binned,vcf,non-default-geometry)",
        }
    }
}

/// Containers: (number of references, focus reference, fillers for the other references).
/// Filler 0 = empty reference, 1 = one short record at 1, 2 = a long record followed by a short one.
const CONTAINERS: [(usize, usize, [usize; 3]); 4] = [
    (1, 0, [0, 0, 0]),
    (2, 0, [0, 2, 0]),
    (3, 1, [1, 0, 0]),
    (3, 2, [0, 2, 0]),
];

struct Space {
    kinds: Vec<Kind>,
    /// (block layout, container, unplaced unmapped records)
    combos: Vec<(usize, usize, usize)>,
    /// if not empty: the combinations used for index kinds with a non-default geometry
    combos_geo: Vec<(usize, usize, usize)>,
    max_records: usize,
    reduced: bool,
    scratch: PathBuf,
}

fn combos_covering() -> Vec<(usize, usize, usize)> {
    vec![(0, 0, 0), (1, 1, 2), (2, 2, 1), (1, 3, 0)]
}

fn combos_pairs() -> Vec<(usize, usize, usize)> {
    let mut v = Vec::new();
    for l in 0..3 {
        for c in 0..CONTAINERS.len() {
            v.push((l, c, (l + c) % 3));
        }
    }
    v
}

fn scratch_file(sp: &Space, ext: &str) -> PathBuf {
    sp.scratch.join(format!("{:?}.{ext}", std::thread::current().id()).replace(['(', ')'], "_"))
}

fn io_v(label: &str, stage: &str, describe: &dyn Fn() -> String, e: std::io::Error) -> Violation {
    Violation::new(
        format!("index={label} stage={stage} symptom=error kind={:?}", e.kind()),
        describe(),
        "Ok",
        e.to_string(),
    )
}

fn body(ch: &Chooser, sp: &Space) -> Outcome {
    let kind = *ch.pick_free("index", &sp.kinds);
    let (ms, d) = kind.geometry();
    let (msu, du) = (ms as u32, d as u32);
    // the non-default geometries of the quick tier use two of the covering combinations
    let combos = if kind.geometry() != (14, 5) && !sp.combos_geo.is_empty() { &sp.combos_geo } else { &sp.combos };
    let (layout, container, unplaced) = *ch.pick_free("combo", combos);
    let (n_refs, focus, fillers) = CONTAINERS[container];
    let is_vcf = kind.is_vcf();
    let flavour = if is_vcf { ch.free("vcf-flavour", 2) } else { 0 };
    // the index is used as built (0) or after its writer -> reader (1)
    let reread = !matches!(kind, Kind::BamLinear(..)) && ch.free("stage", 2) == 1;
    let unplaced = if is_vcf { 0 } else { unplaced };
    let n_pos = spec::n_positions(msu, du);
    // BAM positions are 31-bit; BAI / tabix / default CSI end at 2^29 - 1
    let ln = (n_pos - 1).min((1 << 31) - 1);
    let shapes = model::shapes(msu, du, ln, sp.reduced, !is_vcf, !is_vcf);

    // the focus reference: a sorted sequence (ties in either order) of up to max_records shapes
    let mut focus_shapes: Vec<(u64, u64, bool)> = Vec::new();
    let mut lo = 0usize;
    for _ in 0..sp.max_records {
        let c = ch.free("shape", shapes.len() - lo + 1);
        if c == 0 {
            break;
        }
        let s = shapes[lo + c - 1];
        focus_shapes.push(s);
        lo = shapes.iter().position(|x| x.0 == s.0).unwrap();
    }
    let l = 1u64 << ms;
    let mut recs: Vec<Rec> = Vec::new();
    let mut push = |rid: Option<usize>, start: u64, span: u64, mapped: bool| {
        let cigar = if is_vcf || !mapped { vec![] } else { model::cigar_for(span, msu) };
        let end = if is_vcf {
            vcfx::model_end(flavour, start, span)
        } else if rid.is_some() {
            gidx::span::sam_end(start, &cigar)
        } else {
            0
        };
        let ord = recs.len();
        recs.push(Rec { ord, rid, start, end, unmapped: !mapped, cigar, span });
    };
    for rid in 0..n_refs {
        if rid == focus {
            for &(s, spn, m) in &focus_shapes {
                push(Some(rid), s, spn, m);
            }
        } else {
            match fillers[rid] {
                0 => {}
                1 => push(Some(rid), 1, 1, true),
                _ => {
                    push(Some(rid), 1, l + 1, true);
                    push(Some(rid), l + 1, 1, true);
                }
            }
        }
    }
    for _ in 0..unplaced {
        push(None, 0, 0, false);
    }
    let describe = || {
        let list: Vec<String> = recs
            .iter()
            .map(|r| match r.rid {
                None => format!("#{} unplaced-unmapped", r.ord),
                Some(id) if is_vcf => format!("#{} sq{id}:{} span {} (end {})", r.ord, r.start, r.span, r.end),
                Some(id) => format!(
                    "#{} sq{id}:{} CIGAR {}{} (end {})",
                    r.ord,
                    r.start,
                    if r.cigar.is_empty() { "*".to_string() } else { r.cigar.iter().map(|(o, n)| format!("{n}{}", o.ch())).collect() },
                    if r.unmapped { " flag 0x4" } else { "" },
                    r.end
                ),
            })
            .collect();
        format!(
            "{kind:?}{}{}: {n_refs} reference(s), records in file order [{}], layout {} ",
            if reread { " index after write->read" } else { " index in memory" },
            if is_vcf { format!(" VCFv{}.{}", vcfx::file_format(flavour).0, vcfx::file_format(flavour).1) } else { String::new() },
            list.join(", "),
            ["flush-after-every-record", "never-flush", "flush-after-first-record"][layout]
        )
    };
    ch.desc(describe);
    let label = kind.label();
    let mut queries = 0u64;
    let mut nonempty = 0u64;
    let mut pruned = 0u64;

    if !is_vcf {
        let header = bamx::header(n_refs, ln);
        let bytes = bamx::write_bam(&header, &recs, layout).map_err(|e| io_v(label, "write-file", &describe, e))?;
        ch.obs_hash(&bytes);
        let header = bamx::scan(&bytes, &recs, &describe)?;
        macro_rules! run {
            ($ix:expr, $stage:expr) => {{
                let st = bamx::check_queries(ch, &bytes, &header, $ix, &recs, n_refs, ln, label, $stage, &describe)?;
                queries += st.queries;
                nonempty += st.nonempty;
                pruned += st.pruned;
            }};
        }
        match kind {
            Kind::BamBai => {
                let path = scratch_file(sp, "bam");
                std::fs::write(&path, &bytes).map_err(|e| vmc::machinery(format!("scratch write: {e}"))).ok();
                let ix: bai::Index = bam::fs::index(&path).map_err(|e| io_v(label, "index", &describe, e))?;
                if !reread {
                    run!(&ix, "memory");
                } else {
                    let mut buf = Vec::new();
                    bai::io::Writer::new(&mut buf).write_index(&ix).map_err(|e| io_v(label, "write-index", &describe, e))?;
                    let back = bai::io::Reader::new(&buf[..]).read_index().map_err(|e| io_v(label, "read-index", &describe, e))?;
                    if back == ix {
                        // an equal index answers every query as the in-memory one does (stage 0 checks those)
                        ch.tag("index-equal-after-write-read");
                    } else {
                        run!(&back, "reread");
                    }
                }
            }
            Kind::BamBinned(ms, d) => {
                let ix: csi::Index = bamx::index_with::<BinnedIndex>(&bytes, ms, d, n_refs).map_err(|e| io_v(label, "index", &describe, e))?;
                if !reread {
                    run!(&ix, "memory");
                } else {
                    let back = csi_rt(&ix).map_err(|e| io_v(label, "write-read-index", &describe, e))?;
                    if back == ix {
                        // an equal index answers every query as the in-memory one does (stage 0 checks those)
                        ch.tag("index-equal-after-write-read");
                    } else {
                        run!(&back, "reread");
                    }
                }
            }
            Kind::BamLinear(ms, d) => {
                let ix = bamx::index_with::<LinearIndex>(&bytes, ms, d, n_refs).map_err(|e| io_v(label, "index", &describe, e))?;
                run!(&ix, "memory");
            }
            _ => unreachable!(),
        }
    } else {
        let header = vcfx::header(flavour, n_refs);
        let is_bcf = kind == Kind::BcfCsi;
        let bytes = if is_bcf { vcfx::write_bcf(&header, flavour, &recs, layout) } else { vcfx::write_vcf_gz(&header, flavour, &recs, layout) }
            .map_err(|e| io_v(label, "write-file", &describe, e))?;
        ch.obs_hash(&bytes);
        let header = if is_bcf { vcfx::scan_bcf(&bytes, &recs, flavour, &describe)? } else { vcfx::scan_vcf(&bytes, &recs, flavour, &describe)? };
        let src = if is_bcf { vcfx::Src::Bcf(&bytes) } else { vcfx::Src::Vcf(&bytes) };
        macro_rules! run {
            ($ix:expr, $stage:expr) => {{
                let st = vcfx::check_queries(ch, &src, &header, $ix, &recs, n_refs, label, $stage, &describe)?;
                queries += st.queries;
                nonempty += st.nonempty;
                pruned += st.pruned;
            }};
        }
        match kind {
            Kind::BcfCsi => {
                let path = scratch_file(sp, "bcf");
                std::fs::write(&path, &bytes).map_err(|e| vmc::machinery(format!("scratch write: {e}"))).ok();
                let ix: csi::Index = bcf::fs::index(&path).map_err(|e| io_v(label, "index", &describe, e))?;
                if !reread {
                    run!(&ix, "memory");
                } else {
                    let back = csi_rt(&ix).map_err(|e| io_v(label, "write-read-index", &describe, e))?;
                    if back == ix {
                        // an equal index answers every query as the in-memory one does (stage 0 checks those)
                        ch.tag("index-equal-after-write-read");
                    } else {
                        run!(&back, "reread");
                    }
                }
            }
            Kind::VcfTabix => {
                let path = scratch_file(sp, "vcf.gz");
                std::fs::write(&path, &bytes).map_err(|e| vmc::machinery(format!("scratch write: {e}"))).ok();
                let ix: tabix::Index = vcf::fs::index(&path).map_err(|e| io_v(label, "index", &describe, e))?;
                if !reread {
                    run!(&ix, "memory");
                } else {
                    let mut buf = Vec::new();
                    {
                        let mut w = tabix::io::Writer::new(&mut buf);
                        w.write_index(&ix).map_err(|e| io_v(label, "write-index", &describe, e))?;
                        w.try_finish().map_err(|e| io_v(label, "write-index", &describe, e))?;
                    }
                    let back = tabix::io::Reader::new(&buf[..]).read_index().map_err(|e| io_v(label, "read-index", &describe, e))?;
                    if back == ix {
                        // an equal index answers every query as the in-memory one does (stage 0 checks those)
                        ch.tag("index-equal-after-write-read");
                    } else {
                        run!(&back, "reread");
                    }
                }
            }
            Kind::VcfBinned(ms, d) => {
                let ix: csi::Index =
                    vcfx::vcf_index_with::<BinnedIndex>(&bytes, &recs, flavour, ms, d).map_err(|e| io_v(label, "index", &describe, e))?;
                if !reread {
                    run!(&ix, "memory");
                } else {
                    let back = csi_rt(&ix).map_err(|e| io_v(label, "write-read-index", &describe, e))?;
                    if back == ix {
                        // an equal index answers every query as the in-memory one does (stage 0 checks those)
                        ch.tag("index-equal-after-write-read");
                    } else {
                        run!(&back, "reread");
                    }
                }
            }
            _ => unreachable!(),
        }
    }
    ch.steps(queries);
    if nonempty > 0 {
        ch.tag("some-nonempty-answer");
    }
    if pruned > 0 {
        ch.tag("some-query-where-pruning-removed-chunks");
    }
    if recs.len() >= 2 && recs.windows(2).any(|w| w[0].rid == w[1].rid && w[0].rid.is_some() && w[0].end > w[1].end) {
        ch.tag("long-record-before-shorter-one");
    }
    Ok(())
}

fn csi_rt(ix: &csi::Index) -> std::io::Result<csi::Index> {
    let mut buf = Vec::new();
    {
        let mut w = csi::io::Writer::new(&mut buf);
        w.write_index(ix)?;
        w.into_inner().finish()?;
    }
    csi::io::Reader::new(&buf[..]).read_index()
}

fn main() {
    vmc::run("C04", "model_checking", |ctx| {
        ctx.rule(
            "every sorted sequence (ties in either order) of <= k record shapes (start x span x mapped/placed-unmapped, from the \
             bin-edge alphabet of the index geometry) on the focus reference x (block layout, reference container, unplaced records) \
             x index kind x VCF flavour; per file every region [a,b], a.., ..=b over the edge alphabet +-1 and record ends +-1, \
             whole references and the unmapped query, index in memory and after write->read; executions = files x index kinds, \
             transitions = queries, distinct = distinct files/answers",
        );
        ctx.assume("gidx::span implements SAMv1 §1.4 (POS + sum of M/D/N/=/X, zero span => 1 base) and the VCF end rule (END before 4.5; POS + max(len(REF), SVLEN, LEN) - 1 from 4.5, DESIGN.md §4 C04)");
        ctx.assume("the model of a file is the list of records handed to the noodles writer; the full scan with the plain reader is checked against it first");

        // scratch directory for the path-based fs::index functions (removed at the end)
        let base = if std::path::Path::new("/dev/shm").is_dir() { PathBuf::from("/dev/shm") } else { std::env::temp_dir() };
        let dir = tempfile::Builder::new().prefix("c04-").tempdir_in(base).expect("tempdir");

        let quick = ctx.quick();
        // quick tier: scaled-down alphabets (6 starts: 1, L, L+1, 8L+1, 4096L+1, N-2; 5 spans: 0, 1, L, L+1, 8L+1),
        // <= 2 records on the focus reference, four covering (layout, container, unplaced) combinations.
        let kinds_q = vec![
            Kind::BamBai,
            Kind::BcfCsi,
            Kind::VcfTabix,
            Kind::BamBinned(14, 5),
            // min_shift >, = and < depth
            Kind::BamBinned(3, 2),
            Kind::BamBinned(2, 2),
            Kind::BamBinned(1, 3),
            Kind::BamLinear(3, 2),
            Kind::VcfBinned(14, 5),
        ];
        let kinds_t = vec![
            Kind::BamBai,
            Kind::BcfCsi,
            Kind::VcfTabix,
            Kind::BamBinned(14, 5),
            Kind::BamBinned(12, 5),
            Kind::BamBinned(14, 6),
            Kind::BamBinned(3, 2),
            Kind::BamBinned(2, 2),
            Kind::BamBinned(1, 3),
            Kind::BamBinned(2, 3),
            Kind::BamLinear(12, 5),
            Kind::BamLinear(3, 2),
            Kind::VcfBinned(14, 5),
            Kind::VcfBinned(3, 2),
            Kind::VcfBinned(1, 3),
        ];
        if quick {
            let sp = Space { kinds: kinds_q, combos: combos_covering(), combos_geo: vec![(1, 1, 2), (2, 2, 1)], max_records: 2, reduced: true, scratch: dir.path().to_path_buf() };
            ctx.harness(Config::new("query_le2_reduced", 0), |ch| body(ch, &sp));
        } else {
            // thorough (sized for <= 15 min on 16 cores):
            // (A) full alphabets, <= 2 records, the (14,5) index kinds, the four covering combinations ...
            let kinds_a = vec![Kind::BamBai, Kind::BcfCsi, Kind::VcfTabix, Kind::BamBinned(14, 5), Kind::VcfBinned(14, 5)];
            let sp = Space { kinds: kinds_a, combos: combos_covering(), combos_geo: vec![], max_records: 2, reduced: false, scratch: dir.path().to_path_buf() };
            ctx.harness(Config::new("query_le2_full", 0), |ch| body(ch, &sp));
            // (B) every layout x container pair on the scaled-down alphabets for the three file-format indexers ...
            let main_kinds = vec![Kind::BamBai, Kind::BcfCsi, Kind::VcfTabix];
            let sp = Space { kinds: main_kinds, combos: combos_pairs(), combos_geo: vec![], max_records: 2, reduced: true, scratch: dir.path().to_path_buf() };
            ctx.harness(Config::new("query_le2_reduced_all_layouts", 0), |ch| body(ch, &sp));
            // (C) the non-default geometries (binned and linear) on their own scaled-down alphabets ...
            let kinds_c: Vec<Kind> = kinds_t.iter().copied().filter(|k| k.geometry() != (14, 5)).collect();
            let sp = Space { kinds: kinds_c, combos: combos_covering(), combos_geo: vec![], max_records: 2, reduced: true, scratch: dir.path().to_path_buf() };
            ctx.harness(Config::new("query_le2_reduced_geometries", 0), |ch| body(ch, &sp));
            // (D) <= 3 records on the scaled-down alphabets (two multi-reference combinations).
            let kinds3 = vec![Kind::BamBai, Kind::BcfCsi, Kind::VcfTabix, Kind::BamBinned(3, 2), Kind::BamBinned(1, 3)];
            let sp = Space { kinds: kinds3, combos: vec![(1, 1, 2), (2, 2, 1)], combos_geo: vec![], max_records: 3, reduced: true, scratch: dir.path().to_path_buf() };
            ctx.harness(Config::new("query_le3_reduced", 0), |ch| body(ch, &sp));
        }
        drop(dir);
    });
}
