fn main(){}
