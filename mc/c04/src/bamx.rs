//! BAM side: file construction with the noodles writer, full scan, indexing, queries.

use std::io::{self, Cursor, Write};

use gidx::span::{self, Op};
use noodles_bam as bam;
use noodles_bgzf as bgzf;
use noodles_csi::{
    BinningIndex,
    binning_index::{
        Index, Indexer,
        index::reference_sequence::{Index as RsIndex, bin::Chunk},
    },
};
use noodles_sam::{
    self as sam,
    alignment::{
        Record as _, RecordBuf,
        record::{
            Flags,
            cigar::{Op as SamOp, op::Kind},
        },
        record_buf::{Cigar, Sequence},
    },
};
use vmc::{Chooser, Violation};

use crate::model::{self, Rec, pos};

pub fn header(n_refs: usize, ln: u64) -> sam::Header {
    let mut s = String::from("@HD\tVN:1.6\tSO:coordinate\n");
    for i in 0..n_refs {
        s.push_str(&format!("@SQ\tSN:sq{i}\tLN:{ln}\n"));
    }
    s.parse().expect("sam header")
}

fn kind(op: Op) -> Kind {
    match op {
        Op::M => Kind::Match,
        Op::I => Kind::Insertion,
        Op::D => Kind::Deletion,
        Op::N => Kind::Skip,
        Op::S => Kind::SoftClip,
        Op::H => Kind::HardClip,
        Op::P => Kind::Pad,
        Op::Eq => Kind::SequenceMatch,
        Op::X => Kind::SequenceMismatch,
    }
}

fn op_of(k: Kind) -> Op {
    match k {
        Kind::Match => Op::M,
        Kind::Insertion => Op::I,
        Kind::Deletion => Op::D,
        Kind::Skip => Op::N,
        Kind::SoftClip => Op::S,
        Kind::HardClip => Op::H,
        Kind::Pad => Op::P,
        Kind::SequenceMatch => Op::Eq,
        Kind::SequenceMismatch => Op::X,
    }
}

fn record_buf(r: &Rec) -> RecordBuf {
    let mut flags = Flags::empty();
    if r.unmapped {
        flags |= Flags::UNMAPPED;
    }
    let qlen: u64 = r.cigar.iter().filter(|(op, _)| op.consumes_query()).map(|&(_, n)| n).sum();
    let cigar: Cigar = r.cigar.iter().map(|&(op, n)| SamOp::new(kind(op), n as usize)).collect();
    let mut b = RecordBuf::builder()
        .set_name(format!("r{}", r.ord))
        .set_flags(flags)
        .set_cigar(cigar)
        .set_sequence(Sequence::from(vec![b'A'; qlen as usize]));
    if let Some(id) = r.rid {
        b = b.set_reference_sequence_id(id).set_alignment_start(pos(r.start));
    }
    b.build()
}

/// Block layouts: 0 = flush after the header and after every record, 1 = never, 2 = after the first record only.
pub fn write_bam(header: &sam::Header, recs: &[Rec], layout: usize) -> io::Result<Vec<u8>> {
    use sam::alignment::io::Write as _;
    let mut w = bam::io::Writer::new(Vec::new());
    w.write_header(header)?;
    if layout == 0 {
        w.get_mut().flush()?;
    }
    for (i, r) in recs.iter().enumerate() {
        w.write_alignment_record(header, &record_buf(r))?;
        if layout == 0 || (layout == 2 && i == 0) {
            w.get_mut().flush()?;
        }
    }
    w.try_finish()?;
    Ok(w.into_inner().into_inner())
}

type MemReader = bam::io::Reader<bgzf::io::Reader<Cursor<Vec<u8>>>>;

pub fn open(bytes: &[u8]) -> MemReader {
    bam::io::Reader::new(Cursor::new(bytes.to_vec()))
}

fn ord_of(name: Option<&[u8]>) -> Option<usize> {
    let n = name?;
    std::str::from_utf8(n).ok()?.strip_prefix('r')?.parse().ok()
}

/// Full scan with the plain reader. Checks that the file says what was written and that noodles'
/// `alignment_end` equals the harness's span function on every record.
pub fn scan(bytes: &[u8], recs: &[Rec], describe: &dyn Fn() -> String) -> Result<sam::Header, Violation> {
    let mut r = open(bytes);
    let io_err = |stage: &str, e: io::Error| {
        Violation::new(format!("file=bam stage={stage} symptom=error kind={:?}", e.kind()), describe(), "Ok", e.to_string())
    };
    let header = r.read_header().map_err(|e| io_err("scan-header", e))?;
    let mut n = 0;
    for res in r.records() {
        let rec = res.map_err(|e| io_err("scan-record", e))?;
        let Some(want) = recs.get(n) else {
            return Err(Violation::new("file=bam stage=scan symptom=more-records-than-written", describe(), format!("{} records", recs.len()), "more"));
        };
        let ord = ord_of(rec.name().map(|b| b.as_ref()));
        let rid = rec.reference_sequence_id().transpose().map_err(|e| io_err("scan-rid", e))?;
        let start = rec.alignment_start().transpose().map_err(|e| io_err("scan-start", e))?.map(|p| usize::from(p) as u64);
        let flags = rec.flags();
        let same = ord == Some(want.ord)
            && rid == want.rid
            && start == want.rid.map(|_| want.start)
            && flags.is_unmapped() == want.unmapped;
        if !same {
            return Err(Violation::new(
                "file=bam stage=scan symptom=record-differs-from-written",
                describe(),
                format!("{want:?}"),
                format!("ord {ord:?} rid {rid:?} start {start:?} unmapped {}", flags.is_unmapped()),
            ));
        }
        // span: the harness's function on the CIGAR as read back, against noodles' alignment_end
        let mut ops = Vec::new();
        for op in rec.cigar().iter() {
            let op = op.map_err(|e| io_err("scan-cigar", e))?;
            ops.push((op_of(op.kind()), op.len() as u64));
        }
        if ops != want.cigar {
            return Err(Violation::new("file=bam stage=scan symptom=cigar-differs-from-written", describe(), format!("{:?}", want.cigar), format!("{ops:?}")));
        }
        let theirs = rec.alignment_end().transpose().map_err(|e| io_err("scan-end", e))?.map(|p| usize::from(p) as u64);
        let mine = want.rid.map(|_| span::sam_end(want.start, &ops));
        if theirs != mine {
            return Err(Violation::new(
                format!("file=bam stage=span symptom=alignment_end-differs-from-spec cigar={}", if ops.is_empty() { "absent" } else { "present" }),
                format!("record POS {} CIGAR {ops:?}; {}", want.start, describe()),
                format!("{mine:?} (SAMv1: POS + sum(M/D/N/=/X) - 1, at least POS)"),
                format!("{theirs:?}"),
            ));
        }
        n += 1;
    }
    if n != recs.len() {
        return Err(Violation::new("file=bam stage=scan symptom=fewer-records-than-written", describe(), format!("{} records", recs.len()), format!("{n}")));
    }
    Ok(header)
}

/// The reader loop of `bam::fs::index`, feeding a `csi::binning_index::Indexer` of any geometry,
/// with the record's end computed by the harness's span function.
pub fn index_with<I>(bytes: &[u8], ms: u8, d: u8, n_refs: usize) -> io::Result<Index<I>>
where
    I: RsIndex + Default,
{
    let mut r = open(bytes);
    r.read_header()?;
    let mut ix = Indexer::<I>::new(ms, d);
    let mut record = bam::Record::default();
    let mut start_vp = r.get_ref().virtual_position();
    while r.read_record(&mut record)? != 0 {
        let end_vp = r.get_ref().virtual_position();
        let chunk = Chunk::new(start_vp, end_vp);
        let ctx = match (record.reference_sequence_id().transpose()?, record.alignment_start().transpose()?) {
            (Some(id), Some(start)) => {
                let mut ops = Vec::new();
                for op in record.cigar().iter() {
                    let op = op?;
                    ops.push((op_of(op.kind()), op.len() as u64));
                }
                let end = span::sam_end(usize::from(start) as u64, &ops);
                Some((id, start, pos(end), !record.flags().is_unmapped()))
            }
            _ => None,
        };
        ix.add_record(ctx, chunk)?;
        start_vp = end_vp;
    }
    Ok(ix.build(n_refs))
}

pub struct QueryStats {
    pub queries: u64,
    pub nonempty: u64,
    pub pruned: u64,
}

/// Every region × every reference, and the unmapped query, against the model.
#[allow(clippy::too_many_arguments)]
pub fn check_queries<I>(
    ch: &Chooser,
    bytes: &[u8],
    header: &sam::Header,
    index: &Index<I>,
    recs: &[Rec],
    n_refs: usize,
    ln: u64,
    label: &str,
    stage: &str,
    describe: &dyn Fn() -> String,
) -> Result<QueryStats, Violation>
where
    I: RsIndex,
{
    let (ms, d) = (index.min_shift(), index.depth());
    let mut st = QueryStats { queries: 0, nonempty: 0, pruned: 0 };
    let mut r = open(bytes);
    r.read_header().map_err(|e| Violation::new(format!("index={label} stage={stage} symptom=header-error"), describe(), "Ok", e.to_string()))?;
    for rid in 0..n_refs {
        let name = format!("sq{rid}");
        let pts = model::region_points(ms as u32, d as u32, recs, rid, ln);
        for reg in model::regions(&pts) {
            let exp = model::expected(recs, rid, reg);
            let region = reg.region(&name);
            let dq = || format!("{}; reader.query(&header, &index, &\"{}\".parse()?)", describe(), reg.text(&name));
            let q = match r.query(header, index, &region) {
                Ok(q) => q,
                Err(e) => {
                    return Err(Violation::new(
                        format!("index={label} stage={stage} symptom=query-error kind={:?}", e.kind()),
                        dq(),
                        format!("records {exp:?}"),
                        e.to_string(),
                    ));
                }
            };
            let mut got = Vec::new();
            for (k, res) in q.records().enumerate() {
                match res {
                    Ok(rec) => got.push(ord_of(rec.name().map(|b| b.as_ref())).unwrap_or(usize::MAX)),
                    Err(e) => {
                        return Err(Violation::new(
                            format!("index={label} stage={stage} symptom=record-error kind={:?}", e.kind()),
                            dq(),
                            format!("records {exp:?}"),
                            e.to_string(),
                        ));
                    }
                }
                if k > recs.len() + 1000 {
                    return Err(Violation::new(format!("index={label} stage={stage} symptom=query-does-not-terminate"), dq(), format!("records {exp:?}"), "more than 1000 surplus records"));
                }
            }
            st.queries += 1;
            if !got.is_empty() {
                st.nonempty += 1;
            }
            if model::pruning_removed_chunks(index, rid, reg) {
                st.pruned += 1;
            }
            if let Err((symptom, which)) = model::compare(&exp, &got) {
                let cause = match (symptom, which) {
                    ("omission", Some(o)) => model::omission_class(ms as u32, d as u32, &recs[o], reg),
                    _ => "-",
                };
                return Err(Violation::new(
                    format!("index={label} stage={stage} symptom={symptom} cause={cause}"),
                    dq(),
                    format!("records {exp:?} (filter of the full scan by POS + CIGAR span)"),
                    format!("records {got:?}"),
                ));
            }
        }
    }
    // the unmapped query
    let dq = || format!("{}; reader.query_unmapped(&index)", describe());
    let unplaced: Vec<usize> = recs.iter().filter(|x| x.rid.is_none()).map(|x| x.ord).collect();
    let flagged: Vec<usize> = recs.iter().filter(|x| x.unmapped).map(|x| x.ord).collect();
    let it = r.query_unmapped(index).map_err(|e| {
        Violation::new(format!("index={label} stage={stage} symptom=unmapped-query-error kind={:?}", e.kind()), dq(), format!("{unplaced:?}"), e.to_string())
    })?;
    let mut got = Vec::new();
    for (k, res) in it.enumerate() {
        match res {
            Ok(rec) => got.push(ord_of(rec.name().map(|b| b.as_ref())).unwrap_or(usize::MAX)),
            Err(e) => {
                return Err(Violation::new(format!("index={label} stage={stage} symptom=unmapped-record-error kind={:?}", e.kind()), dq(), format!("{unplaced:?}"), e.to_string()));
            }
        }
        if k > recs.len() + 1000 {
            break;
        }
    }
    st.queries += 1;
    ch.obs_hash(&got);
    // got must be a subsequence of the flagged records in file order (no duplicates, nothing
    // unflagged) and must contain every unplaced record
    let mut fi = 0;
    for &g in &got {
        match flagged[fi..].iter().position(|&f| f == g) {
            Some(k) => fi += k + 1,
            None => {
                let symptom = if flagged.contains(&g) { "unmapped-query-order-or-duplicate" } else { "unmapped-query-yields-mapped-record" };
                return Err(Violation::new(
                    format!("index={label} stage={stage} symptom={symptom}"),
                    dq(),
                    format!("a subsequence of the records flagged unmapped {flagged:?} containing {unplaced:?}"),
                    format!("{got:?}"),
                ));
            }
        }
    }
    for u in &unplaced {
        if !got.contains(u) {
            return Err(Violation::new(
                format!("index={label} stage={stage} symptom=unmapped-query-omission"),
                dq(),
                format!("every unplaced unmapped record {unplaced:?}"),
                format!("{got:?}"),
            ));
        }
    }
    Ok(st)
}
