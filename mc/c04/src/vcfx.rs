//! VCF / BCF side: file construction with the noodles writers, full scan, queries.

use std::io::{self, Cursor, Write};

use gidx::span;
use noodles_bcf as bcf;
use noodles_bgzf as bgzf;
use noodles_csi::{
    BinningIndex,
    binning_index::{
        Index, Indexer,
        index::{
            header::Builder as TbxHeaderBuilder,
            reference_sequence::{Index as RsIndex, bin::Chunk},
        },
    },
};
use noodles_vcf::{
    self as vcf,
    variant::{
        Record as _,
        record_buf::{
            AlternateBases, RecordBuf,
            info::field::{Value, value::Array},
        },
    },
};
use vmc::{Chooser, Violation};

use crate::model::{self, Rec, pos};

/// 0 = VCFv4.3, long spans through INFO/END; 1 = VCFv4.5, long spans through INFO/SVLEN.
pub fn file_format(flavour: usize) -> (u32, u32) {
    if flavour == 0 { (4, 3) } else { (4, 5) }
}

pub fn header(flavour: usize, n_refs: usize) -> vcf::Header {
    let mut s = String::new();
    if flavour == 0 {
        s.push_str("##fileformat=VCFv4.3\n");
        s.push_str("##INFO=<ID=END,Number=1,Type=Integer,Description=\"End position of the variant described in this record\">\n");
        s.push_str("##INFO=<ID=SVLEN,Number=.,Type=Integer,Description=\"Difference in length between REF and ALT alleles\">\n");
    } else {
        s.push_str("##fileformat=VCFv4.5\n");
        s.push_str("##INFO=<ID=END,Number=1,Type=Integer,Description=\"End position of the longest variant described in this record\">\n");
        s.push_str("##INFO=<ID=SVLEN,Number=A,Type=Integer,Description=\"Length of structural variant\">\n");
    }
    s.push_str("##ALT=<ID=DEL,Description=\"Deletion\">\n");
    for i in 0..n_refs {
        s.push_str(&format!("##contig=<ID=sq{i}>\n"));
    }
    s.push_str("#CHROM\tPOS\tID\tREF\tALT\tQUAL\tFILTER\tINFO\n");
    s.parse().expect("vcf header")
}

/// The record fields that carry the span: (REF, ALT, INFO/END, INFO/SVLEN).
fn span_fields(flavour: usize, r: &Rec) -> (&'static str, &'static str, Option<u64>, Option<u64>) {
    match r.span {
        1 => ("A", "C", None, None),
        2 => ("AC", "A", None, None),
        n => {
            if flavour == 0 {
                ("A", "<DEL>", Some(r.start + n - 1), None)
            } else {
                ("A", "<DEL>", None, Some(n))
            }
        }
    }
}

/// End by the harness's own VCF rule.
pub fn model_end(flavour: usize, start: u64, span: u64) -> u64 {
    let r = Rec { ord: 0, rid: Some(0), start, end: 0, unmapped: false, cigar: vec![], span };
    let (refb, _, end, svlen) = span_fields(flavour, &r);
    let sv: Vec<u64> = svlen.into_iter().collect();
    span::vcf_end(file_format(flavour), start, refb.len() as u64, end, &sv, &[])
}

fn record_buf(flavour: usize, r: &Rec) -> RecordBuf {
    let (refb, alt, end, svlen) = span_fields(flavour, r);
    let mut info: Vec<(String, Option<Value>)> = Vec::new();
    if let Some(e) = end {
        info.push(("END".into(), Some(Value::Integer(e as i32))));
    }
    if let Some(n) = svlen {
        info.push(("SVLEN".into(), Some(Value::Array(Array::Integer(vec![Some(n as i32)])))));
    }
    RecordBuf::builder()
        .set_reference_sequence_name(format!("sq{}", r.rid.unwrap()))
        .set_variant_start(pos(r.start))
        .set_ids([format!("v{}", r.ord)].into_iter().collect())
        .set_reference_bases(refb)
        .set_alternate_bases(AlternateBases::from(vec![alt.to_string()]))
        .set_info(info.into_iter().collect())
        .build()
}

pub fn write_vcf_gz(header: &vcf::Header, flavour: usize, recs: &[Rec], layout: usize) -> io::Result<Vec<u8>> {
    use vcf::variant::io::Write as _;
    let mut w = vcf::io::Writer::new(bgzf::io::Writer::new(Vec::new()));
    w.write_header(header)?;
    if layout == 0 {
        w.get_mut().flush()?;
    }
    for (i, r) in recs.iter().enumerate() {
        w.write_variant_record(header, &record_buf(flavour, r))?;
        if layout == 0 || (layout == 2 && i == 0) {
            w.get_mut().flush()?;
        }
    }
    w.into_inner().finish()
}

pub fn write_bcf(header: &vcf::Header, flavour: usize, recs: &[Rec], layout: usize) -> io::Result<Vec<u8>> {
    use vcf::variant::io::Write as _;
    let mut w = bcf::io::Writer::new(Vec::new());
    w.write_header(header)?;
    if layout == 0 {
        w.get_mut().flush()?;
    }
    for (i, r) in recs.iter().enumerate() {
        w.write_variant_record(header, &record_buf(flavour, r))?;
        if layout == 0 || (layout == 2 && i == 0) {
            w.get_mut().flush()?;
        }
    }
    w.try_finish()?;
    Ok(w.into_inner().into_inner())
}

fn ord_of(id: &[u8]) -> Option<usize> {
    std::str::from_utf8(id).ok()?.strip_prefix('v')?.parse().ok()
}

type VcfMem = vcf::io::Reader<bgzf::io::Reader<Cursor<Vec<u8>>>>;
type BcfMem = bcf::io::Reader<bgzf::io::Reader<Cursor<Vec<u8>>>>;

pub fn open_vcf(bytes: &[u8]) -> VcfMem {
    vcf::io::Reader::new(bgzf::io::Reader::new(Cursor::new(bytes.to_vec())))
}

pub fn open_bcf(bytes: &[u8]) -> BcfMem {
    bcf::io::Reader::new(Cursor::new(bytes.to_vec()))
}

fn io_v(file: &str, stage: &str, describe: &dyn Fn() -> String, e: io::Error) -> Violation {
    Violation::new(format!("file={file} stage={stage} symptom=error kind={:?}", e.kind()), describe(), "Ok", e.to_string())
}

fn via(flavour: usize, span: u64) -> &'static str {
    match span {
        1 | 2 => "REF",
        _ => {
            if flavour == 0 {
                "END"
            } else {
                "SVLEN"
            }
        }
    }
}

fn end_err(file: &str, flavour: usize, want: Option<&Rec>, describe: &dyn Fn() -> String, e: io::Error) -> Violation {
    let (v, fields) = match want {
        Some(w) => (via(flavour, w.span), format!("record POS {} span fields {:?}; ", w.start, span_fields(flavour, w))),
        None => ("?", String::new()),
    };
    Violation::new(
        format!("file={file} stage=span symptom=variant_end-error via={v} fileformat={:?} kind={:?}", file_format(flavour), e.kind()),
        format!("{fields}{}", describe()),
        "Ok(end)",
        e.to_string(),
    )
}

fn scan_one(
    file: &str,
    n: usize,
    recs: &[Rec],
    flavour: usize,
    id: &[u8],
    chrom: &str,
    start: Option<u64>,
    theirs: u64,
    describe: &dyn Fn() -> String,
) -> Result<(), Violation> {
    let Some(want) = recs.get(n) else {
        return Err(Violation::new(format!("file={file} stage=scan symptom=more-records-than-written"), describe(), format!("{}", recs.len()), "more"));
    };
    if ord_of(id) != Some(want.ord) || chrom != format!("sq{}", want.rid.unwrap()) || start != Some(want.start) {
        return Err(Violation::new(
            format!("file={file} stage=scan symptom=record-differs-from-written"),
            describe(),
            format!("{want:?}"),
            format!("id {:?} chrom {chrom} pos {start:?}", String::from_utf8_lossy(id)),
        ));
    }
    let mine = model_end(flavour, want.start, want.span);
    if theirs != mine {
        let via = via(flavour, want.span);
        return Err(Violation::new(
            format!("file={file} stage=span symptom=variant_end-differs-from-spec via={via} fileformat={:?}", file_format(flavour)),
            format!("record POS {} span fields {:?}; {}", want.start, span_fields(flavour, want), describe()),
            format!("{mine}"),
            format!("{theirs}"),
        ));
    }
    Ok(())
}

pub fn scan_vcf(bytes: &[u8], recs: &[Rec], flavour: usize, describe: &dyn Fn() -> String) -> Result<vcf::Header, Violation> {
    let mut r = open_vcf(bytes);
    let header = r.read_header().map_err(|e| io_v("vcf", "scan-header", describe, e))?;
    let mut n = 0;
    let mut rec = vcf::Record::default();
    loop {
        match r.read_record(&mut rec) {
            Ok(0) => break,
            Ok(_) => {}
            Err(e) => return Err(io_v("vcf", "scan-record", describe, e)),
        }
        let start = rec.variant_start().transpose().map_err(|e| io_v("vcf", "scan-start", describe, e))?.map(|p| usize::from(p) as u64);
        let end = rec.variant_end(&header).map_err(|e| end_err("vcf", flavour, recs.get(n), describe, e))?;
        let ids = rec.ids();
        let id: &str = ids.as_ref();
        scan_one("vcf", n, recs, flavour, id.as_bytes(), rec.reference_sequence_name(), start, usize::from(end) as u64, describe)?;
        n += 1;
    }
    if n != recs.len() {
        return Err(Violation::new("file=vcf stage=scan symptom=fewer-records-than-written", describe(), format!("{}", recs.len()), format!("{n}")));
    }
    Ok(header)
}

pub fn scan_bcf(bytes: &[u8], recs: &[Rec], flavour: usize, describe: &dyn Fn() -> String) -> Result<vcf::Header, Violation> {
    let mut r = open_bcf(bytes);
    let header = r.read_header().map_err(|e| io_v("bcf", "scan-header", describe, e))?;
    let mut n = 0;
    let mut rec = bcf::Record::default();
    loop {
        match r.read_record(&mut rec) {
            Ok(0) => break,
            Ok(_) => {}
            Err(e) => return Err(io_v("bcf", "scan-record", describe, e)),
        }
        let start = rec.variant_start().transpose().map_err(|e| io_v("bcf", "scan-start", describe, e))?.map(|p| usize::from(p) as u64);
        let end = rec.variant_end(&header).map_err(|e| end_err("bcf", flavour, recs.get(n), describe, e))?;
        let chrom = rec.reference_sequence_name(header.string_maps()).map_err(|e| io_v("bcf", "scan-chrom", describe, e))?.to_string();
        let ids = rec.ids();
        let id: &[u8] = ids.as_ref();
        scan_one("bcf", n, recs, flavour, id, &chrom, start, usize::from(end) as u64, describe)?;
        n += 1;
    }
    if n != recs.len() {
        return Err(Violation::new("file=bcf stage=scan symptom=fewer-records-than-written", describe(), format!("{}", recs.len()), format!("{n}")));
    }
    Ok(header)
}

/// The reader loop of `vcf::fs::index` feeding a CSI indexer of any geometry (with a tabix header so
/// that region names resolve), the end computed by the harness's VCF rule.
pub fn vcf_index_with<I>(bytes: &[u8], recs: &[Rec], flavour: usize, ms: u8, d: u8) -> io::Result<Index<I>>
where
    I: RsIndex + Default,
{
    let mut r = open_vcf(bytes);
    r.read_header()?;
    let mut names = noodles_csi::binning_index::index::header::ReferenceSequenceNames::new();
    let mut ix = Indexer::<I>::new(ms, d);
    let mut rec = vcf::Record::default();
    let mut start_vp = r.get_ref().virtual_position();
    let mut n = 0;
    while r.read_record(&mut rec)? != 0 {
        let end_vp = r.get_ref().virtual_position();
        let chunk = Chunk::new(start_vp, end_vp);
        let (id, _) = names.insert_full(rec.reference_sequence_name().into());
        let start = rec.variant_start().transpose()?.ok_or_else(|| io::Error::other("missing POS"))?;
        let end = model_end(flavour, usize::from(start) as u64, recs[n].span);
        ix.add_record(Some((id, start, pos(end), true)), chunk)?;
        start_vp = end_vp;
        n += 1;
    }
    let n_refs = names.len();
    let hdr = TbxHeaderBuilder::vcf().set_reference_sequence_names(names).build();
    Ok(ix.set_header(hdr).build(n_refs))
}

pub struct QueryStats {
    pub queries: u64,
    pub nonempty: u64,
    pub pruned: u64,
}

pub enum Src<'a> {
    Vcf(&'a [u8]),
    Bcf(&'a [u8]),
}

/// Every region × every reference against the model.
#[allow(clippy::too_many_arguments)]
pub fn check_queries<I>(
    ch: &Chooser,
    src: &Src,
    header: &vcf::Header,
    index: &Index<I>,
    recs: &[Rec],
    n_refs: usize,
    label: &str,
    stage: &str,
    describe: &dyn Fn() -> String,
) -> Result<QueryStats, Violation>
where
    I: RsIndex,
{
    let (ms, d) = (index.min_shift(), index.depth());
    let mut st = QueryStats { queries: 0, nonempty: 0, pruned: 0 };
    let mut vr = None;
    let mut br = None;
    match src {
        Src::Vcf(b) => {
            let mut r = open_vcf(b);
            r.read_header().map_err(|e| io_v("vcf", "query-header", describe, e))?;
            vr = Some(r);
        }
        Src::Bcf(b) => {
            let mut r = open_bcf(b);
            r.read_header().map_err(|e| io_v("bcf", "query-header", describe, e))?;
            br = Some(r);
        }
    }
    // names known to the index (tabix / CSI aux): references without records are unknown to it
    let index_names: Option<Vec<Vec<u8>>> =
        index.header().map(|h| h.reference_sequence_names().iter().map(|n| n.to_vec()).collect());
    let mut all = Vec::new();
    let mut unknown_ref = false;
    for rid in 0..n_refs {
        let name = format!("sq{rid}");
        let pts = model::region_points(ms as u32, d as u32, recs, rid, u64::MAX);
        // reference id as the index numbers it
        let index_rid = match &index_names {
            Some(names) => names.iter().position(|n| n == name.as_bytes()),
            None => Some(rid),
        };
        for reg in model::regions(&pts) {
            let exp = model::expected(recs, rid, reg);
            let region = reg.region(&name);
            let dq = || format!("{}; reader.query(&header, &index, &\"{}\".parse()?)", describe(), reg.text(&name));
            let mut got = Vec::new();
            let mut err: Option<io::Error> = None;
            if let Some(r) = vr.as_mut() {
                match r.query(header, index, &region) {
                    Ok(q) => {
                        for res in q.records() {
                            match res {
                                Ok(rec) => {
                                    let ids = rec.ids();
                                    let id: &str = ids.as_ref();
                                    got.push(ord_of(id.as_bytes()).unwrap_or(usize::MAX));
                                }
                                Err(e) => {
                                    return Err(Violation::new(format!("index={label} stage={stage} symptom=record-error kind={:?}", e.kind()), dq(), format!("records {exp:?}"), e.to_string()));
                                }
                            }
                            if got.len() > recs.len() + 1000 {
                                break;
                            }
                        }
                    }
                    Err(e) => err = Some(e),
                }
            } else if let Some(r) = br.as_mut() {
                match r.query(header, index, &region) {
                    Ok(q) => {
                        for res in q.records() {
                            match res {
                                Ok(rec) => {
                                    let ids = rec.ids();
                                    let id: &[u8] = ids.as_ref();
                                    got.push(ord_of(id).unwrap_or(usize::MAX));
                                }
                                Err(e) => {
                                    return Err(Violation::new(format!("index={label} stage={stage} symptom=record-error kind={:?}", e.kind()), dq(), format!("records {exp:?}"), e.to_string()));
                                }
                            }
                            if got.len() > recs.len() + 1000 {
                                break;
                            }
                        }
                    }
                    Err(e) => err = Some(e),
                }
            }
            st.queries += 1;
            if let Some(e) = err {
                // a tabix-style index only knows the reference names that occur in records; asking for
                // another name is outside its domain (InvalidInput) and a full scan keeps nothing there
                if index_rid.is_none() && exp.is_empty() && e.kind() == io::ErrorKind::InvalidInput {
                    unknown_ref = true;
                    continue;
                }
                return Err(Violation::new(
                    format!("index={label} stage={stage} symptom=query-error kind={:?}", e.kind()),
                    dq(),
                    format!("records {exp:?}"),
                    e.to_string(),
                ));
            }
            if !got.is_empty() {
                st.nonempty += 1;
            }
            if let Some(ir) = index_rid {
                if ir < index.reference_sequences().len() && model::pruning_removed_chunks(index, ir, reg) {
                    st.pruned += 1;
                }
            }
            if let Err((symptom, which)) = model::compare(&exp, &got) {
                let cause = match (symptom, which) {
                    ("omission", Some(o)) => model::omission_class(ms as u32, d as u32, &recs[o], reg),
                    _ => "-",
                };
                return Err(Violation::new(
                    format!("index={label} stage={stage} symptom={symptom} cause={cause}"),
                    dq(),
                    format!("records {exp:?} (filter of the full scan by the VCF span rule)"),
                    format!("records {got:?}"),
                ));
            }
            all.push(got);
        }
    }
    ch.obs_hash(&all);
    if unknown_ref {
        ch.tag("reference-unknown-to-index(rejected)");
    }
    Ok(st)
}
