//! The harness's own model of a file: what was written, where each record lies on the reference
//! (computed by `gidx::span`, never by noodles), and which records a region query must return.

use gidx::{alpha, span::Op, spec};
use noodles_core::{Position, Region, region::Interval};

pub fn pos(n: u64) -> Position {
    Position::try_from(n as usize).expect("position >= 1")
}

/// One record as the model sees it.
#[derive(Clone, Debug, PartialEq)]
pub struct Rec {
    /// ordinal in the file = identity (BAM name `r<ord>`, VCF ID `v<ord>`)
    pub ord: usize,
    /// reference id; `None` = unplaced
    pub rid: Option<usize>,
    pub start: u64,
    /// end by the harness's span function
    pub end: u64,
    pub unmapped: bool,
    pub cigar: Vec<(Op, u64)>,
    /// VCF: requested span (REF length / END / SVLEN carry it)
    pub span: u64,
}

/// A CIGAR with exactly `span` reference bases, tiny on the read; which operations are used
/// depends on the span so that M, N, D, =, X (reference) and S, I, H (not reference) all occur.
pub fn cigar_for(span: u64, ms: u32) -> Vec<(Op, u64)> {
    use Op::*;
    let l = 1u64 << ms;
    match span {
        0 => vec![],
        1 => vec![(M, 1)],
        2 => vec![(Eq, 1), (X, 1)],
        3 => vec![(M, 1), (D, 1), (M, 1)],
        n if n == l => vec![(S, 1), (M, 1), (N, n - 2), (M, 1)],
        n if n == l + 1 => vec![(M, 1), (I, 1), (D, n - 2), (M, 1)],
        n if n == 8 * l + 1 => vec![(M, 2), (N, n - 3), (Eq, 1)],
        n if n == 64 * l + 5 => vec![(H, 2), (M, 1), (D, 3), (N, n - 5), (M, 1), (S, 2)],
        n => vec![(M, 1), (N, n - 2), (X, 1)],
    }
}

/// Shapes of placed records for a geometry: (start, span, mapped). Placed unmapped records carry no
/// CIGAR (span 0, mapped = false).
pub fn shapes(ms: u32, d: u32, limit: u64, reduced: bool, with_unmapped: bool, with_zero: bool) -> Vec<(u64, u64, bool)> {
    let m = (spec::n_positions(ms, d) - 1).min(limit);
    let l = 1u64 << ms;
    let mut starts = alpha::starts(ms, d, m);
    let mut spans = alpha::spans(ms);
    if reduced {
        starts.retain(|&s| [1, l, l + 1, 8 * l + 1, 4096 * l + 1, spec::n_positions(ms, d) - 2].contains(&s));
        spans.retain(|&s| [0, 1, l, l + 1, 8 * l + 1].contains(&s));
        if starts.len() < 4 {
            starts = alpha::starts(ms, d, m);
        }
    }
    let mut v = Vec::new();
    for &s in &starts {
        for &sp in &spans {
            if sp == 0 && !with_zero {
                continue;
            }
            if s + sp.max(1) - 1 > m {
                continue;
            }
            v.push((s, sp, true));
        }
        if with_unmapped {
            v.push((s, 0, false));
        }
    }
    v
}

/// Region end points: the bin-edge alphabet ± 1 and every record end ± 1.
pub fn region_points(ms: u32, d: u32, recs: &[Rec], rid: usize, limit: u64) -> Vec<u64> {
    let m = (spec::n_positions(ms, d) - 1).min(limit);
    let mut base = alpha::starts(ms, d, m);
    for r in recs {
        if r.rid == Some(rid) {
            base.push(r.end);
        }
    }
    alpha::widen(&base, 1, m)
}

#[derive(Clone, Copy, Debug, PartialEq)]
pub enum Reg {
    Closed(u64, u64),
    From(u64),
    To(u64),
    All,
}

impl Reg {
    pub fn bounds(self) -> (u64, u64) {
        match self {
            Reg::Closed(a, b) => (a, b),
            Reg::From(a) => (a, u64::MAX),
            Reg::To(b) => (1, b),
            Reg::All => (1, u64::MAX),
        }
    }
    pub fn interval(self) -> Interval {
        match self {
            Reg::Closed(a, b) => (pos(a)..=pos(b)).into(),
            Reg::From(a) => (pos(a)..).into(),
            Reg::To(b) => (..=pos(b)).into(),
            Reg::All => (..).into(),
        }
    }
    pub fn region(self, name: &str) -> Region {
        Region::new(name, self.interval())
    }
    pub fn text(self, name: &str) -> String {
        match self {
            Reg::Closed(a, b) => format!("{name}:{a}-{b}"),
            Reg::From(a) => format!("{name}:{a}"),
            Reg::To(b) => format!("{name}:1-{b} (..={b})"),
            Reg::All => name.to_string(),
        }
    }
}

pub fn regions(points: &[u64]) -> Vec<Reg> {
    let mut v = vec![Reg::All];
    for (i, &a) in points.iter().enumerate() {
        v.push(Reg::From(a));
        v.push(Reg::To(a));
        for &b in &points[i..] {
            v.push(Reg::Closed(a, b));
        }
    }
    v
}

/// filter(full scan): ordinals of the records on `rid` whose span intersects the region, in file order.
pub fn expected(recs: &[Rec], rid: usize, reg: Reg) -> Vec<usize> {
    let (a, b) = reg.bounds();
    recs.iter()
        .filter(|r| r.rid == Some(rid) && r.start <= b && r.end >= a)
        .map(|r| r.ord)
        .collect()
}

/// Classifies an omitted record by where its bin lies relative to the leaf bin of the query start
/// (the bin whose stored offset the pruning consults first), for the fingerprint.
pub fn omission_class(ms: u32, d: u32, missing: &Rec, reg: Reg) -> &'static str {
    let (a, _) = reg.bounds();
    let m = spec::n_positions(ms, d) - 1;
    if missing.end > m || a > m {
        return "outside-geometry";
    }
    let leaf = spec::bin_of(a, a, ms, d);
    let bin = spec::bin_of(missing.start, missing.end, ms, d);
    if bin == leaf {
        "record-in-leaf-bin-of-query-start"
    } else if spec::is_ancestor_or_self(bin, leaf) {
        "record-in-ancestor-bin-of-query-start"
    } else if spec::bin_interval(bin, ms, d).0 > a {
        "record-in-bin-right-of-query-start"
    } else {
        "record-in-bin-left-of-query-start"
    }
}

/// Compares an observed answer with the expected one; `Err((symptom, detail))`.
pub fn compare(exp: &[usize], got: &[usize]) -> Result<(), (&'static str, Option<usize>)> {
    if exp == got {
        return Ok(());
    }
    let mut seen = std::collections::BTreeSet::new();
    for &g in got {
        if !seen.insert(g) {
            return Err(("duplicate", Some(g)));
        }
    }
    for &e in exp {
        if !got.contains(&e) {
            return Err(("omission", Some(e)));
        }
    }
    for &g in got {
        if !exp.contains(&g) {
            return Err(("extra", Some(g)));
        }
    }
    Err(("order", None))
}

/// Observation only (vacuity guard): did the min-offset pruning remove something from the chunks
/// of the region's bins? (pruned answer != plain merge of all chunks of the bins)
pub fn pruning_removed_chunks<I>(index: &noodles_csi::binning_index::Index<I>, rid: usize, reg: Reg) -> bool
where
    I: noodles_csi::binning_index::index::reference_sequence::Index,
{
    use noodles_csi::{BinningIndex, binning_index::merge_chunks};
    // only short closed regions are examined (each probe costs two more index look-ups)
    match reg {
        Reg::Closed(a, b) if b - a <= 2 => {}
        _ => return false,
    }
    let Ok(bins) = index.reference_sequences()[rid].query(index.min_shift(), index.depth(), reg.interval()) else {
        return false;
    };
    let all: Vec<_> = bins.iter().flat_map(|b| b.chunks()).copied().collect();
    match index.query(rid, reg.interval()) {
        Ok(pruned) => pruned != merge_chunks(&all),
        Err(_) => false,
    }
}
