//! Throw-away probe: D4 and the "leaf absent, later record in ancestor" variant through the public API.
use noodles_bgzf as bgzf;
use noodles_core::Position;
use noodles_csi::{
    self as csi, BinningIndex,
    binning_index::{Indexer, index::reference_sequence::{bin::Chunk, index::BinnedIndex}},
};

fn p(n: usize) -> Position { Position::try_from(n).unwrap() }
fn vp(n: u64) -> bgzf::VirtualPosition { bgzf::VirtualPosition::from(n) }

fn run(name: &str, recs: &[(usize, usize)], q: (usize, usize)) {
    let mut ix = Indexer::<BinnedIndex>::default();
    for (i, &(s, e)) in recs.iter().enumerate() {
        let c = Chunk::new(vp(100 * i as u64 + 100), vp(100 * i as u64 + 200));
        ix.add_record(Some((0, p(s), p(e), true)), c).unwrap();
    }
    let index: csi::Index = ix.build(1);
    let mem = index.query(0, (p(q.0)..=p(q.1)).into()).unwrap();
    let mut buf = Vec::new();
    { let mut w = csi::io::Writer::new(&mut buf); w.write_index(&index).unwrap(); }
    let back = csi::io::Reader::new(&buf[..]).read_index().unwrap();
    let re = back.query(0, (p(q.0)..=p(q.1)).into()).unwrap();
    println!("{name}: records {recs:?} query {q:?}\n  in memory : {mem:?}\n  after w->r: {re:?}\n  equal index: {}", back == index);
}

fn main() {
    run("D4", &[(1, 20000), (16385, 16400)], (16390, 16395));
    run("D4-gap", &[(1, 140000), (16385, 16400)], (16390, 16395));
    run("right-of-start", &[(16385, 16385), (16385, 32769)], (16384, 16385));
    run("right-of-start-2", &[(17000, 17001), (17002, 40000)], (1, 17001));
}
