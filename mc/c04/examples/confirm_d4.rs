//! Stand-alone confirmation (public API only) of the CSI pruning defects D4 / D4b and of the BCF
//! one-element integer vector defect that C04 runs into.
//!
//! cargo run --release --offline -p c04 --example confirm_d4
use std::io::Cursor;

use noodles_bcf as bcf;
use noodles_core::{Position, Region};
use noodles_csi::{self as csi, BinningIndex};
use noodles_vcf::{
    self as vcf,
    variant::{
        Record as _,
        io::Write as _,
        record_buf::{AlternateBases, RecordBuf, info::field::{Value, value::Array}},
    },
};

fn header(version: &str, svlen_number: &str) -> vcf::Header {
    format!(
        "##fileformat=VCFv{version}\n\
         ##INFO=<ID=END,Number=1,Type=Integer,Description=\"End position of the variant described in this record\">\n\
         ##INFO=<ID=SVLEN,Number={svlen_number},Type=Integer,Description=\"Length of structural variant\">\n\
         ##ALT=<ID=DEL,Description=\"Deletion\">\n\
         ##contig=<ID=sq0>\n\
         #CHROM\tPOS\tID\tREF\tALT\tQUAL\tFILTER\tINFO\n"
    )
    .parse()
    .unwrap()
}

fn rec(id: &str, pos: usize, end: Option<i32>, svlen: Option<i32>) -> RecordBuf {
    let mut info = Vec::new();
    if let Some(e) = end {
        info.push(("END".to_string(), Some(Value::Integer(e))));
    }
    if let Some(n) = svlen {
        info.push(("SVLEN".to_string(), Some(Value::Array(Array::Integer(vec![Some(n)])))));
    }
    RecordBuf::builder()
        .set_reference_sequence_name("sq0")
        .set_variant_start(Position::new(pos).unwrap())
        .set_ids([id.to_string()].into_iter().collect())
        .set_reference_bases("A")
        .set_alternate_bases(AlternateBases::from(vec![if end.is_some() || svlen.is_some() { "<DEL>" } else { "C" }.to_string()]))
        .set_info(info.into_iter().collect())
        .build()
}

fn bcf_bytes(header: &vcf::Header, records: &[RecordBuf]) -> Vec<u8> {
    let mut w = bcf::io::Writer::new(Vec::new());
    w.write_header(header).unwrap();
    for r in records {
        w.write_variant_record(header, r).unwrap();
    }
    w.try_finish().unwrap();
    w.into_inner().into_inner()
}

fn query(bytes: &[u8], index: &csi::Index, region: &str) -> Vec<String> {
    let mut r = bcf::io::Reader::new(Cursor::new(bytes.to_vec()));
    let h = r.read_header().unwrap();
    let region: Region = region.parse().unwrap();
    r.query(&h, index, &region)
        .unwrap()
        .records()
        .map(|x| String::from_utf8_lossy(x.unwrap().ids().as_ref()).into_owned())
        .collect()
}

fn scan(bytes: &[u8]) -> Vec<String> {
    let mut r = bcf::io::Reader::new(Cursor::new(bytes.to_vec()));
    let h = r.read_header().unwrap();
    r.records()
        .map(|x| {
            let x = x.unwrap();
            format!(
                "{}:{}-{}",
                String::from_utf8_lossy(x.ids().as_ref()),
                x.variant_start().unwrap().unwrap(),
                x.variant_end(&h).unwrap()
            )
        })
        .collect()
}

fn case(name: &str, records: &[RecordBuf], regions: &[&str]) {
    let h = header("4.3", ".");
    let bytes = bcf_bytes(&h, records);
    let dir = std::env::temp_dir().join(format!("c04-confirm-{}", std::process::id()));
    std::fs::create_dir_all(&dir).unwrap();
    let path = dir.join("x.bcf");
    std::fs::write(&path, &bytes).unwrap();
    let index = bcf::fs::index(&path).unwrap();
    std::fs::remove_dir_all(&dir).unwrap();
    let mut buf = Vec::new();
    {
        let mut w = csi::io::Writer::new(&mut buf);
        w.write_index(&index).unwrap();
        w.into_inner().finish().unwrap();
    }
    let reread = csi::io::Reader::new(&buf[..]).read_index().unwrap();
    println!("{name}: full scan {:?}", scan(&bytes));
    for region in regions {
        println!(
            "  query {region:<18} in memory {:?}   after csi write->read {:?}   (index equal after write->read: {})",
            query(&bytes, &index, region),
            query(&bytes, &reread, region),
            reread == index
        );
    }
    let _ = index.min_shift();
}

fn main() {
    // D4: an early long record lives in an ancestor bin of the later short one
    case("D4 ", &[rec("long", 1, Some(20000), None), rec("short", 16385, None, None)], &["sq0:16390-16395", "sq0:16385"]);
    // D4 with an absent intermediate ancestor: the written file loses the record too
    case("D4 gap", &[rec("long", 1, Some(140000), None), rec("short", 16385, None, None)], &["sq0:16385"]);
    // D4b: the leaf bin of the query start does not exist; its nearest existing ancestor's offset is a later record's
    case("D4b", &[rec("short", 16385, None, None), rec("long", 16385, Some(32769), None)], &["sq0", "sq0:16384-16385", "sq0:1-16385"]);

    // BCF: a one-element integer vector that needs 16 bits comes back as a scalar
    let h = header("4.5", "A");
    for n in [100, 16385] {
        let bytes = bcf_bytes(&h, &[rec("sv", 1, None, Some(n))]);
        let mut r = bcf::io::Reader::new(Cursor::new(bytes));
        let hh = r.read_header().unwrap();
        let x = r.records().next().unwrap().unwrap();
        println!("BCF VCFv4.5 SVLEN=[{n}]: variant_end = {:?}", x.variant_end(&hh).map(usize::from));
    }
}
