//! Independent reference decoders for the CRAM entropy codecs and integer codings.
//!
//! Written from the CRAM codecs specification (CRAMcodecs §2 "rANS 4x8", §3 "rANS Nx16") and the
//! CRAM format specification §2.3 (ITF8 / LTF8) / CRAMcodecs §1 (uint7); nothing in here calls or
//! copies noodles. The decoders are *strict*: every field the specification defines is checked
//! (compressed-size field, table sums, symbol look-ups outside the table, reads past the end), and
//! every failure is a short class-level string so that a harness can use it in a fingerprint.
//!
//! `calib::run()` decodes the literal (htscodecs-derived) streams that appear in noodles' own unit
//! tests; a harness must call it before using the decoders as an oracle.

pub mod calib;
pub mod ints;
pub mod nx16;
pub mod r4x8;

/// Largest output a reference decoder will allocate (hostile/garbage size fields are refused).
pub const MAX_OUT: usize = 1 << 26;

/// Byte reader over a slice with class-level errors.
pub struct Rd<'a> {
    pub buf: &'a [u8],
    pub pos: usize,
}

impl<'a> Rd<'a> {
    pub fn new(buf: &'a [u8]) -> Self {
        Self { buf, pos: 0 }
    }
    pub fn remaining(&self) -> usize {
        self.buf.len() - self.pos
    }
    pub fn u8(&mut self) -> Result<u8, String> {
        let b = *self.buf.get(self.pos).ok_or_else(|| "eof".to_string())?;
        self.pos += 1;
        Ok(b)
    }
    pub fn u16le(&mut self) -> Result<u32, String> {
        let a = self.u8()? as u32;
        let b = self.u8()? as u32;
        Ok(a | b << 8)
    }
    pub fn u32le(&mut self) -> Result<u32, String> {
        let a = self.u16le()?;
        let b = self.u16le()?;
        Ok(a | b << 16)
    }
    pub fn take(&mut self, n: usize) -> Result<&'a [u8], String> {
        if n > self.remaining() {
            return Err("eof".into());
        }
        let s = &self.buf[self.pos..self.pos + n];
        self.pos += n;
        Ok(s)
    }
    /// CRAMcodecs §1: 7 bits per byte, most significant group first, top bit = "more follows".
    pub fn uint7(&mut self) -> Result<u32, String> {
        let mut v: u64 = 0;
        for _ in 0..5 {
            let b = self.u8()?;
            v = (v << 7) | (b & 0x7f) as u64;
            if b & 0x80 == 0 {
                if v > u32::MAX as u64 {
                    return Err("uint7-overflow".into());
                }
                return Ok(v as u32);
            }
        }
        Err("uint7-too-long".into())
    }
}
