//! Reference rANS 4x8 decoder (CRAMcodecs §2; DESIGN.md Appendix C).
//!
//! ```text
//! stream  := order:u8  compressed_size:u32le  uncompressed_size:u32le  body
//! freqs() := sym = u8; last = sym; rle = 0
//!            loop: f = u8; if f >= 128: f = (f & 0x7f) << 8 | u8
//!                  F[sym] = f
//!                  if rle > 0: rle -= 1; sym += 1
//!                  else: sym = u8; if sym == last + 1: rle = u8
//!                  last = sym
//!            until sym == 0;            C[s+1] = C[s] + F[s]
//! step(R, F, C) := x = R & 0xfff; s = the symbol with C[s] <= x < C[s+1]
//!                  R = F[s] * (R >> 12) + x - C[s]; while R < 2^23: R = (R << 8) | u8;  return s
//! ```

use crate::{MAX_OUT, Rd};

const TOTFREQ: u32 = 4096;
const L: u32 = 1 << 23;
const NOSYM: u16 = 0xffff;

/// A frequency table with its cumulative look-up.
struct Table {
    f: [u32; 256],
    c: [u32; 256],
    /// slot -> symbol (NOSYM where no symbol covers the slot)
    look: Vec<u16>,
}

fn freq_value(r: &mut Rd) -> Result<u32, String> {
    let b = r.u8()? as u32;
    if b >= 128 {
        Ok(((b & 0x7f) << 8) | r.u8()? as u32)
    } else {
        Ok(b)
    }
}

/// `freqs()` of the module comment.
fn read_table(r: &mut Rd) -> Result<Table, String> {
    let mut f = [0u32; 256];
    let mut seen = [false; 256];
    let mut sym = r.u8()? as u32;
    let mut last = sym;
    let mut rle = 0u32;
    loop {
        let v = freq_value(r)?;
        if seen[sym as usize] {
            return Err("freq-table-symbol-twice".into());
        }
        seen[sym as usize] = true;
        f[sym as usize] = v;
        if rle > 0 {
            rle -= 1;
            sym = (sym + 1) & 0xff;
        } else {
            sym = r.u8()? as u32;
            if sym == last + 1 {
                rle = r.u8()? as u32;
            }
        }
        last = sym;
        if sym == 0 {
            break;
        }
    }
    let mut c = [0u32; 256];
    let mut acc = 0u32;
    for s in 0..256 {
        c[s] = acc;
        acc += f[s];
    }
    if acc > TOTFREQ {
        return Err("freq-table-sum>4096".into());
    }
    let mut look = vec![NOSYM; TOTFREQ as usize];
    for s in 0..256 {
        for x in c[s]..c[s] + f[s] {
            look[x as usize] = s as u16;
        }
    }
    Ok(Table { f, c, look })
}

fn step(state: &mut u32, t: &Table, r: &mut Rd) -> Result<u8, String> {
    let x = *state & 0xfff;
    let s = t.look[x as usize];
    if s == NOSYM {
        return Err("slot-outside-table".into());
    }
    let s = s as usize;
    *state = t.f[s]
        .checked_mul(*state >> 12)
        .and_then(|v| v.checked_add(x - t.c[s]))
        .ok_or_else(|| "state-overflow".to_string())?;
    while *state < L {
        *state = (*state << 8) | r.u8()? as u32;
    }
    Ok(s as u8)
}

/// What the reference decoder saw besides the payload (for tags / stricter harnesses).
#[derive(Clone, Copy, Debug, Default)]
pub struct Info {
    pub order: u8,
    pub trailing_bytes: usize,
    /// all four final states equal the specified encoder start state 2^23
    pub final_states_are_l: bool,
}

pub fn decode(src: &[u8]) -> Result<Vec<u8>, String> {
    decode_info(src).map(|x| x.0)
}

pub fn decode_info(src: &[u8]) -> Result<(Vec<u8>, Info), String> {
    let mut r = Rd::new(src);
    let order = r.u8()?;
    if order > 1 {
        return Err("order-byte".into());
    }
    let csize = r.u32le()? as usize;
    let usize_ = r.u32le()? as usize;
    if csize != r.remaining() {
        return Err("compressed-size-field".into());
    }
    if usize_ > MAX_OUT {
        return Err("size-cap".into());
    }
    let mut info = Info {
        order,
        ..Default::default()
    };
    if usize_ == 0 {
        // nothing to decode; the table (if any) is not interpreted
        info.trailing_bytes = r.remaining();
        return Ok((Vec::new(), info));
    }
    let mut out = vec![0u8; usize_];
    let mut states = [0u32; 4];
    if order == 0 {
        let t = read_table(&mut r)?;
        for s in &mut states {
            *s = r.u32le()?;
        }
        for (i, o) in out.iter_mut().enumerate() {
            *o = step(&mut states[i % 4], &t, &mut r)?;
        }
    } else {
        // contexts are listed with the same sym/last/rle scheme, each followed by freqs()
        let mut tables: Vec<Option<Table>> = (0..256).map(|_| None).collect();
        let mut sym = r.u8()? as u32;
        let mut last = sym;
        let mut rle = 0u32;
        loop {
            if tables[sym as usize].is_some() {
                return Err("context-twice".into());
            }
            tables[sym as usize] = Some(read_table(&mut r)?);
            if rle > 0 {
                rle -= 1;
                sym = (sym + 1) & 0xff;
            } else {
                sym = r.u8()? as u32;
                if sym == last + 1 {
                    rle = r.u8()? as u32;
                }
            }
            last = sym;
            if sym == 0 {
                break;
            }
        }
        for s in &mut states {
            *s = r.u32le()?;
        }
        let q = usize_ / 4;
        let mut idx = [0, q, 2 * q, 3 * q];
        let mut ctx = [0usize; 4];
        for _ in 0..q {
            for j in 0..4 {
                let t = tables[ctx[j]].as_ref().ok_or_else(|| "context-without-table".to_string())?;
                let s = step(&mut states[j], t, &mut r)?;
                out[idx[j]] = s;
                idx[j] += 1;
                ctx[j] = s as usize;
            }
        }
        while idx[3] < usize_ {
            let t = tables[ctx[3]].as_ref().ok_or_else(|| "context-without-table".to_string())?;
            let s = step(&mut states[3], t, &mut r)?;
            out[idx[3]] = s;
            idx[3] += 1;
            ctx[3] = s as usize;
        }
    }
    info.trailing_bytes = r.remaining();
    info.final_states_are_l = states.iter().all(|&s| s == L);
    Ok((out, info))
}
