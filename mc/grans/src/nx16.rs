//! Reference rANS Nx16 decoder (CRAMcodecs §3), written in the style of Appendix C.
//!
//! ```text
//! stream := flags:u8 [len:uint7 unless NO_SIZE]
//!           STRIPE: x:u8, clen[x]:uint7, x sub-streams (each a full Nx16 stream, decoded with
//!                   ulen_j = len/x + (len%x > j)), output interleaved out[i*x + j] = T_j[i]
//!           PACK:   nsym:u8, P[nsym]:u8, packed_len:uint7
//!           RLE:    meta_len:uint7, lit_len:uint7, meta (raw if meta_len&1 else clen:uint7 + order-0 stream)
//!           CAT: raw bytes | order-0 | order-1 body; then un-RLE, then un-PACK
//! alphabet() := sym = u8; last = sym; rle = 0
//!               loop: A[sym] = 1; if rle > 0: rle -= 1; sym += 1
//!                     else: sym = u8; if sym == last + 1: rle = u8
//!                     last = sym
//!               until sym == 0
//! order 0 := A = alphabet(); F[s] = uint7 for s in A; shift F up to sum 4096;
//!            R[0..N] = u32le; out[i] = step(R[i % N], 12)
//! order 1 := c = u8; bits = c >> 4; if c & 1: ulen:uint7 clen:uint7, table = order-0(N=4) of clen bytes
//!            A = alphabet(); for i in A: for j in A: F[i][j] = uint7; if 0: run:u8 more zeros
//!            shift F[i] up to sum 2^bits; R[0..N] = u32le; q = len / N
//!            q times: for j in 0..N: out[j*q + i] = step(R[j], ctx[j]); remainder by state N-1
//! step(R, bits) := x = R & (2^bits - 1); s with C[s] <= x < C[s+1];
//!                  R = F[s] * (R >> bits) + x - C[s]; if R < 2^15: R = (R << 16) | u16le
//! ```

use crate::{MAX_OUT, Rd};

pub const ORDER: u8 = 0x01;
pub const N32: u8 = 0x04;
pub const STRIPE: u8 = 0x08;
pub const NO_SIZE: u8 = 0x10;
pub const CAT: u8 = 0x20;
pub const RLE: u8 = 0x40;
pub const PACK: u8 = 0x80;

const NOSYM: u16 = 0xffff;

struct Table {
    f: [u32; 256],
    c: [u32; 256],
    look: Vec<u16>,
    bits: u32,
}

fn read_alphabet(r: &mut Rd) -> Result<[bool; 256], String> {
    let mut a = [false; 256];
    let mut sym = r.u8()? as u32;
    let mut last = sym;
    let mut rle = 0u32;
    loop {
        a[sym as usize] = true;
        if rle > 0 {
            rle -= 1;
            sym = (sym + 1) & 0xff;
        } else {
            sym = r.u8()? as u32;
            if sym == last + 1 {
                rle = r.u8()? as u32;
            }
        }
        last = sym;
        if sym == 0 {
            break;
        }
    }
    Ok(a)
}

fn build_table(mut f: [u32; 256], bits: u32) -> Result<Table, String> {
    let total = 1u64 << bits;
    let sum: u64 = f.iter().map(|&x| x as u64).sum();
    if sum > total {
        return Err(format!("freq-table-sum>2^{bits}"));
    }
    if sum != 0 && sum != total {
        let mut shift = 0;
        let mut s = sum;
        while s < total {
            s *= 2;
            shift += 1;
        }
        for x in f.iter_mut() {
            *x <<= shift;
        }
    }
    let mut c = [0u32; 256];
    let mut acc = 0u32;
    for s in 0..256 {
        c[s] = acc;
        acc += f[s];
    }
    if acc as u64 > total {
        return Err(format!("freq-table-sum>2^{bits}"));
    }
    let mut look = vec![NOSYM; total as usize];
    for s in 0..256 {
        for x in c[s]..c[s] + f[s] {
            look[x as usize] = s as u16;
        }
    }
    Ok(Table { f, c, look, bits })
}

fn step(state: &mut u32, t: &Table, r: &mut Rd) -> Result<u8, String> {
    let mask = (1u32 << t.bits) - 1;
    let x = *state & mask;
    let s = t.look[x as usize];
    if s == NOSYM {
        return Err("slot-outside-table".into());
    }
    let s = s as usize;
    *state = t.f[s]
        .checked_mul(*state >> t.bits)
        .and_then(|v| v.checked_add(x - t.c[s]))
        .ok_or_else(|| "state-overflow".to_string())?;
    if *state < (1 << 15) {
        *state = (*state << 16) | r.u16le()?;
    }
    Ok(s as u8)
}

fn order0(r: &mut Rd, len: usize, n: usize) -> Result<Vec<u8>, String> {
    let a = read_alphabet(r)?;
    let mut f = [0u32; 256];
    for s in 0..256 {
        if a[s] {
            f[s] = r.uint7()?;
        }
    }
    let t = build_table(f, 12)?;
    let mut states = vec![0u32; n];
    for s in &mut states {
        *s = r.u32le()?;
    }
    let mut out = vec![0u8; len];
    for (i, o) in out.iter_mut().enumerate() {
        *o = step(&mut states[i % n], &t, r)?;
    }
    Ok(out)
}

fn read_tables1(r: &mut Rd, bits: u32) -> Result<Vec<Option<Table>>, String> {
    let a = read_alphabet(r)?;
    let mut tables: Vec<Option<Table>> = (0..256).map(|_| None).collect();
    for i in 0..256 {
        if !a[i] {
            continue;
        }
        let mut f = [0u32; 256];
        let mut run = 0u32;
        for j in 0..256 {
            if !a[j] {
                continue;
            }
            if run > 0 {
                run -= 1;
            } else {
                f[j] = r.uint7()?;
                if f[j] == 0 {
                    run = r.u8()? as u32;
                }
            }
        }
        tables[i] = Some(build_table(f, bits)?);
    }
    Ok(tables)
}

fn order1(r: &mut Rd, len: usize, n: usize) -> Result<Vec<u8>, String> {
    let comp = r.u8()?;
    let bits = (comp >> 4) as u32;
    if !(1..=12).contains(&bits) {
        return Err("order1-bits".into());
    }
    let tables = if comp & 1 != 0 {
        let ulen = r.uint7()? as usize;
        let clen = r.uint7()? as usize;
        if ulen > MAX_OUT {
            return Err("size-cap".into());
        }
        let cdata = r.take(clen)?;
        let mut cr = Rd::new(cdata);
        let raw = order0(&mut cr, ulen, 4)?;
        read_tables1(&mut Rd::new(&raw), bits)?
    } else {
        read_tables1(r, bits)?
    };
    let mut states = vec![0u32; n];
    for s in &mut states {
        *s = r.u32le()?;
    }
    let mut out = vec![0u8; len];
    let q = len / n;
    let mut ctx = vec![0usize; n];
    for i in 0..q {
        for j in 0..n {
            let t = tables[ctx[j]].as_ref().ok_or_else(|| "context-without-table".to_string())?;
            let s = step(&mut states[j], t, r)?;
            out[j * q + i] = s;
            ctx[j] = s as usize;
        }
    }
    for o in out.iter_mut().skip(q * n) {
        let t = tables[ctx[n - 1]].as_ref().ok_or_else(|| "context-without-table".to_string())?;
        let s = step(&mut states[n - 1], t, r)?;
        *o = s;
        ctx[n - 1] = s as usize;
    }
    Ok(out)
}

/// What the reference decoder saw (for tags).
#[derive(Clone, Copy, Debug, Default)]
pub struct Info {
    /// flags byte actually present in the stream (encoders may downgrade, e.g. to CAT)
    pub flags: u8,
    pub trailing_bytes: usize,
}

/// Decodes one Nx16 stream. `external_len` is used only when the stream has NO_SIZE.
pub fn decode(src: &[u8], external_len: usize) -> Result<Vec<u8>, String> {
    decode_info(src, external_len).map(|x| x.0)
}

pub fn decode_info(src: &[u8], external_len: usize) -> Result<(Vec<u8>, Info), String> {
    let mut r = Rd::new(src);
    let (out, flags) = decode_rd(&mut r, external_len, 0)?;
    Ok((
        out,
        Info {
            flags,
            trailing_bytes: r.remaining(),
        },
    ))
}

fn decode_rd(r: &mut Rd, external_len: usize, depth: u32) -> Result<(Vec<u8>, u8), String> {
    let flags = r.u8()?;
    let mut len = if flags & NO_SIZE == 0 {
        r.uint7()? as usize
    } else {
        external_len
    };
    if len > MAX_OUT {
        return Err("size-cap".into());
    }
    let n = if flags & N32 != 0 { 32 } else { 4 };

    if flags & STRIPE != 0 {
        if depth > 2 {
            return Err("stripe-nesting".into());
        }
        let x = r.u8()? as usize;
        if x == 0 {
            return Err("stripe-zero-streams".into());
        }
        let mut clens = Vec::with_capacity(x);
        for _ in 0..x {
            clens.push(r.uint7()? as usize);
        }
        let mut out = vec![0u8; len];
        for (j, &clen) in clens.iter().enumerate() {
            let ulen = len / x + usize::from(len % x > j);
            let sub = r.take(clen)?;
            let mut sr = Rd::new(sub);
            let (t, _) = decode_rd(&mut sr, ulen, depth + 1).map_err(|e| format!("stripe-sub:{e}"))?;
            if t.len() != ulen {
                return Err("stripe-sub-length".into());
            }
            for (i, b) in t.iter().enumerate() {
                out[i * x + j] = *b;
            }
        }
        return Ok((out, flags));
    }

    let mut pack = None;
    if flags & PACK != 0 {
        let nsym = r.u8()? as usize;
        let p = r.take(nsym)?.to_vec();
        let packed_len = r.uint7()? as usize;
        pack = Some((p, nsym, len));
        len = packed_len;
    }
    let mut rle = None;
    if flags & RLE != 0 {
        let meta_len = r.uint7()? as usize;
        let lit_len = r.uint7()? as usize;
        let meta: Vec<u8> = if meta_len & 1 != 0 {
            r.take(meta_len / 2)?.to_vec()
        } else {
            let clen = r.uint7()? as usize;
            let cdata = r.take(clen)?;
            if meta_len / 2 > MAX_OUT {
                return Err("size-cap".into());
            }
            order0(&mut Rd::new(cdata), meta_len / 2, n)?
        };
        rle = Some((meta, len));
        len = lit_len;
    }
    if len > MAX_OUT {
        return Err("size-cap".into());
    }

    let mut data = if flags & CAT != 0 {
        r.take(len)?.to_vec()
    } else if flags & ORDER == 0 {
        order0(r, len, n)?
    } else {
        order1(r, len, n)?
    };

    if let Some((meta, out_len)) = rle {
        let mut m = Rd::new(&meta);
        let mut nsym = m.u8().map_err(|_| "rle-meta-eof".to_string())? as usize;
        if nsym == 0 {
            nsym = 256;
        }
        let mut l = [false; 256];
        for _ in 0..nsym {
            l[m.u8().map_err(|_| "rle-meta-eof".to_string())? as usize] = true;
        }
        if out_len > MAX_OUT {
            return Err("size-cap".into());
        }
        let mut out = Vec::with_capacity(out_len);
        for &s in &data {
            let mut k = 1usize;
            if l[s as usize] {
                k += m.uint7().map_err(|_| "rle-meta-eof".to_string())? as usize;
            }
            if out.len() + k > out_len {
                return Err("rle-overrun".into());
            }
            out.extend(std::iter::repeat_n(s, k));
        }
        if out.len() != out_len {
            return Err("rle-length".into());
        }
        data = out;
    }

    if let Some((p, nsym, out_len)) = pack {
        if out_len > MAX_OUT {
            return Err("size-cap".into());
        }
        let per = match nsym {
            0 => return Err("pack-nsym-0".into()),
            1 => 0,
            2 => 8,
            3..=4 => 4,
            5..=16 => 2,
            _ => return Err("pack-nsym>16".into()),
        };
        let mut out = Vec::with_capacity(out_len);
        if per == 0 {
            out.resize(out_len, p[0]);
        } else {
            let w = 8 / per;
            let mask = (1u32 << w) - 1;
            if data.len() * per < out_len {
                return Err("pack-short".into());
            }
            'outer: for &b in &data {
                let mut v = b as u32;
                for _ in 0..per {
                    if out.len() == out_len {
                        break 'outer;
                    }
                    let k = (v & mask) as usize;
                    out.push(*p.get(k).ok_or_else(|| "pack-index".to_string())?);
                    v >>= w;
                }
            }
        }
        data = out;
    }
    Ok((data, flags))
}
