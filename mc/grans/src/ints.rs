//! Reference ITF8 / LTF8 (CRAM §2.3) and uint7 (CRAMcodecs §1) decoders and encoded lengths.
//!
//! ITF8/LTF8: the number of leading 1 bits of the first byte is the number of bytes that follow; the
//! remaining low bits of the first byte are the most significant value bits, the following bytes are
//! big-endian. ITF8 with four following bytes uses only the low 4 bits of the last byte.
//! uint7: big-endian groups of 7 bits, top bit set on every byte except the last.

/// Returns (value, bytes consumed).
pub fn itf8_decode(b: &[u8]) -> Option<(i32, usize)> {
    let b0 = *b.first()? as u32;
    let k = (b0 as u8).leading_ones().min(4) as usize;
    if b.len() < 1 + k {
        return None;
    }
    let v: u32 = if k < 4 {
        let mut v = b0 & (0x7f >> k);
        for x in &b[1..=k] {
            v = (v << 8) | *x as u32;
        }
        v
    } else {
        ((b0 & 0x0f) << 28) | (b[1] as u32) << 20 | (b[2] as u32) << 12 | (b[3] as u32) << 4 | (b[4] as u32 & 0x0f)
    };
    Some((v as i32, 1 + k))
}

pub fn itf8_len(v: i32) -> usize {
    let u = v as u32;
    match u {
        0..=0x7f => 1,
        0x80..=0x3fff => 2,
        0x4000..=0x1f_ffff => 3,
        0x20_0000..=0xfff_ffff => 4,
        _ => 5,
    }
}

pub fn ltf8_decode(b: &[u8]) -> Option<(i64, usize)> {
    let b0 = *b.first()?;
    let k = b0.leading_ones() as usize; // 0..=8
    if b.len() < 1 + k {
        return None;
    }
    let mut v: u64 = if k >= 7 { 0 } else { (b0 as u64) & (0x7f >> k) };
    for x in &b[1..=k] {
        v = (v << 8) | *x as u64;
    }
    Some((v as i64, 1 + k))
}

pub fn ltf8_len(v: i64) -> usize {
    let u = v as u64;
    for (n, bits) in [(1, 7), (2, 14), (3, 21), (4, 28), (5, 35), (6, 42), (7, 49), (8, 56)] {
        if u >> bits == 0 {
            return n;
        }
    }
    9
}

pub fn uint7_decode(b: &[u8]) -> Option<(u32, usize)> {
    let mut v: u64 = 0;
    for (i, x) in b.iter().enumerate().take(5) {
        v = (v << 7) | (*x & 0x7f) as u64;
        if x & 0x80 == 0 {
            if v > u32::MAX as u64 {
                return None;
            }
            return Some((v as u32, i + 1));
        }
    }
    None
}

pub fn uint7_len(v: u32) -> usize {
    let bits = (32 - v.leading_zeros()).max(1) as usize;
    bits.div_ceil(7)
}
