//! Harness-side value model of GFF3 / GTF / BED lines (no noodles types) and small text helpers.

pub type B = Vec<u8>;

/// A GFF3 or GTF feature line as plain values.
#[derive(Clone, Debug)]
pub struct GRec {
    pub seqid: B,
    pub source: B,
    pub ty: B,
    pub start: usize,
    pub end: usize,
    pub score: Option<f32>,
    /// 0 = none ('.'), 1 = '+', 2 = '-', 3 = unknown ('?')
    pub strand: u8,
    pub phase: Option<u8>,
    /// tag -> values in order; one value = string (a one-element array is the same text)
    pub attrs: Vec<(B, Vec<B>)>,
    /// build a one-value attribute as `Value::Array(vec![v])` instead of `Value::String(v)`
    pub one_as_array: bool,
}

impl GRec {
    pub fn plain() -> Self {
        Self {
            seqid: b"sq0".to_vec(),
            source: b"src".to_vec(),
            ty: b"gene".to_vec(),
            start: 1,
            end: 1,
            score: None,
            strand: 0,
            phase: None,
            attrs: Vec::new(),
            one_as_array: false,
        }
    }
}

/// First differing field of two records (priority: attributes, then the typed columns, then the
/// three text columns) with the expected bytes of that field for classification.
pub fn gdiff(want: &GRec, got: &GRec) -> Option<(&'static str, B)> {
    if want.attrs.len() != got.attrs.len() {
        let all: B = want.attrs.iter().flat_map(|(t, v)| t.iter().copied().chain(v.iter().flatten().copied())).collect();
        return Some(("attr-count", all));
    }
    for ((wt, wv), (gt, gv)) in want.attrs.iter().zip(&got.attrs) {
        if wt != gt {
            return Some(("attr-tag", wt.clone()));
        }
        if wv.len() != gv.len() {
            return Some(("attr-value-count", wv.concat()));
        }
        for (a, b) in wv.iter().zip(gv) {
            if a != b {
                return Some(("attr-value", a.clone()));
            }
        }
    }
    if want.strand != got.strand {
        return Some(("strand", Vec::new()));
    }
    if want.phase != got.phase {
        return Some(("phase", Vec::new()));
    }
    if want.score.map(f32::to_bits) != got.score.map(f32::to_bits) {
        return Some(("score", Vec::new()));
    }
    if want.start != got.start {
        return Some(("start", Vec::new()));
    }
    if want.end != got.end {
        return Some(("end", Vec::new()));
    }
    if want.ty != got.ty {
        return Some(("type", want.ty.clone()));
    }
    if want.source != got.source {
        return Some(("source", want.source.clone()));
    }
    if want.seqid != got.seqid {
        return Some(("seqid", want.seqid.clone()));
    }
    None
}

/// Class of a text value for fingerprints (what kind of troublemaker it contains).
pub fn class_of(v: &[u8]) -> &'static str {
    let has = |c: u8| v.contains(&c);
    if has(b'\t') {
        "tab"
    } else if has(b'\n') {
        "lf"
    } else if has(b'\r') {
        "cr"
    } else if has(b'%') {
        "percent"
    } else if v.iter().any(|&c| c < 0x20 || c == 0x7f) {
        "ctrl"
    } else if has(b'"') {
        "quote"
    } else if has(b'\\') {
        "backslash"
    } else if has(b';') {
        "semicolon"
    } else if has(b'=') {
        "equals"
    } else if has(b'&') {
        "amp"
    } else if has(b',') {
        "comma"
    } else if v.iter().any(|&c| c >= 0x80) {
        "high"
    } else if v.first() == Some(&b'>') {
        "gt-lead"
    } else if v.first() == Some(&b'#') {
        "hash-lead"
    } else if has(b' ') {
        "space"
    } else if v.is_empty() {
        "empty"
    } else if v.iter().all(|c| c.is_ascii_alphanumeric() || *c == b'_') {
        "plain"
    } else {
        "punct"
    }
}

/// Class with the GTF escapes first (a value with a quote is a quote case whatever else it holds).
pub fn class_gtf(v: &[u8]) -> &'static str {
    if v.contains(&b'"') {
        "quote"
    } else if v.contains(&b'\\') {
        "backslash"
    } else {
        class_of(v)
    }
}

/// Every non-plain text field of `x` alone in an otherwise plain record (attributes first, the
/// three text columns last): used to attribute a failure of a multi-deviation record to one field.
pub fn isolate(x: &GRec, key: &[u8]) -> Vec<GRec> {
    let mut out = Vec::new();
    let mut push = |f: &dyn Fn(&mut GRec)| {
        let mut r = GRec::plain();
        f(&mut r);
        out.push(r);
    };
    for (t, vals) in &x.attrs {
        if class_of(t) != "plain" {
            push(&|r| r.attrs = vec![(t.clone(), vec![b"v".to_vec()])]);
        }
        for (i, v) in vals.iter().enumerate() {
            if class_of(v) != "plain" {
                if vals.len() == 1 {
                    push(&|r| r.attrs = vec![(key.to_vec(), vec![v.clone()])]);
                } else if i == 0 {
                    push(&|r| r.attrs = vec![(key.to_vec(), vec![v.clone(), b"z".to_vec()])]);
                } else {
                    push(&|r| r.attrs = vec![(key.to_vec(), vec![b"z".to_vec(), v.clone()])]);
                }
            }
        }
    }
    if class_of(&x.ty) != "plain" {
        push(&|r| r.ty = x.ty.clone());
    }
    if class_of(&x.source) != "plain" {
        push(&|r| r.source = x.source.clone());
    }
    if class_of(&x.seqid) != "plain" {
        push(&|r| r.seqid = x.seqid.clone());
    }
    out
}

pub fn non_plain_fields(x: &GRec) -> usize {
    x.attrs.iter().map(|(t, v)| (class_of(t) != "plain") as usize + v.iter().filter(|e| class_of(e) != "plain").count()).sum::<usize>()
        + [&x.seqid, &x.source, &x.ty].iter().filter(|v| class_of(v) != "plain").count()
}

/// Rust byte-string literal.
pub fn lit(b: &[u8]) -> String {
    let mut s = String::from("b\"");
    for &c in b {
        match c {
            b'\n' => s.push_str("\\n"),
            b'\r' => s.push_str("\\r"),
            b'\t' => s.push_str("\\t"),
            b'"' => s.push_str("\\\""),
            b'\\' => s.push_str("\\\\"),
            0x20..=0x7e => s.push(c as char),
            _ => s.push_str(&format!("\\x{c:02x}")),
        }
    }
    s.push('"');
    s
}

pub fn grec_literal(x: &GRec) -> String {
    let attrs: Vec<String> = x
        .attrs
        .iter()
        .map(|(t, v)| {
            if v.len() == 1 && !x.one_as_array {
                format!("({}, String({}))", lit(t), lit(&v[0]))
            } else {
                format!("({}, Array([{}]))", lit(t), v.iter().map(|e| lit(e)).collect::<Vec<_>>().join(", "))
            }
        })
        .collect();
    format!(
        "RecordBuf {{ reference_sequence_name: {}, source: {}, type: {}, start: {}, end: {}, score: {:?}, strand: {}, phase: {:?}, attributes: [{}] }}",
        lit(&x.seqid),
        lit(&x.source),
        lit(&x.ty),
        x.start,
        x.end,
        x.score,
        ["None", "Forward", "Reverse", "Unknown"][x.strand as usize],
        x.phase,
        attrs.join(", ")
    )
}

/// The three ways a probe byte is placed in a field.
pub const SHAPES: [&str; 4] = ["alone", "embedded", "leading", "trailing"];

pub fn shape(byte_or_str: &[u8], shape: usize) -> B {
    let mut v = Vec::new();
    match shape {
        0 => v.extend_from_slice(byte_or_str),
        1 => {
            v.push(b'a');
            v.extend_from_slice(byte_or_str);
            v.push(b'b');
        }
        2 => {
            v.extend_from_slice(byte_or_str);
            v.push(b'b');
        }
        _ => {
            v.push(b'a');
            v.extend_from_slice(byte_or_str);
        }
    }
    v
}

/// Independent percent-decoder (RFC 3986 style, as the GFF3 specification prescribes).
/// `Err` if a '%' is not followed by two hex digits.
pub fn pct_decode(s: &[u8]) -> Result<B, String> {
    let hex = |c: u8| -> Option<u8> {
        match c {
            b'0'..=b'9' => Some(c - b'0'),
            b'a'..=b'f' => Some(c - b'a' + 10),
            b'A'..=b'F' => Some(c - b'A' + 10),
            _ => None,
        }
    };
    let mut out = Vec::with_capacity(s.len());
    let mut i = 0;
    while i < s.len() {
        if s[i] == b'%' {
            match (s.get(i + 1).copied().and_then(hex), s.get(i + 2).copied().and_then(hex)) {
                (Some(h), Some(l)) => {
                    out.push(h * 16 + l);
                    i += 3;
                }
                _ => return Err(format!("raw '%' at {i}")),
            }
        } else {
            out.push(s[i]);
            i += 1;
        }
    }
    Ok(out)
}

/// Named troublemakers (the deviation alphabet of the free-text fields).
pub const TROUBLE: [&[u8]; 22] = [
    b"%25", b"%", b";=", b",", b"&", b"a\tb", b"a\nb", b">x", b"#x", b"x ", b" ", b"", b"\xc3\xa9", b"a=b", b"a;b", b"%41", b"a\rb", b".", b"\x7f", b"\x01", b"a\"b", b"a\\b",
];
