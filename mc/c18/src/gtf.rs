//! GTF: noodles conversions, an independent column-9 parser (`key "value";` with `\"` and `\\`
//! escapes, as the property states them), and the per-file oracle.

use bstr::BString;
use noodles_gff::feature::RecordBuf;
use noodles_gtf as gtf;
use vmc::Violation;

use crate::{
    gff3::{from_owned, phase_to, strand_to, to_noodles},
    model::{B, GRec, class_gtf as class_of, gdiff, grec_literal, lit},
};

#[derive(Clone, Debug)]
pub enum TLine {
    Rec(GRec),
    Comment(B),
}

/// Independent parser of the attribute column.
pub fn spec_attrs(col: &[u8]) -> Result<Vec<(B, Vec<B>)>, String> {
    let mut out: Vec<(B, Vec<B>)> = Vec::new();
    let mut p = 0;
    while p < col.len() {
        let sp = col[p..].iter().position(|&c| c == b' ').ok_or_else(|| format!("no space after key at {p}"))?;
        let key = col[p..p + sp].to_vec();
        p += sp + 1;
        if col.get(p) != Some(&b'"') {
            return Err(format!("value at {p} does not open with a quote"));
        }
        p += 1;
        let mut val = Vec::new();
        loop {
            match col.get(p) {
                None => return Err("unterminated quoted value".into()),
                Some(b'\\') => match col.get(p + 1) {
                    Some(&c) if c == b'\\' || c == b'"' => {
                        val.push(c);
                        p += 2;
                    }
                    _ => return Err(format!("dangling backslash at {p}")),
                },
                Some(b'"') => {
                    p += 1;
                    break;
                }
                Some(&c) => {
                    val.push(c);
                    p += 1;
                }
            }
        }
        if col.get(p) != Some(&b';') {
            return Err(format!("no ';' after the value at {p}"));
        }
        p += 1;
        if p < col.len() {
            if col[p] != b' ' {
                return Err(format!("no space between attributes at {p}"));
            }
            p += 1;
        }
        match out.iter_mut().find(|(k, _)| *k == key) {
            Some((_, v)) => v.push(val),
            None => out.push((key, vec![val])),
        }
    }
    Ok(out)
}

pub fn spec_check_line(line: &[u8], x: &GRec) -> Option<(String, &'static str, &'static str, String)> {
    let body = match line.strip_suffix(b"\n") {
        Some(b) => b,
        None => return Some(("line".into(), "plain", "missing-line-feed", String::new())),
    };
    // plain columns are delimiter-free in the domain, so a stray delimiter is the writer's
    for (raw, name) in [(b'\n', "lf"), (b'\r', "cr"), (b'\t', "tab")] {
        let n = body.iter().filter(|&&c| c == raw).count();
        let allowed = if raw == b'\t' { 8 } else { 0 };
        if n != allowed {
            return Some(("line".into(), name, "raw-delimiter-written", format!("{n} raw {name}")));
        }
    }
    let cols: Vec<&[u8]> = body.split(|&c| c == b'\t').collect();
    match spec_attrs(cols[8]) {
        Ok(a) => {
            let got = GRec { attrs: a, ..x.clone() };
            if let Some((field, b)) = gdiff(x, &got) {
                return Some((field.into(), class_of(&b), "spec-parse-differs", lit(cols[8])));
            }
        }
        Err(e) => {
            let cls = x.attrs.iter().flat_map(|(_, v)| v.iter()).map(|v| class_of(v)).find(|c| *c != "plain").unwrap_or("plain");
            return Some(("attr-value".into(), cls, "spec-parse-error", format!("{e}: {}", lit(cols[8]))));
        }
    }
    let num = |n: usize| n.to_string().into_bytes();
    let want_phase: &[u8] = match x.phase {
        None => b".",
        Some(0) => b"0",
        Some(1) => b"1",
        _ => b"2",
    };
    let score_ok = match x.score {
        None => cols[5] == b".",
        Some(s) => std::str::from_utf8(cols[5]).ok().and_then(|t| t.parse::<f32>().ok()).map(f32::to_bits) == Some(s.to_bits()),
    };
    for (name, ok) in [
        ("seqid", cols[0] == &x.seqid[..]),
        ("source", cols[1] == &x.source[..]),
        ("type", cols[2] == &x.ty[..]),
        ("start", cols[3] == num(x.start)),
        ("end", cols[4] == num(x.end)),
        ("score", score_ok),
        ("strand", cols[6] == [b".+-?"[x.strand as usize]]),
        ("phase", cols[7] == want_phase),
    ] {
        if !ok {
            return Some((name.into(), "plain", "spec-parse-differs", lit(body)));
        }
    }
    None
}

fn fp(stage: &str, field: &str, class: &str, symptom: &str, path: &str) -> String {
    format!("fmt=gtf stage={stage} field={field} class={class} symptom={symptom} path={path}")
}

pub fn from_lazy(r: &gtf::Record<'_>, cap: usize) -> Result<GRec, String> {
    use gtf::record::attributes::field::Value;
    let a = r.attributes().map_err(|e| format!("attributes: {e}"))?;
    let mut attrs = Vec::new();
    for (i, item) in a.iter().enumerate() {
        if i > cap {
            return Err("HANG attributes().iter() does not end".into());
        }
        let (k, v) = item.map_err(|e| format!("attributes: {e}"))?;
        let vals: Vec<B> = match v {
            Value::String(s) => vec![s.to_vec()],
            Value::Array(vs) => vs.iter().map(|s| s.to_vec()).collect(),
        };
        // get(key) agrees with iteration
        match a.get(k) {
            Some(Ok(g)) if g == v => {}
            other => return Err(format!("attributes().get({}) = {:?}, iter() gave {:?}", lit(k), other.map(|r| r.map_err(|e| e.to_string())), v)),
        }
        attrs.push((k.to_vec(), vals));
    }
    Ok(GRec {
        seqid: r.reference_sequence_name().to_vec(),
        source: r.source().to_vec(),
        ty: r.ty().to_vec(),
        start: usize::from(r.start().map_err(|e| format!("start: {e}"))?),
        end: usize::from(r.end().map_err(|e| format!("end: {e}"))?),
        score: r.score().transpose().map_err(|e| format!("score: {e}"))?,
        strand: strand_to(r.strand().map_err(|e| format!("strand: {e}"))?),
        phase: r.phase().transpose().map_err(|e| format!("phase: {e}"))?.map(phase_to),
        attrs,
        one_as_array: false,
    })
}

fn suspicious(x: &GRec) -> (&'static str, &'static str) {
    for (k, vals) in &x.attrs {
        for v in vals {
            if class_of(v) != "plain" {
                return ("attr-value", class_of(v));
            }
        }
        if class_of(k) != "plain" {
            return ("attr-key", class_of(k));
        }
    }
    for (f, v) in [("seqid", &x.seqid), ("source", &x.source), ("type", &x.ty)] {
        if class_of(v) != "plain" {
            return (f, class_of(v));
        }
    }
    ("record", "plain")
}

fn is_plain_rec(x: &GRec) -> bool {
    let ok = |v: &B| !v.is_empty() && v.iter().all(|c| c.is_ascii_alphanumeric());
    ok(&x.seqid) && ok(&x.source) && ok(&x.ty) && x.strand != 3 && x.attrs.iter().all(|(t, v)| ok(t) && v.iter().all(ok))
}

pub struct FileOutcome {
    pub violations: Vec<Violation>,
    pub written: Option<B>,
    pub rejected: bool,
}

pub fn describe(lines: &[TLine]) -> String {
    lines
        .iter()
        .map(|l| match l {
            TLine::Rec(r) => grec_literal(r),
            TLine::Comment(c) => format!("Comment({})", lit(c)),
        })
        .collect::<Vec<_>>()
        .join("; ")
}

#[derive(Debug)]
enum Lazy {
    Rec { lazy: GRec, built: Result<Result<GRec, String>, (String, String)> },
    Comment,
}

pub fn check_file(lines: &[TLine], use_write_line: bool) -> FileOutcome {
    let mut out = FileOutcome { violations: Vec::new(), written: None, rejected: false };
    let decoded = describe(lines);
    let mut w = gtf::io::Writer::new(Vec::new());
    let mut ends = Vec::new();
    for l in lines {
        let res = match l {
            TLine::Rec(r) => {
                let rb = to_noodles(r);
                if use_write_line { w.write_line(&gtf::LineBuf::Record(rb)) } else { w.write_record(&rb) }
            }
            TLine::Comment(c) => w.write_line(&gtf::LineBuf::Comment(BString::from(c.clone()))),
        };
        if let Err(e) = res {
            out.rejected = true;
            if matches!(l, TLine::Rec(r) if is_plain_rec(r)) {
                out.violations.push(Violation::new(fp("write", "record", "plain", "plain-record-rejected", "writer"), decoded.clone(), "Ok", format!("Err({e})")));
            }
            return out;
        }
        ends.push(w.get_ref().len());
    }
    let bytes = w.into_inner();
    out.written = Some(bytes.clone());

    let mut start = 0;
    for (l, &end) in lines.iter().zip(&ends) {
        let line = &bytes[start..end];
        start = end;
        if let TLine::Rec(x) = l {
            if let Some((field, class, symptom, detail)) = spec_check_line(line, x) {
                out.violations.push(Violation::new(
                    fp("write", &field, class, symptom, "spec"),
                    format!("{decoded}; written line = {}", lit(line)),
                    "a line whose columns and `key \"value\";` attributes (with \\\" and \\\\ escapes) give back the record",
                    detail,
                ));
            }
        }
    }

    let n = lines.len();
    // owned path
    let owned: Result<Vec<Result<gtf::LineBuf, String>>, (String, String)> = vmc::catch(|| {
        let mut r = gtf::io::Reader::new(&bytes[..]);
        let mut v = Vec::new();
        for item in r.line_bufs().take(n + 3) {
            v.push(item.map_err(|e| e.to_string()));
        }
        v
    });
    match &owned {
        Err((msg, file)) => {
            let (field, class) = lines.iter().find_map(|l| if let TLine::Rec(x) = l { Some(suspicious(x)) } else { None }).filter(|s| s.1 != "plain").unwrap_or(("record", "plain"));
            out.violations.push(Violation::new(
                format!("{} file={file}", fp("read", field, class, "panic", "owned")),
                format!("{decoded}; written = {}", lit(&bytes)),
                "no panic",
                format!("panic: {msg} in {file}"),
            ));
        }
        Ok(items) => {
            if items.len() != n {
                out.violations.push(Violation::new(
                    fp("read", "line-count", "any", "value-differs", "owned"),
                    format!("{decoded}; written = {}", lit(&bytes)),
                    format!("{n} lines"),
                    format!("{} lines", items.len()),
                ));
            }
            for (item, want) in items.iter().zip(lines) {
                match (item, want) {
                    (Ok(gtf::LineBuf::Record(r)), TLine::Rec(x)) => {
                        let got = from_owned(r);
                        if let Some((field, b)) = gdiff(x, &got) {
                            let field = if field == "attr-tag" { "attr-key" } else { field };
                            let cls = if field.starts_with("attr") { suspicious(x).1 } else { class_of(&b) };
                            out.violations.push(Violation::new(
                                fp("read", field, cls, "value-differs", "owned"),
                                format!("{decoded}; written = {}", lit(&bytes)),
                                grec_literal(x),
                                grec_literal(&got),
                            ));
                        }
                    }
                    (Ok(gtf::LineBuf::Comment(_)), TLine::Comment(_)) => {}
                    (Err(e), TLine::Rec(x)) => {
                        let (field, class) = suspicious(x);
                        out.violations.push(Violation::new(
                            fp("read", field, class, "error", "owned"),
                            format!("{decoded}; written = {}", lit(&bytes)),
                            grec_literal(x),
                            format!("Err({e})"),
                        ));
                        break;
                    }
                    (got, want) => {
                        let (field, class) = if let TLine::Rec(x) = want { suspicious(x) } else { ("comment", "any") };
                        out.violations.push(Violation::new(
                            fp("read", field, class, "line-kind-differs", "owned"),
                            format!("{decoded}; written = {}", lit(&bytes)),
                            format!("{want:?}"),
                            format!("{got:?}"),
                        ));
                        break;
                    }
                }
            }
        }
    }

    // lazy path with one reused Line
    let lazy: Result<Vec<Result<Lazy, String>>, (String, String)> = vmc::catch(|| {
        let mut r = gtf::io::Reader::new(&bytes[..]);
        let mut line = gtf::Line::default();
        let mut v = Vec::new();
        for _ in 0..n + 3 {
            match r.read_line(&mut line) {
                Ok(0) => break,
                Ok(_) => {
                    let item = match line.kind() {
                        gtf::line::Kind::Comment => line.as_comment().map(|_| Lazy::Comment).ok_or_else(|| "as_comment() is None".to_string()),
                        gtf::line::Kind::Record => match line.as_record() {
                            None => Err("as_record() is None".to_string()),
                            Some(Err(e)) => Err(e.to_string()),
                            Some(Ok(rec)) => {
                                // the owned record built from the view (may panic: D20)
                                let built = vmc::catch(|| RecordBuf::try_from_feature_record(&rec).map(|b| from_owned(&b)).map_err(|e| e.to_string()));
                                from_lazy(&rec, bytes.len() + 1000).map(|lazy| Lazy::Rec { lazy, built })
                            }
                        },
                    };
                    v.push(item);
                }
                Err(e) => {
                    v.push(Err(e.to_string()));
                    break;
                }
            }
        }
        v
    });
    match &lazy {
        Err((msg, file)) => out.violations.push(Violation::new(
            format!("{} msg={} file={file}", fp("read", "record", "any", "panic", "lazy"), vmc::normalise_msg(msg)),
            format!("{decoded}; written = {}", lit(&bytes)),
            "no panic",
            format!("panic: {msg} in {file}"),
        )),
        Ok(items) => {
            for (item, want) in items.iter().zip(lines) {
                match (item, want) {
                    (Ok(Lazy::Rec { lazy, built }), TLine::Rec(x)) => {
                        if let Some((field, b)) = gdiff(x, lazy) {
                            let field = if field == "attr-tag" { "attr-key" } else { field };
                            let cls = if field.starts_with("attr") { suspicious(x).1 } else { class_of(&b) };
                            out.violations.push(Violation::new(
                                fp("read", field, cls, "value-differs", "lazy"),
                                format!("{decoded}; written = {}", lit(&bytes)),
                                grec_literal(x),
                                grec_literal(lazy),
                            ));
                        }
                        match built {
                            Ok(Ok(b)) => {
                                if let Some((field, bb)) = gdiff(lazy, b) {
                                    out.violations.push(Violation::new(
                                        fp("read", field, class_of(&bb), "value-differs", "lazy-vs-owned"),
                                        format!("{decoded}; written = {}", lit(&bytes)),
                                        format!("lazy view: {}", grec_literal(lazy)),
                                        format!("RecordBuf::try_from_feature_record: {}", grec_literal(b)),
                                    ));
                                }
                            }
                            Ok(Err(e)) => out.violations.push(Violation::new(
                                fp("read", "record", "any", "error", "lazy-vs-owned"),
                                format!("{decoded}; written = {}", lit(&bytes)),
                                format!("lazy view: {}", grec_literal(lazy)),
                                format!("Err({e})"),
                            )),
                            Err((msg, file)) => out.violations.push(Violation::new(
                                format!("{} file={file}", fp("read", suspicious(x).0, suspicious(x).1, "panic", "lazy-vs-owned")),
                                format!("{decoded}; written = {}", lit(&bytes)),
                                "no panic",
                                format!("panic: {msg} in {file}"),
                            )),
                        }
                    }
                    (Ok(Lazy::Comment), TLine::Comment(_)) => {}
                    (Err(e), TLine::Rec(x)) => {
                        let (field, class) = suspicious(x);
                        let symptom = if e.starts_with("HANG") { "hang" } else { "error" };
                        out.violations.push(Violation::new(
                            fp("read", field, class, symptom, "lazy"),
                            format!("{decoded}; written = {}", lit(&bytes)),
                            grec_literal(x),
                            format!("Err({e})"),
                        ));
                        break;
                    }
                    (got, want) => {
                        let (field, class) = if let TLine::Rec(x) = want { suspicious(x) } else { ("comment", "any") };
                        out.violations.push(Violation::new(
                            fp("read", field, class, "line-kind-differs", "lazy"),
                            format!("{decoded}; written = {}", lit(&bytes)),
                            format!("{want:?}"),
                            format!("{got:?}"),
                        ));
                        break;
                    }
                }
            }
        }
    }
    out
}

pub fn check_attributed(lines: &[TLine], use_write_line: bool) -> FileOutcome {
    let mut out = check_file(lines, use_write_line);
    if out.violations.is_empty() {
        return out;
    }
    let multi = lines.len() > 1 || lines.iter().any(|l| matches!(l, TLine::Rec(x) if crate::model::non_plain_fields(x) > 1));
    if !multi {
        return out;
    }
    for l in lines {
        if let TLine::Rec(x) = l {
            for iso in crate::model::isolate(x, b"note") {
                let r = check_file(&[TLine::Rec(iso)], false);
                if !r.violations.is_empty() {
                    out.violations = r.violations;
                    return out;
                }
            }
        }
    }
    for v in out.violations.iter_mut() {
        if !["field=phase", "field=strand", "field=score", "field=start", "field=end"].iter().any(|f| v.fingerprint.contains(f)) {
            v.fingerprint.push_str(" interaction=yes");
        }
    }
    out
}

/// Violations on values containing a quote (D19/D20) are reported last.
pub fn pick(mut v: Vec<Violation>) -> Option<Violation> {
    if v.is_empty() {
        return None;
    }
    let rank = |x: &Violation| if x.fingerprint.contains("class=quote") { 1 } else { 0 };
    let i = (0..v.len()).min_by_key(|&i| (rank(&v[i]), i)).unwrap();
    Some(v.swap_remove(i))
}
