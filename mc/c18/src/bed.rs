//! BED3..BED6 (+ other fields up to BED12 and beyond): model, conversions and the per-file oracle.

use bstr::BString;
use noodles_bed::{
    self as bed,
    feature::{
        RecordBuf,
        record::Strand,
        record_buf::{OtherFields, other_fields::Value},
    },
};
use noodles_core::Position;
use vmc::Violation;

use crate::model::{B, class_of, lit};

#[derive(Clone, Debug, PartialEq)]
pub enum BVal {
    I(i64),
    U(u64),
    F(f64),
    C(u8),
    S(B),
}

impl BVal {
    /// The text a reader gives back (the lazy reader and the owned record built from it only know strings).
    pub fn text(&self) -> B {
        match self {
            BVal::I(n) => n.to_string().into_bytes(),
            BVal::U(n) => n.to_string().into_bytes(),
            BVal::F(n) => n.to_string().into_bytes(),
            BVal::C(c) => vec![*c],
            BVal::S(s) => s.clone(),
        }
    }
    fn to_noodles(&self) -> Value {
        match self {
            BVal::I(n) => Value::Int64(*n),
            BVal::U(n) => Value::UInt64(*n),
            BVal::F(n) => Value::Float64(*n),
            BVal::C(c) => Value::Character(*c),
            BVal::S(s) => Value::String(BString::from(s.clone())),
        }
    }
}

#[derive(Clone, Debug)]
pub struct BRec {
    /// number of standard fields, 3..=6
    pub n: usize,
    pub chrom: B,
    /// 1-based start position (written 0-based)
    pub start: usize,
    pub end: Option<usize>,
    pub name: Option<B>,
    pub score: u16,
    /// Some(true) = '+', Some(false) = '-'
    pub strand: Option<bool>,
    pub others: Vec<BVal>,
}

impl BRec {
    pub fn plain(n: usize) -> Self {
        Self { n, chrom: b"sq0".to_vec(), start: 1, end: Some(1), name: Some(b"n".to_vec()), score: 0, strand: None, others: Vec::new() }
    }
}

/// What a reader must give back for `x`.
#[derive(Clone, Debug, PartialEq)]
pub struct BText {
    pub chrom: B,
    pub start: usize,
    pub end: Option<usize>,
    pub name: Option<B>,
    pub score: Option<u16>,
    pub strand: Option<Option<bool>>,
    pub others: Vec<B>,
}

pub fn expected(x: &BRec) -> BText {
    BText {
        chrom: x.chrom.clone(),
        start: x.start,
        end: x.end,
        // "." is the text of a missing name
        name: if x.n >= 4 { x.name.clone().filter(|n| n != b".") } else { None },
        score: if x.n >= 5 { Some(x.score) } else { None },
        strand: if x.n >= 6 { Some(x.strand) } else { None },
        others: x.others.iter().map(|v| v.text()).collect(),
    }
}

fn bdiff(want: &BText, got: &BText) -> Option<(&'static str, B)> {
    if want.others.len() != got.others.len() {
        return Some(("other-count", want.others.concat()));
    }
    for (a, b) in want.others.iter().zip(&got.others) {
        if a != b {
            return Some(("other", a.clone()));
        }
    }
    if want.strand != got.strand {
        return Some(("strand", Vec::new()));
    }
    if want.score != got.score {
        return Some(("score", Vec::new()));
    }
    if want.name != got.name {
        return Some(("name", want.name.clone().unwrap_or_default()));
    }
    if want.end != got.end {
        return Some(("end", Vec::new()));
    }
    if want.start != got.start {
        return Some(("start", Vec::new()));
    }
    if want.chrom != got.chrom {
        return Some(("chrom", want.chrom.clone()));
    }
    None
}

pub fn literal(x: &BRec) -> String {
    format!(
        "RecordBuf::<{}> {{ reference_sequence_name: {}, feature_start: {}, feature_end: {:?}, name: {:?}, score: {}, strand: {:?}, other_fields: [{}] }}",
        x.n,
        lit(&x.chrom),
        x.start,
        x.end,
        x.name.as_deref().map(lit),
        x.score,
        x.strand.map(|s| if s { "Forward" } else { "Reverse" }),
        x.others
            .iter()
            .map(|v| match v {
                BVal::S(s) => format!("String({})", lit(s)),
                BVal::C(c) => format!("Character({})", lit(&[*c])),
                other => format!("{other:?}"),
            })
            .collect::<Vec<_>>()
            .join(", ")
    )
}

fn pos(n: usize) -> Position {
    Position::try_from(n).expect("position")
}

fn strand_of(s: bool) -> Strand {
    if s { Strand::Forward } else { Strand::Reverse }
}

fn others_of(x: &BRec) -> OtherFields {
    OtherFields::from(x.others.iter().map(|v| v.to_noodles()).collect::<Vec<_>>())
}

fn build3(x: &BRec) -> RecordBuf<3> {
    let mut b = RecordBuf::<3>::builder().set_reference_sequence_name(x.chrom.clone()).set_feature_start(pos(x.start));
    if let Some(e) = x.end {
        b = b.set_feature_end(pos(e));
    }
    b.set_other_fields(others_of(x)).build()
}

fn build4(x: &BRec) -> RecordBuf<4> {
    let mut b = RecordBuf::<4>::builder().set_reference_sequence_name(x.chrom.clone()).set_feature_start(pos(x.start));
    if let Some(e) = x.end {
        b = b.set_feature_end(pos(e));
    }
    if let Some(n) = &x.name {
        b = b.set_name(n.clone());
    }
    b.set_other_fields(others_of(x)).build()
}

fn build5(x: &BRec) -> RecordBuf<5> {
    let mut b = RecordBuf::<5>::builder().set_reference_sequence_name(x.chrom.clone()).set_feature_start(pos(x.start)).set_score(x.score);
    if let Some(e) = x.end {
        b = b.set_feature_end(pos(e));
    }
    if let Some(n) = &x.name {
        b = b.set_name(n.clone());
    }
    b.set_other_fields(others_of(x)).build()
}

fn build6(x: &BRec) -> RecordBuf<6> {
    let mut b = RecordBuf::<6>::builder().set_reference_sequence_name(x.chrom.clone()).set_feature_start(pos(x.start)).set_score(x.score);
    if let Some(e) = x.end {
        b = b.set_feature_end(pos(e));
    }
    if let Some(n) = &x.name {
        b = b.set_name(n.clone());
    }
    if let Some(s) = x.strand {
        b = b.set_strand(strand_of(s));
    }
    b.set_other_fields(others_of(x)).build()
}

fn strand_to(s: Option<Strand>) -> Option<bool> {
    s.map(|s| s == Strand::Forward)
}

fn owned_others(o: &OtherFields) -> Vec<B> {
    o.as_ref()
        .iter()
        .map(|v| match v {
            Value::String(s) => s.to_vec(),
            other => format!("<typed {other:?}>").into_bytes(),
        })
        .collect()
}

/// The spec's acceptance rules (BED v1.0 §1.5): what the writer is expected to take.
pub fn spec_accepts(x: &BRec) -> bool {
    let printable = |s: &[u8]| s.iter().all(|c| (0x20..=0x7e).contains(c));
    let chrom_ok = (1..=255).contains(&x.chrom.len()) && x.chrom.iter().all(|c| c.is_ascii_alphanumeric() || *c == b'_');
    let name_ok = x.n < 4 || x.name.as_ref().map(|n| (1..=255).contains(&n.len()) && printable(n)).unwrap_or(true);
    let others_ok = x.others.iter().all(|v| match v {
        BVal::S(s) => printable(s),
        BVal::C(c) => printable(&[*c]),
        _ => true,
    });
    chrom_ok && name_ok && others_ok
}

fn fp(stage: &str, path: &str, n: usize, field: &str, class: &str, symptom: &str) -> String {
    format!("fmt=bed stage={stage} path={path} n={n} field={field} class={class} symptom={symptom}")
}

pub struct FileOutcome {
    pub violations: Vec<Violation>,
    pub written: Option<B>,
    pub rejected: bool,
}

macro_rules! bed_file {
    ($fname:ident, $n:literal, $build:ident, $lazy:expr, $owned:expr) => {
        /// All records have `$n` standard fields; written with one writer, read with one reused `Record`.
        pub fn $fname(recs: &[BRec]) -> FileOutcome {
            let mut out = FileOutcome { violations: Vec::new(), written: None, rejected: false };
            let decoded = recs.iter().map(literal).collect::<Vec<_>>().join("; ");
            let mut w = bed::io::Writer::<$n, _>::new(Vec::new());
            let mut ends = Vec::new();
            for x in recs {
                let rb = $build(x);
                if let Err(e) = w.write_feature_record(&rb) {
                    out.rejected = true;
                    if spec_accepts(x) && x.chrom.iter().all(|c| c.is_ascii_alphanumeric()) {
                        out.violations.push(Violation::new(
                            fp("write", "writer", $n, "record", "plain", "spec-valid-record-rejected"),
                            decoded.clone(),
                            "Ok",
                            format!("Err({e})"),
                        ));
                    }
                    return out;
                }
                ends.push(w.get_ref().len());
            }
            let bytes = w.into_inner();
            out.written = Some(bytes.clone());
            // structure of the written lines
            let mut start = 0;
            for (x, &end) in recs.iter().zip(&ends) {
                let line = &bytes[start..end];
                start = end;
                let cols = line.strip_suffix(b"\n").map(|b| b.split(|&c| c == b'\t').count());
                let stray = line.iter().filter(|&&c| c == b'\n' || c == b'\r').count() != 1;
                if cols != Some($n + x.others.len()) || stray {
                    let culprit = if class_of(&x.chrom) != "plain" {
                        ("chrom", class_of(&x.chrom))
                    } else if x.name.as_ref().map(|n| matches!(class_of(n), "tab" | "lf" | "cr")).unwrap_or(false) {
                        ("name", class_of(x.name.as_ref().unwrap()))
                    } else {
                        ("other", x.others.iter().map(|v| class_of(&v.text())).find(|c| matches!(*c, "tab" | "lf" | "cr")).unwrap_or("plain"))
                    };
                    out.violations.push(Violation::new(
                        fp("write", "spec", $n, culprit.0, culprit.1, "raw-delimiter-written"),
                        format!("{decoded}; written line = {}", lit(line)),
                        format!("{} tab-separated columns and one line feed", $n + x.others.len()),
                        format!("{cols:?} columns"),
                    ));
                    return out;
                }
            }
            // read back with one reused lazy record
            let res = vmc::catch(|| {
                let mut r = bed::io::Reader::<$n, _>::new(&bytes[..]);
                let mut rec = bed::Record::<$n>::default();
                let mut v: Vec<Result<(BText, Result<BText, String>), String>> = Vec::new();
                for _ in 0..recs.len() + 2 {
                    match r.read_record(&mut rec) {
                        Ok(0) => break,
                        Ok(_) => {
                            let lazy: Result<BText, String> = ($lazy)(&rec);
                            let built = RecordBuf::<$n>::try_from_feature_record(&rec).map(|b| ($owned)(&b)).map_err(|e| e.to_string());
                            match lazy {
                                Ok(l) => v.push(Ok((l, built))),
                                Err(e) => v.push(Err(e)),
                            }
                        }
                        Err(e) => {
                            v.push(Err(e.to_string()));
                            break;
                        }
                    }
                }
                v
            });
            match res {
                Err((msg, file)) => out.violations.push(Violation::new(
                    format!("{} msg={} file={file}", fp("read", "lazy", $n, "record", "any", "panic"), vmc::normalise_msg(&msg)),
                    format!("{decoded}; written = {}", lit(&bytes)),
                    "no panic",
                    format!("panic: {msg} in {file}"),
                )),
                Ok(items) => {
                    if items.len() != recs.len() {
                        out.violations.push(Violation::new(
                            fp("read", "lazy", $n, "record-count", "any", "value-differs"),
                            format!("{decoded}; written = {}", lit(&bytes)),
                            format!("{} records", recs.len()),
                            format!("{} records", items.len()),
                        ));
                    }
                    for (item, x) in items.iter().zip(recs) {
                        let want = expected(x);
                        match item {
                            Err(e) => {
                                out.violations.push(Violation::new(
                                    fp("read", "lazy", $n, "record", "any", "error"),
                                    format!("{decoded}; written = {}", lit(&bytes)),
                                    format!("{want:?}"),
                                    format!("Err({e})"),
                                ));
                                break;
                            }
                            Ok((lazy, built)) => {
                                if let Some((field, b)) = bdiff(&want, lazy) {
                                    out.violations.push(Violation::new(
                                        fp("read", "lazy", $n, field, class_of(&b), "value-differs"),
                                        format!("{decoded}; written = {}", lit(&bytes)),
                                        format!("{want:?}"),
                                        format!("{lazy:?}"),
                                    ));
                                }
                                match built {
                                    Ok(b) => {
                                        if let Some((field, bb)) = bdiff(lazy, b) {
                                            out.violations.push(Violation::new(
                                                fp("read", "lazy-vs-owned", $n, field, class_of(&bb), "value-differs"),
                                                format!("{decoded}; written = {}", lit(&bytes)),
                                                format!("lazy view: {lazy:?}"),
                                                format!("RecordBuf::try_from_feature_record: {b:?}"),
                                            ));
                                        }
                                    }
                                    Err(e) => out.violations.push(Violation::new(
                                        fp("read", "lazy-vs-owned", $n, "record", "any", "error"),
                                        format!("{decoded}; written = {}", lit(&bytes)),
                                        format!("lazy view: {lazy:?}"),
                                        format!("Err({e})"),
                                    )),
                                }
                            }
                        }
                    }
                }
            }
            out
        }
    };
}

fn lazy_others<const N: usize>(r: &bed::Record<N>) -> Result<Vec<B>, String> {
    let o = r.other_fields();
    let v: Vec<B> = o.iter().take(10_000).map(|s| s.to_vec()).collect();
    if v.len() != o.len() {
        return Err(format!("other_fields().len() = {} but iter() gave {}", o.len(), v.len()));
    }
    for (i, e) in v.iter().enumerate() {
        if o.get(i).map(|s| s.to_vec()).as_ref() != Some(e) {
            return Err(format!("other_fields().get({i}) differs from iter()"));
        }
    }
    if o.get(v.len()).is_some() || o.is_empty() != v.is_empty() {
        return Err("other_fields().get(len) / is_empty() inconsistent".into());
    }
    Ok(v)
}

fn e2s<T>(r: std::io::Result<T>, what: &str) -> Result<T, String> {
    r.map_err(|e| format!("{what}: {e}"))
}

bed_file!(
    check3,
    3,
    build3,
    |r: &bed::Record<3>| -> Result<BText, String> {
        Ok(BText {
            chrom: r.reference_sequence_name().to_vec(),
            start: usize::from(e2s(r.feature_start(), "feature_start")?),
            end: e2s(r.feature_end().transpose(), "feature_end")?.map(usize::from),
            name: None,
            score: None,
            strand: None,
            others: lazy_others(r)?,
        })
    },
    |b: &RecordBuf<3>| BText {
        chrom: b.reference_sequence_name().to_vec(),
        start: usize::from(b.feature_start()),
        end: b.feature_end().map(usize::from),
        name: None,
        score: None,
        strand: None,
        others: owned_others(b.other_fields()),
    }
);

bed_file!(
    check4,
    4,
    build4,
    |r: &bed::Record<4>| -> Result<BText, String> {
        Ok(BText {
            chrom: r.reference_sequence_name().to_vec(),
            start: usize::from(e2s(r.feature_start(), "feature_start")?),
            end: e2s(r.feature_end().transpose(), "feature_end")?.map(usize::from),
            name: r.name().map(|n| n.to_vec()),
            score: None,
            strand: None,
            others: lazy_others(r)?,
        })
    },
    |b: &RecordBuf<4>| BText {
        chrom: b.reference_sequence_name().to_vec(),
        start: usize::from(b.feature_start()),
        end: b.feature_end().map(usize::from),
        name: b.name().map(|n| n.to_vec()),
        score: None,
        strand: None,
        others: owned_others(b.other_fields()),
    }
);

bed_file!(
    check5,
    5,
    build5,
    |r: &bed::Record<5>| -> Result<BText, String> {
        Ok(BText {
            chrom: r.reference_sequence_name().to_vec(),
            start: usize::from(e2s(r.feature_start(), "feature_start")?),
            end: e2s(r.feature_end().transpose(), "feature_end")?.map(usize::from),
            name: r.name().map(|n| n.to_vec()),
            score: Some(e2s(r.score(), "score")?),
            strand: None,
            others: lazy_others(r)?,
        })
    },
    |b: &RecordBuf<5>| BText {
        chrom: b.reference_sequence_name().to_vec(),
        start: usize::from(b.feature_start()),
        end: b.feature_end().map(usize::from),
        name: b.name().map(|n| n.to_vec()),
        score: Some(b.score()),
        strand: None,
        others: owned_others(b.other_fields()),
    }
);

bed_file!(
    check6,
    6,
    build6,
    |r: &bed::Record<6>| -> Result<BText, String> {
        Ok(BText {
            chrom: r.reference_sequence_name().to_vec(),
            start: usize::from(e2s(r.feature_start(), "feature_start")?),
            end: e2s(r.feature_end().transpose(), "feature_end")?.map(usize::from),
            name: r.name().map(|n| n.to_vec()),
            score: Some(e2s(r.score(), "score")?),
            strand: Some(strand_to(e2s(r.strand(), "strand")?)),
            others: lazy_others(r)?,
        })
    },
    |b: &RecordBuf<6>| BText {
        chrom: b.reference_sequence_name().to_vec(),
        start: usize::from(b.feature_start()),
        end: b.feature_end().map(usize::from),
        name: b.name().map(|n| n.to_vec()),
        score: Some(b.score()),
        strand: Some(strand_to(b.strand())),
        others: owned_others(b.other_fields()),
    }
);

pub fn check_file(recs: &[BRec]) -> FileOutcome {
    match recs[0].n {
        3 => check3(recs),
        4 => check4(recs),
        5 => check5(recs),
        _ => check6(recs),
    }
}
