//! BED3..BED6 (+ other fields up to BED12 and beyond): model, conversions and the per-file oracle.

use bstr::BString;
use noodles_bed::{
    self as bed,
    feature::{
        RecordBuf,
        record::Strand,
        record_buf::{OtherFields, other_fields::Value},
    },
};
use noodles_core::Position;
use vmc::Violation;

use crate::model::{B, class_of, lit};

#[derive(Clone, Debug, PartialEq)]
pub enum BVal {
    I(i64),
    U(u64),
    F(f64),
    C(u8),
    S(B),
}

impl BVal {
    /// The text a reader gives back (the lazy reader and the owned record built from it only know strings).
    pub fn text(&self) -> B {
        match self {
            BVal::I(n) => n.to_string().into_bytes(),
            BVal::U(n) => n.to_string().into_bytes(),
            BVal::F(n) => n.to_string().into_bytes(),
            BVal::C(c) => vec![*c],
            BVal::S(s) => s.clone(),
        }
    }
    fn to_noodles(&self) -> Value {
        match self {
            BVal::I(n) => Value::Int64(*n),
            BVal::U(n) => Value::UInt64(*n),
            BVal::F(n) => Value::Float64(*n),
            BVal::C(c) => Value::Character(*c),
            BVal::S(s) => Value::String(BString::from(s.clone())),
        }
    }
}

#[derive(Clone, Debug)]
pub struct BRec {
    /// number of standard fields, 3..=6
    pub n: usize,
    pub chrom: B,
    /// 1-based start position (written 0-based)
    pub start: usize,
    pub end: Option<usize>,
    pub name: Option<B>,
    pub score: u16,
    /// Some(true) = '+', Some(false) = '-'
    pub strand: Option<bool>,
    pub others: Vec<BVal>,
}

impl BRec {
    pub fn plain(n: usize) -> Self {
        Self { n, chrom: b"sq0".to_vec(), start: 1, end: Some(1), name: Some(b"n".to_vec()), score: 0, strand: None, others: Vec::new() }
    }
}

/// What a reader must give back for `x`.
#[derive(Clone, Debug, PartialEq)]
pub struct BText {
    pub chrom: B,
    pub start: usize,
    pub end: Option<usize>,
    pub name: Option<B>,
    pub score: Option<u16>,
    pub strand: Option<Option<bool>>,
    pub others: Vec<B>,
}

pub fn expected(x: &BRec) -> BText {
    BText {
        chrom: x.chrom.clone(),
        start: x.start,
        end: x.end,
        // "." is the text of a missing name
        name: if x.n >= 4 { x.name.clone().filter(|n| n != b".") } else { None },
        score: if x.n >= 5 { Some(x.score) } else { None },
        strand: if x.n >= 6 { Some(x.strand) } else { None },
        others: x.others.iter().map(|v| v.text()).collect(),
    }
}

fn bdiff(want: &BText, got: &BText) -> Option<(&'static str, B)> {
    if want.others.len() != got.others.len() {
        return Some(("other-count", want.others.concat()));
    }
    for (a, b) in want.others.iter().zip(&got.others) {
        if a != b {
            return Some(("other", a.clone()));
        }
    }
    if want.strand != got.strand {
        return Some(("strand", Vec::new()));
    }
    if want.score != got.score {
        return Some(("score", Vec::new()));
    }
    if want.name != got.name {
        return Some(("name", want.name.clone().unwrap_or_default()));
    }
    if want.end != got.end {
        return Some(("end", Vec::new()));
    }
    if want.start != got.start {
        return Some(("start", Vec::new()));
    }
    if want.chrom != got.chrom {
        return Some(("chrom", want.chrom.clone()));
    }
    None
}

pub fn literal(x: &BRec) -> String {
    format!(
        "RecordBuf::<{}> {{ reference_sequence_name: {}, feature_start: {}, feature_end: {:?}, name: {:?}, score: {}, strand: {:?}, other_fields: [{}] }}",
        x.n,
        lit(&x.chrom),
        x.start,
        x.end,
        x.name.as_deref().map(lit),
        x.score,
        x.strand.map(|s| if s { "Forward" } else { "Reverse" }),
        x.others
            .iter()
            .map(|v| match v {
                BVal::S(s) => format!("String({})", lit(s)),
                BVal::C(c) => format!("Character({})", lit(&[*c])),
                other => format!("{other:?}"),
            })
            .collect::<Vec<_>>()
            .join(", ")
    )
}

fn pos(n: usize) -> Position {
    Position::try_from(n).expect("position")
}

fn strand_of(s: bool) -> Strand {
    if s { Strand::Forward } else { Strand::Reverse }
}

fn others_of(x: &BRec) -> OtherFields {
    OtherFields::from(x.others.iter().map(|v| v.to_noodles()).collect::<Vec<_>>())
}

fn build3(x: &BRec) -> RecordBuf<3> {
    let mut b = RecordBuf::<3>::builder().set_reference_sequence_name(x.chrom.clone()).set_feature_start(pos(x.start));
    if let Some(e) = x.end {
        b = b.set_feature_end(pos(e));
    }
    b.set_other_fields(others_of(x)).build()
}

fn build4(x: &BRec) -> RecordBuf<4> {
    let mut b = RecordBuf::<4>::builder().set_reference_sequence_name(x.chrom.clone()).set_feature_start(pos(x.start));
    if let Some(e) = x.end {
        b = b.set_feature_end(pos(e));
    }
    if let Some(n) = &x.name {
        b = b.set_name(n.clone());
    }
    b.set_other_fields(others_of(x)).build()
}

fn build5(x: &BRec) -> RecordBuf<5> {
    let mut b = RecordBuf::<5>::builder().set_reference_sequence_name(x.chrom.clone()).set_feature_start(pos(x.start)).set_score(x.score);
    if let Some(e) = x.end {
        b = b.set_feature_end(pos(e));
    }
    if let Some(n) = &x.name {
        b = b.set_name(n.clone());
    }
    b.set_other_fields(others_of(x)).build()
}

fn build6(x: &BRec) -> RecordBuf<6> {
    let mut b = RecordBuf::<6>::builder().set_reference_sequence_name(x.chrom.clone()).set_feature_start(pos(x.start)).set_score(x.score);
    if let Some(e) = x.end {
        b = b.set_feature_end(pos(e));
    }
    if let Some(n) = &x.name {
        b = b.set_name(n.clone());
    }
    if let Some(s) = x.strand {
        b = b.set_strand(strand_of(s));
    }
    b.set_other_fields(others_of(x)).build()
}

fn strand_to(s: Option<Strand>) -> Option<bool> {
    s.map(|s| s == Strand::Forward)
}

fn owned_others(o: &OtherFields) -> Vec<B> {
    o.as_ref()
        .iter()
        .map(|v| match v {
            Value::String(s) => s.to_vec(),
            other => format!("<typed {other:?}>").into_bytes(),
        })
        .collect()
}

/// The spec's acceptance rules (BED v1.0 §1.5): what the writer is expected to take.
pub fn spec_accepts(x: &BRec) -> bool {
    let printable = |s: &[u8]| s.iter().all(|c| (0x20..=0x7e).contains(c));
    let chrom_ok = (1..=255).contains(&x.chrom.len()) && x.chrom.iter().all(|c| c.is_ascii_alphanumeric() || *c == b'_');
    let name_ok = x.n < 4 || x.name.as_ref().map(|n| (1..=255).contains(&n.len()) && printable(n)).unwrap_or(true);
    let others_ok = x.others.iter().all(|v| match v {
        BVal::S(s) => printable(s),
        BVal::C(c) => printable(&[*c]),
        _ => true,
    });
    chrom_ok && name_ok && others_ok
}

fn fp(stage: &str, path: &str, n: usize, field: &str, class: &str, symptom: &str) -> String {
    format!("fmt=bed stage={stage} path={path} n={n} field={field} class={class} symptom={symptom}")
}

pub struct FileOutcome {
    pub violations: Vec<Violation>,
    pub written: Option<B>,
    pub rejected: bool,
}

macro_rules! bed_file {
    ($fname:ident, $n:literal, $build:ident, $lazy:expr, $owned:expr) => {
        /// All records have `$n` standard fields; written with one writer, read with one reused `Record`.
        pub fn $fname(recs: &[BRec], mode: u8) -> FileOutcome {
            let mut out = FileOutcome { violations: Vec::new(), written: None, rejected: false };
            let decoded = recs.iter().map(literal).collect::<Vec<_>>().join("; ");
            let mut w = bed::io::Writer::<$n, _>::new(Vec::new());
            let mut ends = Vec::new();
            for x in recs {
                let rb = $build(x);
                if let Err(e) = w.write_feature_record(&rb) {
                    out.rejected = true;
                    if spec_accepts(x) && x.chrom.iter().all(|c| c.is_ascii_alphanumeric()) {
                        out.violations.push(Violation::new(
                            fp("write", "writer", $n, "record", "plain", "spec-valid-record-rejected"),
                            decoded.clone(),
                            "Ok",
                            format!("Err({e})"),
                        ));
                    }
                    return out;
                }
                ends.push(w.get_ref().len());
            }
            let bytes = w.into_inner();
            out.written = Some(bytes.clone());
            // structure of the written lines
            let mut start = 0;
            for (x, &end) in recs.iter().zip(&ends) {
                let line = &bytes[start..end];
                start = end;
                let cols = line.strip_suffix(b"\n").map(|b| b.split(|&c| c == b'\t').count());
                let stray = line.iter().filter(|&&c| c == b'\n' || c == b'\r').count() != 1;
                if cols != Some($n + x.others.len()) || stray {
                    let culprit = if class_of(&x.chrom) != "plain" {
                        ("chrom", class_of(&x.chrom))
                    } else if x.name.as_ref().map(|n| matches!(class_of(n), "tab" | "lf" | "cr")).unwrap_or(false) {
                        ("name", class_of(x.name.as_ref().unwrap()))
                    } else {
                        ("other", x.others.iter().map(|v| class_of(&v.text())).find(|c| matches!(*c, "tab" | "lf" | "cr")).unwrap_or("plain"))
                    };
                    out.violations.push(Violation::new(
                        fp("write", "spec", $n, culprit.0, culprit.1, "raw-delimiter-written"),
                        format!("{decoded}; written line = {}", lit(line)),
                        format!("{} tab-separated columns and one line feed", $n + x.others.len()),
                        format!("{cols:?} columns"),
                    ));
                    return out;
                }
            }
            // read back with one reused lazy record
            let res = vmc::catch(|| {
                let mut r = bed::io::Reader::<$n, _>::new(&bytes[..]);
                // mode 0: one reused record; 1: one reused record pre-dirtied with an unrelated
                // longer line; 2: a fresh record per read
                let mk = || {
                    let mut rec = bed::Record::<$n>::default();
                    if mode == 1 {
                        bed::io::Reader::<$n, _>::new(DIRTY_LINE).read_record(&mut rec).expect("dirty line");
                    }
                    rec
                };
                let mut rec = mk();
                let mut v: Vec<Result<(BText, Result<BText, String>), String>> = Vec::new();
                for _ in 0..recs.len() + 2 {
                    if mode == 2 {
                        rec = mk();
                    }
                    match r.read_record(&mut rec) {
                        Ok(0) => break,
                        Ok(_) => {
                            let lazy: Result<BText, String> = ($lazy)(&rec);
                            let built = RecordBuf::<$n>::try_from_feature_record(&rec).map(|b| ($owned)(&b)).map_err(|e| e.to_string());
                            match lazy {
                                Ok(l) => v.push(Ok((l, built))),
                                Err(e) => v.push(Err(e)),
                            }
                        }
                        Err(e) => {
                            v.push(Err(e.to_string()));
                            break;
                        }
                    }
                }
                v
            });
            match res {
                Err((msg, file)) => out.violations.push(Violation::new(
                    format!("{} msg={} file={file}", fp("read", "lazy", $n, "record", "any", "panic"), vmc::normalise_msg(&msg)),
                    format!("{decoded}; written = {}", lit(&bytes)),
                    "no panic",
                    format!("panic: {msg} in {file}"),
                )),
                Ok(items) => {
                    if items.len() != recs.len() {
                        out.violations.push(Violation::new(
                            fp("read", "lazy", $n, "record-count", "any", "value-differs"),
                            format!("{decoded}; written = {}", lit(&bytes)),
                            format!("{} records", recs.len()),
                            format!("{} records", items.len()),
                        ));
                    }
                    for (item, x) in items.iter().zip(recs) {
                        let want = expected(x);
                        match item {
                            Err(e) => {
                                out.violations.push(Violation::new(
                                    fp("read", "lazy", $n, "record", "any", "error"),
                                    format!("{decoded}; written = {}", lit(&bytes)),
                                    format!("{want:?}"),
                                    format!("Err({e})"),
                                ));
                                break;
                            }
                            Ok((lazy, built)) => {
                                if let Some((field, b)) = bdiff(&want, lazy) {
                                    out.violations.push(Violation::new(
                                        fp("read", "lazy", $n, field, class_of(&b), "value-differs"),
                                        format!("{decoded}; written = {}", lit(&bytes)),
                                        format!("{want:?}"),
                                        format!("{lazy:?}"),
                                    ));
                                }
                                match built {
                                    Ok(b) => {
                                        if let Some((field, bb)) = bdiff(lazy, b) {
                                            out.violations.push(Violation::new(
                                                fp("read", "lazy-vs-owned", $n, field, class_of(&bb), "value-differs"),
                                                format!("{decoded}; written = {}", lit(&bytes)),
                                                format!("lazy view: {lazy:?}"),
                                                format!("RecordBuf::try_from_feature_record: {b:?}"),
                                            ));
                                        }
                                    }
                                    Err(e) => out.violations.push(Violation::new(
                                        fp("read", "lazy-vs-owned", $n, "record", "any", "error"),
                                        format!("{decoded}; written = {}", lit(&bytes)),
                                        format!("lazy view: {lazy:?}"),
                                        format!("Err({e})"),
                                    )),
                                }
                            }
                        }
                    }
                }
            }
            out
        }
    };
}

fn lazy_others<const N: usize>(r: &bed::Record<N>) -> Result<Vec<B>, String> {
    let o = r.other_fields();
    let v: Vec<B> = o.iter().take(10_000).map(|s| s.to_vec()).collect();
    if v.len() != o.len() {
        return Err(format!("other_fields().len() = {} but iter() gave {}", o.len(), v.len()));
    }
    for (i, e) in v.iter().enumerate() {
        if o.get(i).map(|s| s.to_vec()).as_ref() != Some(e) {
            return Err(format!("other_fields().get({i}) differs from iter()"));
        }
    }
    if o.get(v.len()).is_some() || o.is_empty() != v.is_empty() {
        return Err("other_fields().get(len) / is_empty() inconsistent".into());
    }
    Ok(v)
}

fn e2s<T>(r: std::io::Result<T>, what: &str) -> Result<T, String> {
    r.map_err(|e| format!("{what}: {e}"))
}

bed_file!(
    check3,
    3,
    build3,
    |r: &bed::Record<3>| -> Result<BText, String> {
        Ok(BText {
            chrom: r.reference_sequence_name().to_vec(),
            start: usize::from(e2s(r.feature_start(), "feature_start")?),
            end: e2s(r.feature_end().transpose(), "feature_end")?.map(usize::from),
            name: None,
            score: None,
            strand: None,
            others: lazy_others(r)?,
        })
    },
    |b: &RecordBuf<3>| BText {
        chrom: b.reference_sequence_name().to_vec(),
        start: usize::from(b.feature_start()),
        end: b.feature_end().map(usize::from),
        name: None,
        score: None,
        strand: None,
        others: owned_others(b.other_fields()),
    }
);

bed_file!(
    check4,
    4,
    build4,
    |r: &bed::Record<4>| -> Result<BText, String> {
        Ok(BText {
            chrom: r.reference_sequence_name().to_vec(),
            start: usize::from(e2s(r.feature_start(), "feature_start")?),
            end: e2s(r.feature_end().transpose(), "feature_end")?.map(usize::from),
            name: r.name().map(|n| n.to_vec()),
            score: None,
            strand: None,
            others: lazy_others(r)?,
        })
    },
    |b: &RecordBuf<4>| BText {
        chrom: b.reference_sequence_name().to_vec(),
        start: usize::from(b.feature_start()),
        end: b.feature_end().map(usize::from),
        name: b.name().map(|n| n.to_vec()),
        score: None,
        strand: None,
        others: owned_others(b.other_fields()),
    }
);

bed_file!(
    check5,
    5,
    build5,
    |r: &bed::Record<5>| -> Result<BText, String> {
        Ok(BText {
            chrom: r.reference_sequence_name().to_vec(),
            start: usize::from(e2s(r.feature_start(), "feature_start")?),
            end: e2s(r.feature_end().transpose(), "feature_end")?.map(usize::from),
            name: r.name().map(|n| n.to_vec()),
            score: Some(e2s(r.score(), "score")?),
            strand: None,
            others: lazy_others(r)?,
        })
    },
    |b: &RecordBuf<5>| BText {
        chrom: b.reference_sequence_name().to_vec(),
        start: usize::from(b.feature_start()),
        end: b.feature_end().map(usize::from),
        name: b.name().map(|n| n.to_vec()),
        score: Some(b.score()),
        strand: None,
        others: owned_others(b.other_fields()),
    }
);

bed_file!(
    check6,
    6,
    build6,
    |r: &bed::Record<6>| -> Result<BText, String> {
        Ok(BText {
            chrom: r.reference_sequence_name().to_vec(),
            start: usize::from(e2s(r.feature_start(), "feature_start")?),
            end: e2s(r.feature_end().transpose(), "feature_end")?.map(usize::from),
            name: r.name().map(|n| n.to_vec()),
            score: Some(e2s(r.score(), "score")?),
            strand: Some(strand_to(e2s(r.strand(), "strand")?)),
            others: lazy_others(r)?,
        })
    },
    |b: &RecordBuf<6>| BText {
        chrom: b.reference_sequence_name().to_vec(),
        start: usize::from(b.feature_start()),
        end: b.feature_end().map(usize::from),
        name: b.name().map(|n| n.to_vec()),
        score: Some(b.score()),
        strand: Some(strand_to(b.strand())),
        others: owned_others(b.other_fields()),
    }
);

const DIRTY_LINE: &[u8] = b"dirtychromosomename\t12345678\t987654321\tdirty name\t999\t+\td1\td2\td3\td4\td5\td6\td7\td8\td9\n";

pub const READ_MODES: [&str; 3] = ["reused-clean", "reused-dirty", "fresh"];

pub fn check_file(recs: &[BRec]) -> FileOutcome {
    check_file_mode(recs, 0)
}

pub fn check_file_mode(recs: &[BRec], mode: u8) -> FileOutcome {
    let mut out = match recs[0].n {
        3 => check3(recs, mode),
        4 => check4(recs, mode),
        5 => check5(recs, mode),
        _ => check6(recs, mode),
    };
    if mode != 0 {
        for v in out.violations.iter_mut() {
            v.fingerprint.push_str(&format!(" mode={}", READ_MODES[mode as usize]));
        }
    }
    out
}

/// Independent rendering of the columns of an accepted record (BED v1.0: 0-based start, `0` for a
/// missing end, `.` for a missing name / strand).
pub fn expected_columns(x: &BRec) -> Vec<B> {
    let mut c: Vec<B> = vec![x.chrom.clone(), (x.start - 1).to_string().into_bytes(), x.end.map(|e| e.to_string()).unwrap_or_else(|| "0".into()).into_bytes()];
    if x.n >= 4 {
        c.push(x.name.clone().unwrap_or_else(|| b".".to_vec()));
    }
    if x.n >= 5 {
        c.push(x.score.to_string().into_bytes());
    }
    if x.n >= 6 {
        c.push(match x.strand {
            None => b".".to_vec(),
            Some(true) => b"+".to_vec(),
            Some(false) => b"-".to_vec(),
        });
    }
    c.extend(x.others.iter().map(|v| v.text()));
    c
}

/// One item of a writer sequence.
#[derive(Clone, Debug)]
pub enum WItem {
    /// written through `write_feature_record(&RecordBuf<N>)`; `Some(reason)` = the specification refuses it
    Rec(BRec, Option<&'static str>),
    /// a lazy record whose start column does not parse, through `write_record(&Record<N>)`
    LazyBadStart,
}

pub struct SeqOutcome {
    pub bytes: B,
    /// per item: (accepted, bytes left behind by a refused write)
    pub steps: Vec<(bool, usize)>,
}

macro_rules! bed_wseq {
    ($fname:ident, $n:literal, $build:ident) => {
        pub fn $fname(items: &[WItem]) -> SeqOutcome {
            let mut w = bed::io::Writer::<$n, _>::new(Vec::new());
            let mut steps = Vec::new();
            let mut bad = bed::Record::<$n>::default();
            bed::io::Reader::<$n, _>::new(&b"sq0\tx\t1\tn\t0\t+\n"[..]).read_record(&mut bad).expect("lazy line");
            for it in items {
                let before = w.get_ref().len();
                let res = match it {
                    WItem::Rec(x, _) => w.write_feature_record(&$build(x)),
                    WItem::LazyBadStart => w.write_record(&bad),
                };
                let after = w.get_ref().len();
                steps.push((res.is_ok(), if res.is_ok() { 0 } else { after - before }));
            }
            SeqOutcome { bytes: w.into_inner(), steps }
        }
    };
}

bed_wseq!(wseq3, 3, build3);
bed_wseq!(wseq4, 4, build4);
bed_wseq!(wseq5, 5, build5);
bed_wseq!(wseq6, 6, build6);

pub fn writer_seq(n: usize, items: &[WItem]) -> SeqOutcome {
    match n {
        3 => wseq3(items),
        4 => wseq4(items),
        5 => wseq5(items),
        _ => wseq6(items),
    }
}

/// Presence-spanning records with `n` standard fields: 0 / 1 / 3 / 6 / 9 other fields, name and end
/// present / missing, long and short columns, empty other fields.
pub fn reuse_set(n: usize) -> Vec<BRec> {
    let sv = |x: &str| BVal::S(x.as_bytes().to_vec());
    let mut long = BRec::plain(n);
    long.chrom = b"chromosome_with_a_long_name_1".to_vec();
    long.start = 123456789;
    long.end = Some(987654321);
    long.name = Some(b"a long feature name".to_vec());
    long.score = 1000;
    long.strand = Some(true);
    long.others = (0..9).map(|i| sv(&format!("a_long_other_field_{i}"))).collect();
    let mut short = BRec::plain(n);
    short.chrom = b"1".to_vec();
    short.end = None;
    short.name = None;
    let mut three = BRec::plain(n);
    three.others = vec![BVal::I(-5), BVal::U(7), sv("x")];
    three.strand = Some(false);
    let mut one = BRec::plain(n);
    one.name = None;
    one.others = vec![sv("x")];
    let mut six = BRec::plain(n);
    six.name = Some(b" ".to_vec());
    six.others = vec![sv(""), sv("a"), sv(""), sv("0,10,"), sv("b"), sv("")];
    let mut empty_other = BRec::plain(n);
    empty_other.score = 65535;
    empty_other.others = vec![sv("")];
    vec![BRec::plain(n), long, short, three, one, six, empty_other]
}

pub fn witems(n: usize) -> Vec<WItem> {
    let set = reuse_set(n);
    let sv = |x: &[u8]| BVal::S(x.to_vec());
    let mut not_alnum = BRec::plain(n);
    not_alnum.chrom = b"chr-1".to_vec();
    let mut empty_chrom = BRec::plain(n);
    empty_chrom.chrom = Vec::new();
    let mut bad_name = BRec::plain(n);
    bad_name.name = Some(b"\xc3\xa9".to_vec());
    let mut bad_other = BRec::plain(n);
    bad_other.others = vec![sv(b"ok"), sv(b"a\xc3\xa9"), sv(b"z")];
    let mut bad_char = BRec::plain(n);
    bad_char.others = vec![BVal::I(1), BVal::C(0x07)];
    vec![
        WItem::Rec(set[0].clone(), None),
        WItem::Rec(set[1].clone(), None),
        WItem::Rec(set[2].clone(), None),
        WItem::Rec(not_alnum, Some("chrom-not-alphanumeric")),
        WItem::Rec(empty_chrom, Some("chrom-empty")),
        WItem::Rec(bad_name, if n >= 4 { Some("name-not-printable") } else { None }),
        WItem::Rec(bad_other, Some("other-string-not-printable")),
        WItem::Rec(bad_char, Some("other-character-not-printable")),
        WItem::LazyBadStart,
    ]
}

/// The finished output of a writer sequence must be exactly the accepted records' lines.
pub fn judge_seq(n: usize, items: &[WItem]) -> Option<Violation> {
    let out = writer_seq(n, items);
    let accepted: Vec<&WItem> = items.iter().zip(&out.steps).filter(|(_, st)| st.0).map(|(it, _)| it).collect();
    let reason_of = |it: &WItem| match it {
        WItem::Rec(_, r) => r.unwrap_or("unexpected-refusal"),
        WItem::LazyBadStart => "lazy-record-with-unparsable-start",
    };
    let left = items.iter().zip(&out.steps).find(|(_, st)| !st.0 && st.1 > 0);
    let mut lines: Vec<&[u8]> = out.bytes.split_inclusive(|&c| c == b'\n').collect();
    if lines.last().map(|l| l.is_empty()).unwrap_or(false) {
        lines.pop();
    }
    let mut problem = None;
    if lines.len() != accepted.len() {
        problem = Some(format!("{} lines for {} accepted writes", lines.len(), accepted.len()));
    } else {
        for (l, it) in lines.iter().zip(&accepted) {
            let ok = match (l.strip_suffix(b"\n"), it) {
                (Some(body), WItem::Rec(x, _)) => body.split(|&c| c == b'\t').map(|c| c.to_vec()).collect::<Vec<_>>() == expected_columns(x),
                _ => false,
            };
            if !ok {
                problem = Some(format!("line {} is not the accepted record", lit(l)));
                break;
            }
        }
    }
    let problem = problem?;
    let (field, reason) = match left {
        Some((it, _)) => ("rejected-write-left-partial-line", reason_of(it)),
        None => ("output-differs-from-accepted-records", "none"),
    };
    let decoded = items
        .iter()
        .map(|it| match it {
            WItem::Rec(x, None) => format!("write_feature_record({})", literal(x)),
            WItem::Rec(x, Some(why)) => format!("write_feature_record({}) [refused: {why}]", literal(x)),
            WItem::LazyBadStart => "write_record(&lazy record read from \"sq0\\tx\\t1\\tn\\t0\\t+\") [refused: start does not parse]".to_string(),
        })
        .collect::<Vec<_>>()
        .join("; ");
    Some(Violation::new(
        format!("fmt=bed stage=writer-seq n={n} reason={reason} field={field}"),
        format!("one Writer<{n}>: {decoded}"),
        format!("output = the {} accepted lines, nothing else", accepted.len()),
        format!("{problem}; output = {}; bytes left by refused writes: {:?}", lit(&out.bytes), out.steps.iter().map(|s| s.1).collect::<Vec<_>>()),
    ))
}
