fn main() {
    println!("MACHINERY-ERROR property=C18 check not built yet");
    std::process::exit(2);
}
