//! C18 — GFF3 / GTF / BED lines round-trip, including escaping of reserved characters.
//!
//! E3: complete single-byte sweeps (0x01..=0xff alone / embedded / leading / trailing) of every
//! free-text column and attribute tag / value, and all pairs of the named troublemakers.
//! E1: record grammars (all records within k field deviations of three base records), line
//! sequences with directives and comments, BED3..BED6 with 0..9 other fields.
//! Oracles: the input value (inverse law through the owned and the lazy read path), a line parser
//! written here from the GFF3 / GTF specifications (written text), lazy view vs the owned record
//! built from it.

mod bed;
mod foreign;
mod gff3;
mod gtf;
mod model;
mod seq;

use std::sync::atomic::{AtomicU64, Ordering::Relaxed};

use vmc::{Chooser, Config, Outcome, json};

use crate::{
    bed::{BRec, BVal},
    gff3::{MDir, MLine},
    gtf::TLine,
    model::{B, GRec, SHAPES, TROUBLE, shape},
};

// ------------------------------------------------------------------------------------------------
// GFF3
// ------------------------------------------------------------------------------------------------

const GFF_FIELDS: [&str; 7] = ["seqid", "source", "type", "attr-tag", "attr-value", "attr-array-first", "attr-array-last"];

fn gff_probe(field: usize, v: B) -> GRec {
    let mut x = GRec::plain();
    let id = (b"ID".to_vec(), vec![b"g1".to_vec()]);
    match field {
        0 => x.seqid = v,
        1 => x.source = v,
        2 => x.ty = v,
        3 => x.attrs = vec![id, (v, vec![b"v".to_vec()])],
        4 => x.attrs = vec![id, (b"Note".to_vec(), vec![v])],
        5 => x.attrs = vec![id, (b"Note".to_vec(), vec![v, b"z".to_vec()])],
        _ => x.attrs = vec![(b"Note".to_vec(), vec![b"z".to_vec(), b"y".to_vec(), v]), id],
    }
    x
}

#[derive(Default)]
struct Counts {
    accepted: AtomicU64,
    rejected: AtomicU64,
    excluded: AtomicU64,
    escaped: AtomicU64,
}

fn gff_single(x: GRec, c: &Counts) -> Outcome {
    let r = gff3::check_attributed(&[MLine::Rec(x)], false);
    if r.rejected {
        c.rejected.fetch_add(1, Relaxed);
    } else {
        c.accepted.fetch_add(1, Relaxed);
        if r.written.as_ref().map(|w| w.contains(&b'%')).unwrap_or(false) {
            c.escaped.fetch_add(1, Relaxed);
        }
    }
    match gff3::pick(r.violations) {
        Some(v) => Err(v),
        None => Ok(()),
    }
}

fn pick_text(ch: &Chooser, label: &'static str, keep: &B, alphabet: &[&[u8]]) -> B {
    let k = ch.dev(label, alphabet.len() + 1);
    if k == 0 { keep.clone() } else { alphabet[k - 1].to_vec() }
}

const SCORES: [Option<f32>; 13] = [
    None,
    Some(0.0),
    Some(1.0),
    Some(-1.5),
    Some(0.1),
    Some(1e-7),
    Some(f32::MAX),
    Some(f32::MIN_POSITIVE),
    Some(-0.0),
    Some(1e10),
    Some(16777217.0),
    Some(f32::INFINITY),
    Some(f32::NEG_INFINITY),
];

const POSITIONS: [usize; 4] = [1, 2, 1000, usize::MAX];

fn gff_bases() -> Vec<GRec> {
    let s = |x: &str| x.as_bytes().to_vec();
    let mut gene = GRec::plain();
    gene.start = 10;
    gene.end = 20;
    gene.strand = 1;
    gene.attrs = vec![(s("ID"), vec![s("gene0")]), (s("Name"), vec![s("ndls0")])];
    let mut cds = GRec::plain();
    cds.ty = s("CDS");
    cds.start = 11;
    cds.end = 19;
    cds.score = Some(0.5);
    cds.strand = 2;
    cds.phase = Some(0);
    cds.attrs = vec![(s("ID"), vec![s("cds0")]), (s("Parent"), vec![s("mrna0"), s("mrna1")]), (s("Dbxref"), vec![s("a:1"), s("b:2"), s("c:3")])];
    vec![GRec::plain(), gene, cds]
}

/// Applies the deviation choices common to GFF3 and GTF to `x`.
fn deviate(ch: &Chooser, x: &mut GRec, text: &[&[u8]], keys: &[&[u8]], seqids: &[&[u8]], types: &[&[u8]]) {
    x.seqid = pick_text(ch, "seqid", &x.seqid.clone(), seqids);
    x.source = pick_text(ch, "source", &x.source.clone(), text);
    x.ty = pick_text(ch, "type", &x.ty.clone(), types);
    let k = ch.dev("start", POSITIONS.len() + 1);
    if k > 0 {
        x.start = POSITIONS[k - 1];
    }
    let k = ch.dev("end", POSITIONS.len() + 1);
    if k > 0 {
        x.end = POSITIONS[k - 1];
    }
    let k = ch.dev("score", SCORES.len() + 1);
    if k > 0 {
        x.score = SCORES[k - 1];
    }
    x.strand = (x.strand + ch.dev("strand", 4) as u8) % 4;
    let k = ch.dev("phase", 5);
    if k > 0 {
        x.phase = [None, Some(0), Some(1), Some(2)][k - 1];
    }
    let k = ch.dev("n_attrs", 5);
    if k > 0 {
        let n = k - 1;
        x.attrs.truncate(n);
        while x.attrs.len() < n {
            let i = x.attrs.len();
            x.attrs.push((format!("t{i}").into_bytes(), vec![b"v".to_vec()]));
        }
    }
    for i in 0..x.attrs.len() {
        let (tag, vals) = x.attrs[i].clone();
        let tag = pick_text(ch, "attr.tag", &tag, keys);
        let mut vals = vals;
        let k = ch.dev("attr.n_values", 4);
        if k > 0 {
            vals.truncate(k);
            while vals.len() < k {
                vals.push(format!("w{}", vals.len()).into_bytes());
            }
        }
        for v in vals.iter_mut() {
            *v = pick_text(ch, "attr.value", &v.clone(), text);
        }
        x.attrs[i] = (tag, vals);
    }
    // duplicate tags collapse in the owned record (IndexMap): keep tags distinct
    for i in 1..x.attrs.len() {
        if x.attrs[..i].iter().any(|(t, _)| *t == x.attrs[i].0) {
            x.attrs[i].0.extend_from_slice(format!("_{i}").as_bytes());
        }
    }
    x.one_as_array = ch.dev("one_as_array", 2) == 1;
}

fn gff_grammar(ch: &Chooser) -> Outcome {
    let bases = gff_bases();
    let mut x = ch.pick_free("base", &bases).clone();
    let mut types: Vec<&[u8]> = TROUBLE.to_vec();
    types.push(b"CDS");
    types.push(b"gene");
    deviate(ch, &mut x, &TROUBLE, &TROUBLE, &TROUBLE, &types);
    let ctx = ch.dev("context", 6);
    let use_write_line = ch.dev("write_line", 2) == 1;
    let mut other = GRec::plain();
    other.seqid = b"sq1".to_vec();
    other.attrs = vec![(b"ID".to_vec(), vec![b"o".to_vec()]), (b"Alias".to_vec(), vec![b"p".to_vec(), b"q".to_vec()])];
    let lines = match ctx {
        0 => vec![MLine::Rec(x)],
        1 => vec![MLine::Dir(MDir::Version("3")), MLine::Rec(x)],
        2 => vec![MLine::Comment(b" a comment".to_vec()), MLine::Rec(x)],
        3 => vec![MLine::Rec(x), MLine::Rec(other)],
        4 => vec![MLine::Rec(other), MLine::Rec(x)],
        _ => vec![MLine::Rec(other.clone()), MLine::Rec(x), MLine::Dir(MDir::Other(b"#".to_vec(), None)), MLine::Rec(other)],
    };
    ch.desc(|| gff3::describe(&lines));
    let r = gff3::check_attributed(&lines, use_write_line);
    match &r.written {
        Some(w) => {
            ch.obs(w);
            ch.tag("writer-accepted");
            if w.contains(&b'%') {
                ch.tag("percent-escape-written");
            }
        }
        None => {
            ch.obs(b"rejected");
            ch.tag("writer-rejected");
        }
    }
    ch.steps(lines.len() as u64 * 3);
    match gff3::pick(r.violations) {
        Some(v) => Err(v),
        None => Ok(()),
    }
}

fn gff_line_alphabet() -> Vec<MLine> {
    let s = |x: &str| x.as_bytes().to_vec();
    let bases = gff_bases();
    let mut wide = GRec::plain();
    wide.seqid = s("a_much_longer_sequence_id");
    wide.source = s("s");
    wide.ty = s("five_prime_UTR");
    wide.start = 123456789;
    wide.end = 987654321;
    wide.score = Some(1e-7);
    wide.attrs = vec![(s("Note"), vec![s("x;y=z,&%")])];
    vec![
        MLine::Rec(bases[0].clone()),
        MLine::Rec(bases[2].clone()),
        MLine::Rec(wide),
        MLine::Dir(MDir::Version("3")),
        MLine::Dir(MDir::Version("3.1")),
        MLine::Dir(MDir::Version("3.1.26")),
        MLine::Dir(MDir::SeqRegion(s("sq0"), 1, 8)),
        MLine::Dir(MDir::SeqRegion(s("chr|1:x"), 5, usize::MAX)),
        MLine::Dir(MDir::GenomeBuild(s("NCBI"), s("GRCh38.p14"))),
        MLine::Dir(MDir::Other(s("feature-ontology"), Some(s("http://example.org/so.obo#x")))),
        MLine::Dir(MDir::Other(s("species"), Some(s("two words  double space")))),
        MLine::Dir(MDir::Other(s("custom"), Some(s("")))),
        MLine::Dir(MDir::Other(s("custom"), Some(s(" leading and trailing ")))),
        MLine::Dir(MDir::Other(s("custom"), None)),
        MLine::Dir(MDir::Other(s("#"), None)),
        MLine::Dir(MDir::Other(s("k\u{e9}y"), Some(s("v\u{e9}\u{7f}=;,%41")))),
        MLine::Comment(s(" free text")),
        MLine::Comment(s("")),
        MLine::Dir(MDir::Other(s("FASTA"), None)),
    ]
}

fn gff_lines(ch: &Chooser, depth: usize) -> Outcome {
    let alphabet = gff_line_alphabet();
    let mut lines = Vec::new();
    for _ in 0..depth {
        let k = ch.free("line", alphabet.len() + 1);
        if k == 0 {
            break;
        }
        lines.push(alphabet[k - 1].clone());
    }
    if lines.is_empty() {
        ch.obs(b"empty");
        return Ok(());
    }
    let use_write_line = ch.free("write_line", 2) == 1;
    ch.desc(|| gff3::describe(&lines));
    let r = gff3::check_attributed(&lines, use_write_line);
    if let Some(w) = &r.written {
        ch.obs(w);
    }
    if lines.iter().any(|l| matches!(l, MLine::Dir(_))) {
        ch.tag("directive");
    }
    ch.steps(lines.len() as u64 * 3);
    match gff3::pick(r.violations) {
        Some(v) => Err(v),
        None => Ok(()),
    }
}

// ------------------------------------------------------------------------------------------------
// GTF
// ------------------------------------------------------------------------------------------------

const GTF_FIELDS: [&str; 6] = ["seqid", "source", "type", "attr-key", "attr-value", "attr-value-multi"];

const GTF_TROUBLE: [&[u8]; 24] = [
    b"%25", b"%", b";=", b",", b"&", b">x", b"x ", b" ", b"", b"\xc3\xa9", b"a=b", b"a;b", b".", b"\x7f", b"\x01", b"a\"b", b"a\\b", b"\"", b"\\", b"a\\\"b", b"; ", b"x#y", b"\\n", b"a\"; b \"c",
];

/// The domain of the statement for GTF: plain columns free of tab and line terminators; a key is a
/// non-empty token without ASCII white space; a leading '#' in column 1 makes the line a comment.
fn gtf_in_domain(x: &GRec) -> bool {
    let delim_free = |v: &B| !v.iter().any(|c| matches!(c, b'\t' | b'\n' | b'\r'));
    delim_free(&x.seqid)
        && delim_free(&x.source)
        && delim_free(&x.ty)
        && x.seqid.first() != Some(&b'#')
        && x.attrs.iter().all(|(k, vals)| !k.is_empty() && !k.iter().any(|c| c.is_ascii_whitespace()) && vals.iter().all(delim_free))
}

fn gtf_probe(field: usize, v: B) -> GRec {
    let mut x = GRec::plain();
    let id = (b"gene_id".to_vec(), vec![b"g1".to_vec()]);
    let tail = (b"transcript_id".to_vec(), vec![b"t1".to_vec()]);
    match field {
        0 => x.seqid = v,
        1 => x.source = v,
        2 => x.ty = v,
        3 => x.attrs = vec![id, (v, vec![b"v".to_vec()]), tail],
        4 => x.attrs = vec![id, (b"note".to_vec(), vec![v]), tail],
        _ => x.attrs = vec![id, (b"tag".to_vec(), vec![b"z".to_vec(), v, b"y".to_vec()]), tail],
    }
    x
}

fn gtf_single(x: GRec, c: &Counts) -> Outcome {
    if !gtf_in_domain(&x) {
        c.excluded.fetch_add(1, Relaxed);
        return Ok(());
    }
    let r = gtf::check_attributed(&[TLine::Rec(x)], false);
    if r.rejected {
        c.rejected.fetch_add(1, Relaxed);
    } else {
        c.accepted.fetch_add(1, Relaxed);
        if r.written.as_ref().map(|w| w.contains(&b'\\')).unwrap_or(false) {
            c.escaped.fetch_add(1, Relaxed);
        }
    }
    match gtf::pick(r.violations) {
        Some(v) => Err(v),
        None => Ok(()),
    }
}

fn gtf_bases() -> Vec<GRec> {
    let s = |x: &str| x.as_bytes().to_vec();
    let mut exon = GRec::plain();
    exon.ty = s("exon");
    exon.start = 10;
    exon.end = 20;
    exon.strand = 1;
    exon.attrs = vec![(s("gene_id"), vec![s("g0")]), (s("transcript_id"), vec![s("t0")])];
    let mut cds = GRec::plain();
    cds.ty = s("CDS");
    cds.start = 11;
    cds.end = 19;
    cds.score = Some(0.5);
    cds.strand = 2;
    cds.phase = Some(0);
    cds.attrs = vec![(s("gene_id"), vec![s("g0")]), (s("transcript_id"), vec![s("t0")]), (s("tag"), vec![s("basic"), s("CCDS"), s("x y")]), (s("exon_number"), vec![s("1")])];
    vec![GRec::plain(), exon, cds]
}

fn gtf_grammar(ch: &Chooser) -> Outcome {
    let bases = gtf_bases();
    let mut x = ch.pick_free("base", &bases).clone();
    let keys: Vec<&[u8]> = GTF_TROUBLE.iter().copied().filter(|k| !k.is_empty() && !k.iter().any(|c| c.is_ascii_whitespace())).collect();
    let seqids: Vec<&[u8]> = GTF_TROUBLE.iter().copied().filter(|k| k.first() != Some(&b'#')).collect();
    let mut types: Vec<&[u8]> = GTF_TROUBLE.to_vec();
    types.push(b"CDS");
    deviate(ch, &mut x, &GTF_TROUBLE, &keys, &seqids, &types);
    if !gtf_in_domain(&x) {
        vmc::machinery("gtf_grammar generated a record outside the domain");
    }
    let ctx = ch.dev("context", 5);
    let use_write_line = ch.dev("write_line", 2) == 1;
    let mut other = GRec::plain();
    other.seqid = b"sq1".to_vec();
    other.attrs = vec![(b"gene_id".to_vec(), vec![b"o".to_vec()]), (b"tag".to_vec(), vec![b"p".to_vec(), b"q".to_vec()])];
    let lines = match ctx {
        0 => vec![TLine::Rec(x)],
        1 => vec![TLine::Comment(b" a comment".to_vec()), TLine::Rec(x)],
        2 => vec![TLine::Rec(x), TLine::Rec(other)],
        3 => vec![TLine::Rec(other), TLine::Rec(x)],
        _ => vec![TLine::Rec(other.clone()), TLine::Rec(x), TLine::Comment(b"#".to_vec()), TLine::Rec(other)],
    };
    ch.desc(|| gtf::describe(&lines));
    let r = gtf::check_attributed(&lines, use_write_line);
    match &r.written {
        Some(w) => {
            ch.obs(w);
            ch.tag("writer-accepted");
            if w.contains(&b'\\') {
                ch.tag("backslash-escape-written");
            }
        }
        None => {
            ch.obs(b"rejected");
            ch.tag("writer-rejected");
        }
    }
    ch.steps(lines.len() as u64 * 3);
    match gtf::pick(r.violations) {
        Some(v) => Err(v),
        None => Ok(()),
    }
}

// ------------------------------------------------------------------------------------------------
// BED
// ------------------------------------------------------------------------------------------------

const BED_FIELDS: [&str; 5] = ["chrom", "name", "other-string", "other-string-last", "other-char"];

fn bed_probe(n: usize, field: usize, v: B) -> Option<BRec> {
    let mut x = BRec::plain(n);
    match field {
        0 => x.chrom = v,
        1 => {
            if n < 4 {
                return None;
            }
            x.name = Some(v)
        }
        2 => x.others = vec![BVal::S(v), BVal::S(b"z".to_vec())],
        3 => x.others = vec![BVal::I(7), BVal::S(v)],
        _ => {
            if v.len() != 1 {
                return None;
            }
            x.others = vec![BVal::C(v[0]), BVal::U(9)]
        }
    }
    Some(x)
}

fn first_violation(v: Vec<vmc::Violation>) -> Outcome {
    match v.into_iter().next() {
        Some(v) => Err(v),
        None => Ok(()),
    }
}

fn bed_single(x: BRec, c: &Counts) -> Outcome {
    // plain columns with tab or line terminators are outside the statement (the writer refuses them anyway)
    let r = bed::check_file(&[x.clone()]);
    if r.rejected {
        c.rejected.fetch_add(1, Relaxed);
        if bed::spec_accepts(&x) {
            c.excluded.fetch_add(1, Relaxed);
        }
    } else {
        c.accepted.fetch_add(1, Relaxed);
    }
    first_violation(r.violations)
}

fn bed_other_alphabet() -> Vec<BVal> {
    let s = |x: &str| BVal::S(x.as_bytes().to_vec());
    vec![
        s("x"),
        s(""),
        s("a b"),
        s(" "),
        s("."),
        s("#"),
        s("0,10,20,"),
        BVal::I(-5),
        BVal::I(i64::MIN),
        BVal::U(u64::MAX),
        BVal::F(0.5),
        BVal::F(1e300),
        BVal::F(-0.0),
        BVal::C(b'x'),
        BVal::C(b' '),
        BVal::C(b'~'),
    ]
}

fn bed_grammar(ch: &Chooser) -> Outcome {
    let n = 3 + ch.free("n", 4);
    let nrec = 1 + ch.free("records", 3);
    let long = vec![b'a'; 255];
    let chroms: [&[u8]; 7] = [b"chr_1", b"1", &long, b"", b"a b", b"chr-1", b"_"];
    let longn = vec![b'~'; 255];
    let names: [Option<&[u8]>; 11] = [None, Some(b"."), Some(b" "), Some(b"a b"), Some(b"~"), Some(b"#x"), Some(&longn), Some(b""), Some(b"\xc3\xa9"), Some(b"x "), Some(b"..")];
    let others = bed_other_alphabet();
    let mut recs = Vec::new();
    for _ in 0..nrec {
        let mut x = BRec::plain(n);
        x.chrom = pick_text(ch, "chrom", &x.chrom.clone(), &chroms);
        let k = ch.dev("start", POSITIONS.len());
        x.start = POSITIONS[k];
        let ends = [Some(1), None, Some(2), Some(1000), Some(usize::MAX)];
        x.end = ends[ch.dev("end", ends.len())];
        if n >= 4 {
            let k = ch.dev("name", names.len() + 1);
            if k > 0 {
                x.name = names[k - 1].map(|v| v.to_vec());
            }
        }
        if n >= 5 {
            x.score = [0u16, 1, 1000, 1001, 65535][ch.dev("score", 5)];
        }
        if n >= 6 {
            x.strand = [None, Some(true), Some(false)][ch.dev("strand", 3)];
        }
        let k = ch.dev("n_others", 10);
        for i in 0..k {
            let j = ch.dev("other", others.len());
            // defaults differ per position so that a stale bound is visible
            let v = if j == 0 { BVal::S(format!("o{i}").into_bytes()) } else { others[j].clone() };
            x.others.push(v);
        }
        recs.push(x);
    }
    ch.desc(|| recs.iter().map(bed::literal).collect::<Vec<_>>().join("; "));
    let r = bed::check_file(&recs);
    match &r.written {
        Some(w) => {
            ch.obs(w);
            ch.tag("writer-accepted");
            if recs.iter().any(|x| x.n + x.others.len() == 12) {
                ch.tag("bed12");
            }
        }
        None => {
            ch.obs(b"rejected");
            ch.tag("writer-rejected");
            if recs.iter().all(bed::spec_accepts) {
                ch.tag("writer-rejected-a-spec-valid-record");
            }
        }
    }
    ch.steps(recs.len() as u64 * 2);
    first_violation(r.violations)
}

fn main() {
    vmc::run("C18", "model_checking", |ctx| {
        let quick = ctx.quick();
        let k = ctx.by_tier(2, 3);
        ctx.rule(
            "E3 *_bytes: every field (GFF3: seqid, source, type, attribute tag, string value, first/last array element; GTF: seqid, source, type, key, value, \
             value of a multi-valued key; BED3..6: chrom, name, string other field first/last, character other field) x every byte 0x01..=0xff x {alone, between two letters, leading, trailing}; \
             *_pairs: every ordered pair of the named troublemakers x 3 placements per field. \
             E1 *_grammar: every record within k field deviations (k=2 quick, 3 thorough) of three base records over the troublemaker alphabet per text field, boundary positions, 11 scores, \
             all strands and phases, 0..3 attributes x 1..3 values, one-element array vs string, 5-6 file contexts, write_record vs write_line; gff3_lines: every sequence of <=3 lines over 19 \
             record/directive/comment lines; bed_grammar: N in 3..=6 x 1..3 records x k deviations incl. 0..9 other fields of every value type. \
             *_reuse: every ordered pair and triple of a presence-spanning line/record set per format read through every reader API (one reused Line/Record clean and pre-dirtied, fresh per read, lines()/line_bufs()/record_bufs()); \
             *_writer_seq: every sequence of <=3 writes on one writer over accepted records and one item per refusal reason, the output must be exactly the accepted lines. \
             foreign_layouts: every writer-produced document of 1-2 lines (thorough: 3) of the presence-spanning sets re-rendered with one deviation (thorough: all pairs) - CRLF all/one line, no final terminator, white space after the last terminator, empty / white-space-only lines and runs before, between and after, comments, directives, ###, ##FASTA, BED track/browser lines, GTF trailing space - and read through every reader API and buffer mode; rejected layouts are counted, parsed ones must give the canonical records. \
             distinct = distinct written files (observation logs) for E1, accepted (field, shape, byte) cases for E3. \
             Domain (statement): GTF/BED plain columns free of tab/LF/CR; a GTF key is a non-empty token without ASCII white space; GTF column 1 does not start with '#'; \
             records the writer refuses (CDS without phase, GTF strand '?', BED non-printable/empty fields) are counted, not judged.",
        );
        ctx.assume("Rust's str::parse::<f32>() is a correct decimal-to-float conversion (used to read back written scores independently of lexical-core)");

        // ---- GFF3 sweeps ----
        let c = Counts::default();
        let n = (GFF_FIELDS.len() * SHAPES.len() * 255) as u64;
        let dec = |i: u64| {
            let i = i as usize;
            (i / (SHAPES.len() * 255), (i / 255) % SHAPES.len(), (i % 255 + 1) as u8)
        };
        ctx.sweep(
            "gff3_bytes",
            n,
            |i| {
                let (f, s, b) = dec(i);
                format!("field={} shape={} byte=0x{b:02x}", GFF_FIELDS[f], SHAPES[s])
            },
            |i| {
                let (f, s, b) = dec(i);
                gff_single(gff_probe(f, shape(&[b], s)), &c)
            },
        );
        let gff_bytes_accepted = c.accepted.load(Relaxed);
        let t = TROUBLE.len();
        let n = (GFF_FIELDS.len() * t * t * 3) as u64;
        let decp = |i: u64| {
            let i = i as usize;
            (i / (t * t * 3), (i / (t * 3)) % t, (i / 3) % t, i % 3)
        };
        let place = |a: &[u8], b: &[u8], p: usize| -> B {
            let mut v = Vec::new();
            match p {
                0 => {
                    v.extend_from_slice(a);
                    v.extend_from_slice(b);
                }
                1 => {
                    v.push(b'a');
                    v.extend_from_slice(a);
                    v.extend_from_slice(b);
                    v.push(b'b');
                }
                _ => {
                    v.extend_from_slice(a);
                    v.push(b'a');
                    v.extend_from_slice(b);
                }
            }
            v
        };
        ctx.sweep(
            "gff3_pairs",
            n,
            |i| {
                let (f, a, b, p) = decp(i);
                format!("field={} value={}", GFF_FIELDS[f], model::lit(&place(TROUBLE[a], TROUBLE[b], p)))
            },
            |i| {
                let (f, a, b, p) = decp(i);
                gff_single(gff_probe(f, place(TROUBLE[a], TROUBLE[b], p)), &c)
            },
        );
        let gff_accepted = c.accepted.load(Relaxed);
        ctx.add_distinct(gff_accepted, gff_accepted);
        let gff_counts = json!({"accepted": gff_accepted, "accepted_in_gff3_bytes": gff_bytes_accepted, "rejected_by_writer": c.rejected.load(Relaxed), "written_with_percent_escape": c.escaped.load(Relaxed)});
        if c.escaped.load(Relaxed) == 0 {
            vmc::machinery("C18 vacuity: no percent escape was ever written");
        }

        // ---- GFF3 grammar and line sequences ----
        ctx.harness(Config::new(format!("gff3_grammar_k{k}"), k), gff_grammar);
        let depth = if quick { 3 } else { 4 };
        ctx.harness(Config::new(format!("gff3_lines_d{depth}"), 0), |ch| gff_lines(ch, depth));

        // ---- GTF ----
        let c = Counts::default();
        let n = (GTF_FIELDS.len() * SHAPES.len() * 255) as u64;
        ctx.sweep(
            "gtf_bytes",
            n,
            |i| {
                let (f, s, b) = dec(i);
                format!("field={} shape={} byte=0x{b:02x}", GTF_FIELDS[f], SHAPES[s])
            },
            |i| {
                let (f, s, b) = dec(i);
                gtf_single(gtf_probe(f, shape(&[b], s)), &c)
            },
        );
        let t = GTF_TROUBLE.len();
        let n = (GTF_FIELDS.len() * t * t * 3) as u64;
        let decp = |i: u64| {
            let i = i as usize;
            (i / (t * t * 3), (i / (t * 3)) % t, (i / 3) % t, i % 3)
        };
        ctx.sweep(
            "gtf_pairs",
            n,
            |i| {
                let (f, a, b, p) = decp(i);
                format!("field={} value={}", GTF_FIELDS[f], model::lit(&place(GTF_TROUBLE[a], GTF_TROUBLE[b], p)))
            },
            |i| {
                let (f, a, b, p) = decp(i);
                gtf_single(gtf_probe(f, place(GTF_TROUBLE[a], GTF_TROUBLE[b], p)), &c)
            },
        );
        let gtf_accepted = c.accepted.load(Relaxed);
        ctx.add_distinct(gtf_accepted, gtf_accepted);
        let gtf_counts = json!({"accepted": gtf_accepted, "rejected_by_writer": c.rejected.load(Relaxed), "outside_the_domain(skipped)": c.excluded.load(Relaxed), "written_with_backslash_escape": c.escaped.load(Relaxed)});
        if c.escaped.load(Relaxed) == 0 {
            vmc::machinery("C18 vacuity: no backslash escape was ever written");
        }
        ctx.harness(Config::new(format!("gtf_grammar_k{k}"), k), gtf_grammar);

        // ---- BED ----
        let c = Counts::default();
        let n = (4 * BED_FIELDS.len() * SHAPES.len() * 255) as u64;
        let decb = |i: u64| {
            let i = i as usize;
            let per_n = BED_FIELDS.len() * SHAPES.len() * 255;
            (3 + i / per_n, (i % per_n) / (SHAPES.len() * 255), (i / 255) % SHAPES.len(), (i % 255 + 1) as u8)
        };
        ctx.sweep(
            "bed_bytes",
            n,
            |i| {
                let (n, f, s, b) = decb(i);
                format!("BED{n} field={} shape={} byte=0x{b:02x}", BED_FIELDS[f], SHAPES[s])
            },
            |i| {
                let (n, f, s, b) = decb(i);
                match bed_probe(n, f, shape(&[b], s)) {
                    Some(x) => bed_single(x, &c),
                    None => Ok(()),
                }
            },
        );
        let bed_accepted = c.accepted.load(Relaxed);
        ctx.add_distinct(bed_accepted, bed_accepted);
        let bed_counts = json!({"accepted": bed_accepted, "rejected_by_writer": c.rejected.load(Relaxed), "rejected_although_spec_valid": c.excluded.load(Relaxed)});
        if bed_accepted == 0 {
            vmc::machinery("C18 vacuity: the BED writer accepted nothing");
        }
        ctx.harness(Config::new(format!("bed_grammar_k{k}"), k), bed_grammar);

        // ---- G1: state in reused lines / records; G2: writer state after a refused record ----
        let tuples = |n: usize| -> Vec<Vec<usize>> {
            let mut v = Vec::new();
            for a in 0..n {
                for b in 0..n {
                    v.push(vec![a, b]);
                    for c in 0..n {
                        v.push(vec![a, b, c]);
                    }
                }
            }
            v
        };
        let to_outcome = |v: Option<vmc::Violation>| -> Outcome {
            match v {
                Some(v) => Err(v),
                None => Ok(()),
            }
        };
        let gset = seq::gff3_set();
        let gt = tuples(gset.len());
        ctx.sweep("gff3_reuse", gt.len() as u64, |i| format!("lines {:?} of the presence-spanning set", gt[i as usize]), |i| {
            let lines: Vec<MLine> = gt[i as usize].iter().map(|&k| gset[k].clone()).collect();
            to_outcome(seq::gff3_reuse(&lines))
        });
        let tset = seq::gtf_set();
        let tt = tuples(tset.len());
        ctx.sweep("gtf_reuse", tt.len() as u64, |i| format!("lines {:?} of the presence-spanning set", tt[i as usize]), |i| {
            let lines: Vec<TLine> = tt[i as usize].iter().map(|&k| tset[k].clone()).collect();
            to_outcome(seq::gtf_reuse(&lines))
        });
        let bt = tuples(7);
        let nb = (4 * bt.len() * 3) as u64;
        let decr = |i: u64| {
            let i = i as usize;
            (3 + i / (bt.len() * 3), &bt[(i / 3) % bt.len()], (i % 3) as u8)
        };
        ctx.sweep(
            "bed_reuse",
            nb,
            |i| {
                let (n, t, m) = decr(i);
                format!("BED{n} records {t:?} of the presence-spanning set, read mode {}", bed::READ_MODES[m as usize])
            },
            |i| {
                let (n, t, m) = decr(i);
                let set = bed::reuse_set(n);
                let recs: Vec<BRec> = t.iter().map(|&k| set[k].clone()).collect();
                let mut r = bed::check_file_mode(&recs, m);
                for v in r.violations.iter_mut() {
                    v.fingerprint = v.fingerprint.replace("stage=read", "stage=reuse");
                }
                first_violation(r.violations)
            },
        );
        ctx.add_distinct((gt.len() + tt.len() + 4 * bt.len()) as u64, (gt.len() * 6 + tt.len() * 6 + 4 * bt.len() * 3) as u64);

        let gw = seq::gff3_witems();
        let gs = seq::sequences(gw.len());
        ctx.sweep("gff3_writer_seq", gs.len() as u64, |i| format!("items {:?}", gs[i as usize]), |i| {
            let items: Vec<seq::WItem> = gs[i as usize].iter().map(|&k| gw[k].clone()).collect();
            to_outcome(seq::gff3_writer_seq(&items))
        });
        let tw = seq::gtf_witems();
        let ts = seq::sequences(tw.len());
        ctx.sweep("gtf_writer_seq", ts.len() as u64, |i| format!("items {:?}", ts[i as usize]), |i| {
            let items: Vec<seq::WItem> = ts[i as usize].iter().map(|&k| tw[k].clone()).collect();
            to_outcome(seq::gtf_writer_seq(&items))
        });
        let bs = seq::sequences(9);
        ctx.sweep(
            "bed_writer_seq",
            (4 * bs.len()) as u64,
            |i| format!("BED{} items {:?}", 3 + i as usize / bs.len(), bs[i as usize % bs.len()]),
            |i| {
                let n = 3 + i as usize / bs.len();
                let w = bed::witems(n);
                let items: Vec<bed::WItem> = bs[i as usize % bs.len()].iter().map(|&k| w[k].clone()).collect();
                to_outcome(bed::judge_seq(n, &items))
            },
        );
        ctx.add_distinct((gs.len() + ts.len() + 4 * bs.len()) as u64, (gs.len() + ts.len() + 4 * bs.len()) as u64);

        // ---- foreign but legal line layouts (readers) ----
        let fstats = foreign::Stats::default();
        {
            use foreign::Fmt;
            // canonical documents: writer output for every single line and ordered pair (thorough: triples) of the presence-spanning sets
            let idx = |n: usize| -> Vec<Vec<usize>> {
                let mut v: Vec<Vec<usize>> = (0..n).map(|a| vec![a]).collect();
                for a in 0..n {
                    for b in 0..n {
                        v.push(vec![a, b]);
                        if !quick {
                            for c in 0..n {
                                v.push(vec![a, b, c]);
                            }
                        }
                    }
                }
                v
            };
            let mut docs: Vec<(Fmt, Vec<u8>, String)> = Vec::new();
            let gset = seq::gff3_set();
            for t in idx(gset.len()) {
                let lines: Vec<MLine> = t.iter().map(|&k| gset[k].clone()).collect();
                let mut w = noodles_gff::io::Writer::new(Vec::new());
                for l in &lines {
                    match l {
                        MLine::Rec(r) => w.write_record(&gff3::to_noodles(r)),
                        MLine::Dir(d) => w.write_directive(&d.to_noodles()),
                        MLine::Comment(c) => w.write_line(&noodles_gff::LineBuf::Comment(c.clone().into())),
                    }
                    .expect("set lines are accepted");
                }
                docs.push((Fmt::Gff3, w.into_inner(), format!("gff3 set lines {t:?}")));
            }
            let tset = seq::gtf_set();
            for t in idx(tset.len()) {
                let mut w = noodles_gtf::io::Writer::new(Vec::new());
                for &k in &t {
                    match &tset[k] {
                        TLine::Rec(r) => w.write_record(&gff3::to_noodles(r)),
                        TLine::Comment(c) => w.write_line(&noodles_gtf::LineBuf::Comment(c.clone().into())),
                    }
                    .expect("set lines are accepted");
                }
                docs.push((Fmt::Gtf, w.into_inner(), format!("gtf set lines {t:?}")));
            }
            for n in 3..=6 {
                let set = bed::reuse_set(n);
                for t in idx(set.len()) {
                    let items: Vec<bed::WItem> = t.iter().map(|&k| bed::WItem::Rec(set[k].clone(), None)).collect();
                    docs.push((Fmt::Bed(n), bed::writer_seq(n, &items).bytes, format!("BED{n} set records {t:?}")));
                }
            }
            // cases: (document, deviation) in quick, plus all pairs of deviations in thorough for the 1- and 2-line documents
            let mut cases: Vec<(usize, usize, Option<usize>)> = Vec::new();
            let mut devs_of: Vec<Vec<foreign::Dev>> = Vec::new();
            for (di, (fmt, canon, _)) in docs.iter().enumerate() {
                let body: Vec<Vec<u8>> = canon.split_inclusive(|&c| c == b'\n').map(|l| l.strip_suffix(b"\n").unwrap_or(l).to_vec()).collect();
                let ds = foreign::devs(*fmt, &body);
                for a in 0..ds.len() {
                    cases.push((di, a, None));
                    if !quick && body.len() <= 2 {
                        for b in a + 1..ds.len() {
                            cases.push((di, a, Some(b)));
                        }
                    }
                }
                devs_of.push(ds);
            }
            ctx.sweep(
                "foreign_layouts",
                cases.len() as u64,
                |i| {
                    let (di, a, b) = cases[i as usize];
                    format!("{} deviation {:?} {:?}", docs[di].2, devs_of[di][a], b.map(|b| &devs_of[di][b]))
                },
                |i| {
                    let (di, a, b) = cases[i as usize];
                    let (fmt, canon, decoded) = &docs[di];
                    let mut ds = vec![&devs_of[di][a]];
                    if let Some(b) = b {
                        ds.push(&devs_of[di][b]);
                    }
                    match foreign::check(*fmt, canon, &ds, decoded, &fstats) {
                        Some(v) => Err(v),
                        None => Ok(()),
                    }
                },
            );
            ctx.add_distinct(cases.len() as u64, fstats.reads.load(Relaxed) / 2);
            if fstats.parsed.load(Relaxed) == 0 || fstats.rejected.load(Relaxed) == 0 {
                vmc::machinery("C18 vacuity: foreign_layouts never parsed / never saw a rejected layout");
            }
        }

        ctx.extra("c18_counters", json!({"foreign_layouts": {"perturbed_reads_that_parsed": fstats.parsed.load(Relaxed), "rejected_by_the_reader(non-judged)": fstats.rejected.load(Relaxed), "panicked(non-judged here)": fstats.panicked.load(Relaxed)}, "gff3_sweeps": gff_counts, "gtf_sweeps": gtf_counts, "bed_sweeps": bed_counts}));
    });
}
