//! G1 — state in reused lines / records: files whose consecutive lines differ in presence and length
//! of every optional part, read through every reader API (one reused `Line` clean / pre-dirtied, a
//! fresh `Line` per read, `lines()`, `line_bufs()`, `record_bufs()`).
//! G2 — writer state after a refused record: every sequence of <= 3 writes on one writer over
//! accepted records and one item per refusal reason; the finished output must parse (harness
//! parsers) to exactly the accepted items, in order.

use noodles_gff::{self as gff, feature::RecordBuf};
use noodles_gtf as gtf;
use vmc::Violation;

use crate::{
    gff3::{self, LazyLine, MDir, MLine},
    gtf::TLine,
    model::{B, GRec, gdiff, grec_literal, lit},
};

fn s(x: &str) -> B {
    x.as_bytes().to_vec()
}

/// Presence-spanning GFF3 lines: attributes many / none, score and phase present / missing, long and
/// short columns, a directive and a comment.
pub fn gff3_set() -> Vec<MLine> {
    let plain = GRec::plain();
    let mut long = GRec::plain();
    long.seqid = s("a_much_longer_sequence_identifier_0123456789");
    long.source = s("a_long_source_name");
    long.ty = s("CDS");
    long.start = 123456789;
    long.end = 987654321;
    long.score = Some(0.000123);
    long.strand = 2;
    long.phase = Some(2);
    long.attrs = vec![
        (s("ID"), vec![s("cds00001")]),
        (s("Parent"), vec![s("mRNA00001"), s("mRNA00002"), s("mRNA00003")]),
        (s("Note"), vec![s("a long note; with = reserved, characters & more")]),
        (s("Dbxref"), vec![s("a:1"), s("b:2")]),
    ];
    let mut short = GRec::plain();
    short.seqid = s("1");
    short.source = s("s");
    short.ty = s("t");
    short.score = Some(1.0);
    let mut attrs_only = GRec::plain();
    attrs_only.attrs = vec![(s("ID"), vec![s("g")]), (s("Name"), vec![s("n")]), (s("Alias"), vec![s("a"), s("b")])];
    let mut phase_only = GRec::plain();
    phase_only.phase = Some(0);
    phase_only.strand = 1;
    phase_only.attrs = vec![(s("ID"), vec![s("x")])];
    let mut dots = GRec::plain();
    dots.seqid = s(".");
    dots.source = s(".");
    dots.ty = s(".");
    dots.strand = 3;
    vec![
        MLine::Rec(plain),
        MLine::Rec(long),
        MLine::Rec(short),
        MLine::Rec(attrs_only),
        MLine::Rec(phase_only),
        MLine::Rec(dots),
        MLine::Dir(MDir::SeqRegion(s("a_much_longer_sequence_identifier_0123456789"), 1, 987654321)),
        MLine::Dir(MDir::Other(s("#"), None)),
        MLine::Comment(s(" a comment line that is longer than the short records")),
    ]
}

pub fn gtf_set() -> Vec<TLine> {
    let plain = GRec::plain();
    let mut long = GRec::plain();
    long.seqid = s("a_much_longer_sequence_identifier_0123456789");
    long.source = s("a_long_source_name");
    long.ty = s("CDS");
    long.start = 123456789;
    long.end = 987654321;
    long.score = Some(0.000123);
    long.strand = 2;
    long.phase = Some(2);
    long.attrs = vec![
        (s("gene_id"), vec![s("gene00001")]),
        (s("transcript_id"), vec![s("transcript00001")]),
        (s("tag"), vec![s("basic"), s("CCDS"), s("with a \\ backslash")]),
        (s("note"), vec![s("a long note; with a semicolon")]),
    ];
    let mut short = GRec::plain();
    short.seqid = s("1");
    short.source = s("s");
    short.ty = s("t");
    short.score = Some(1.0);
    let mut attrs_only = GRec::plain();
    attrs_only.attrs = vec![(s("gene_id"), vec![s("g")]), (s("transcript_id"), vec![s("t")]), (s("tag"), vec![s("a"), s("b")])];
    let mut phase_only = GRec::plain();
    phase_only.phase = Some(0);
    phase_only.strand = 1;
    phase_only.attrs = vec![(s("gene_id"), vec![s("x")])];
    let mut dots = GRec::plain();
    dots.seqid = s(".");
    dots.source = s(".");
    dots.ty = s(".");
    vec![
        TLine::Rec(plain),
        TLine::Rec(long),
        TLine::Rec(short),
        TLine::Rec(attrs_only),
        TLine::Rec(phase_only),
        TLine::Rec(dots),
        TLine::Comment(s(" a comment line that is longer than the short records")),
    ]
}

/// How the failing field changed from the previous record to this one.
fn transition(prev: Option<&GRec>, cur: &GRec, field: &str) -> &'static str {
    let size = |r: &GRec| -> usize {
        match field {
            f if f.starts_with("attr") => r.attrs.iter().map(|(t, v)| t.len() + v.iter().map(|e| e.len() + 1).sum::<usize>()).sum(),
            "score" => r.score.is_some() as usize,
            "phase" => r.phase.is_some() as usize,
            "strand" => (r.strand != 0) as usize,
            "start" => r.start.to_string().len(),
            "end" => r.end.to_string().len(),
            "type" => r.ty.len(),
            "source" => r.source.len(),
            _ => r.seqid.len(),
        }
    };
    let Some(p) = prev else { return "first" };
    let (a, b) = (size(p), size(cur));
    if a > 0 && b == 0 {
        "present-to-absent"
    } else if a == 0 && b > 0 {
        "absent-to-present"
    } else if a > b {
        "longer-to-shorter"
    } else if a < b {
        "shorter-to-longer"
    } else {
        "same-size"
    }
}

const DIRTY_GFF: &[u8] = b"dirty_unrelated_and_very_long_sequence_id\tdirty_source\tdirty_type\t111111111\t999999999\t12345.678\t-\t1\tID=dirty;Parent=d1,d2,d3;Note=dirty note that is longer than anything else in the files\n";
const DIRTY_GTF: &[u8] = b"dirty_unrelated_and_very_long_sequence_id\tdirty_source\tdirty_type\t111111111\t999999999\t12345.678\t-\t1\tgene_id \"dirty\"; transcript_id \"dirty\"; tag \"d1\"; tag \"d2\"; note \"dirty note that is longer than anything else in the files\";\n";

#[derive(Debug)]
enum Got {
    Rec(GRec, Option<Result<GRec, String>>),
    Dir(B, Option<B>),
    Comment,
}

fn cmp_lines(fmt: &str, mode: &str, got: &[Result<Got, String>], want: &[(Option<&GRec>, Option<(B, Option<B>)>)], decoded: &str, bytes: &[u8], prev_of_first: Option<&GRec>) -> Option<Violation> {
    let ctx = format!("{decoded}; read mode {mode}; file = {}", lit(bytes));
    if got.len() != want.len() {
        return Some(Violation::new(
            format!("fmt={fmt} stage=reuse mode={mode} field=line-count symptom=value-differs"),
            ctx,
            format!("{} lines", want.len()),
            format!("{} lines: {got:?}", got.len()),
        ));
    }
    let mut prev: Option<&GRec> = prev_of_first;
    for (i, (g, w)) in got.iter().zip(want).enumerate() {
        match (g, w) {
            (Err(e), _) => {
                return Some(Violation::new(
                    format!("fmt={fmt} stage=reuse mode={mode} field=line symptom=error"),
                    ctx,
                    format!("line {i} readable"),
                    format!("Err({e})"),
                ));
            }
            (Ok(Got::Rec(lazy, built)), (Some(x), _)) => {
                if let Some((field, _)) = gdiff(x, lazy) {
                    return Some(Violation::new(
                        format!("fmt={fmt} stage=reuse mode={mode} field={field} transition={} symptom=value-differs", transition(prev, x, field)),
                        ctx,
                        format!("line {i} = {}", grec_literal(x)),
                        grec_literal(lazy),
                    ));
                }
                match built {
                    None => {}
                    Some(Ok(b)) => {
                        if let Some((field, _)) = gdiff(lazy, b) {
                            return Some(Violation::new(
                                format!("fmt={fmt} stage=reuse mode={mode} path=lazy-vs-owned field={field} transition={} symptom=value-differs", transition(prev, x, field)),
                                ctx,
                                format!("lazy view: {}", grec_literal(lazy)),
                                format!("RecordBuf::try_from_feature_record: {}", grec_literal(b)),
                            ));
                        }
                    }
                    Some(Err(e)) => {
                        return Some(Violation::new(
                            format!("fmt={fmt} stage=reuse mode={mode} path=lazy-vs-owned field=record symptom=error"),
                            ctx,
                            format!("lazy view: {}", grec_literal(lazy)),
                            format!("Err({e})"),
                        ));
                    }
                }
                prev = Some(x);
            }
            (Ok(Got::Dir(k, v)), (None, Some((wk, wv)))) => {
                if k != wk || v != wv {
                    return Some(Violation::new(
                        format!("fmt={fmt} stage=reuse mode={mode} field=directive symptom=value-differs"),
                        ctx,
                        format!("line {i}: key {} value {:?}", lit(wk), wv.as_deref().map(lit)),
                        format!("key {} value {:?}", lit(k), v.as_deref().map(lit)),
                    ));
                }
            }
            (Ok(Got::Comment), (None, None)) => {}
            (g, w) => {
                return Some(Violation::new(
                    format!("fmt={fmt} stage=reuse mode={mode} field=line-kind symptom=value-differs"),
                    ctx,
                    format!("line {i}: {w:?}"),
                    format!("{g:?}"),
                ));
            }
        }
    }
    None
}

pub fn gff3_reuse(lines: &[MLine]) -> Option<Violation> {
    let decoded = gff3::describe(lines);
    let mut w = gff::io::Writer::new(Vec::new());
    for l in lines {
        let res = match l {
            MLine::Rec(r) => w.write_record(&gff3::to_noodles(r)),
            MLine::Dir(d) => w.write_directive(&d.to_noodles()),
            MLine::Comment(c) => w.write_line(&gff::LineBuf::Comment(c.clone().into())),
        };
        if let Err(e) = res {
            return Some(Violation::new("fmt=gff3 stage=reuse-write symptom=error", decoded, "Ok", e.to_string()));
        }
    }
    let bytes = w.into_inner();
    let want: Vec<(Option<&GRec>, Option<(B, Option<B>)>)> = lines
        .iter()
        .map(|l| match l {
            MLine::Rec(x) => (Some(x), None),
            MLine::Dir(d) => (None, Some((d.key(), d.value_text()))),
            MLine::Comment(_) => (None, None),
        })
        .collect();
    let n = lines.len();
    let cap = bytes.len() + 1000;
    let from_line = |line: &gff::Line| -> Result<Got, String> {
        match gff3::lazy_line(line, cap)? {
            LazyLine::Rec { lazy, built } => Ok(Got::Rec(lazy, Some(built))),
            LazyLine::Dir { key, value } => Ok(Got::Dir(key, value)),
            LazyLine::Comment => Ok(Got::Comment),
        }
    };
    let dirty_rec = {
        let mut l = gff::Line::default();
        gff::io::Reader::new(DIRTY_GFF).read_line(&mut l).expect("dirty line");
        gff3::lazy_line(&l, 10_000).ok().and_then(|l| if let LazyLine::Rec { lazy, .. } = l { Some(lazy) } else { None })
    };
    for mode in ["reused-clean", "reused-dirty", "fresh", "iter-lines", "iter-line_bufs", "iter-record_bufs"] {
        let r = vmc::catch(|| {
            let mut rd = gff::io::Reader::new(&bytes[..]);
            let mut got: Vec<Result<Got, String>> = Vec::new();
            match mode {
                "iter-lines" => {
                    for item in rd.lines().take(n + 2) {
                        got.push(item.map_err(|e| e.to_string()).and_then(|l| from_line(&l)));
                    }
                }
                "iter-line_bufs" | "iter-record_bufs" => {
                    let conv = |lb: gff::LineBuf| match lb {
                        gff::LineBuf::Record(r) => Got::Rec(gff3::from_owned(&r), None),
                        gff::LineBuf::Directive(d) => Got::Dir(
                            d.key().to_vec(),
                            d.value().map(|v| match v {
                                gff::directive_buf::Value::String(s) => s.to_vec(),
                                other => format!("<typed {other:?}>").into_bytes(),
                            }),
                        ),
                        gff::LineBuf::Comment(_) => Got::Comment,
                    };
                    if mode == "iter-line_bufs" {
                        for item in rd.line_bufs().take(n + 2) {
                            got.push(item.map(conv).map_err(|e| e.to_string()));
                        }
                    } else {
                        for item in rd.record_bufs().take(n + 2) {
                            got.push(item.map(|r| Got::Rec(gff3::from_owned(&r), None)).map_err(|e| e.to_string()));
                        }
                    }
                }
                _ => {
                    let mk = || {
                        let mut l = gff::Line::default();
                        if mode == "reused-dirty" {
                            gff::io::Reader::new(DIRTY_GFF).read_line(&mut l).expect("dirty line");
                        }
                        l
                    };
                    let mut line = mk();
                    for _ in 0..n + 2 {
                        if mode == "fresh" {
                            line = mk();
                        }
                        match rd.read_line(&mut line) {
                            Ok(0) => break,
                            Ok(_) => got.push(from_line(&line)),
                            Err(e) => {
                                got.push(Err(e.to_string()));
                                break;
                            }
                        }
                    }
                }
            }
            got
        });
        let got = match r {
            Ok(g) => g,
            Err((msg, file)) => {
                return Some(Violation::new(
                    format!("fmt=gff3 stage=reuse mode={mode} field=line symptom=panic file={file}"),
                    format!("{decoded}; file = {}", lit(&bytes)),
                    "no panic",
                    format!("panic: {msg} in {file}"),
                ));
            }
        };
        let v = if mode == "iter-record_bufs" {
            // records only, up to a ##FASTA directive
            let w2: Vec<_> = want.iter().filter(|w| w.0.is_some()).cloned().collect();
            cmp_lines("gff3", mode, &got, &w2, &decoded, &bytes, None)
        } else {
            cmp_lines("gff3", mode, &got, &want, &decoded, &bytes, if mode == "reused-dirty" { dirty_rec.as_ref() } else { None })
        };
        if v.is_some() {
            return v;
        }
    }
    None
}

pub fn gtf_reuse(lines: &[TLine]) -> Option<Violation> {
    let decoded = crate::gtf::describe(lines);
    let mut w = gtf::io::Writer::new(Vec::new());
    for l in lines {
        let res = match l {
            TLine::Rec(r) => w.write_record(&gff3::to_noodles(r)),
            TLine::Comment(c) => w.write_line(&gtf::LineBuf::Comment(c.clone().into())),
        };
        if let Err(e) = res {
            return Some(Violation::new("fmt=gtf stage=reuse-write symptom=error", decoded, "Ok", e.to_string()));
        }
    }
    let bytes = w.into_inner();
    let want: Vec<(Option<&GRec>, Option<(B, Option<B>)>)> = lines
        .iter()
        .map(|l| match l {
            TLine::Rec(x) => (Some(x), None),
            TLine::Comment(_) => (None, None),
        })
        .collect();
    let n = lines.len();
    let cap = bytes.len() + 1000;
    let from_line = |line: &gtf::Line| -> Result<Got, String> {
        match line.kind() {
            gtf::line::Kind::Comment => Ok(Got::Comment),
            gtf::line::Kind::Record => {
                let rec = line.as_record().ok_or("as_record() is None")?.map_err(|e| e.to_string())?;
                let lazy = crate::gtf::from_lazy(&rec, cap)?;
                let built = RecordBuf::try_from_feature_record(&rec).map(|b| gff3::from_owned(&b)).map_err(|e| e.to_string());
                Ok(Got::Rec(lazy, Some(built)))
            }
        }
    };
    let dirty_rec = {
        let mut l = gtf::Line::default();
        gtf::io::Reader::new(DIRTY_GTF).read_line(&mut l).expect("dirty line");
        l.as_record().and_then(|r| r.ok()).and_then(|r| crate::gtf::from_lazy(&r, 10_000).ok())
    };
    for mode in ["reused-clean", "reused-dirty", "fresh", "iter-lines", "iter-line_bufs", "iter-record_bufs"] {
        let r = vmc::catch(|| {
            let mut rd = gtf::io::Reader::new(&bytes[..]);
            let mut got: Vec<Result<Got, String>> = Vec::new();
            match mode {
                "iter-lines" => {
                    for item in rd.lines().take(n + 2) {
                        got.push(item.map_err(|e| e.to_string()).and_then(|l| from_line(&l)));
                    }
                }
                "iter-line_bufs" => {
                    for item in rd.line_bufs().take(n + 2) {
                        got.push(
                            item.map(|lb| match lb {
                                gtf::LineBuf::Record(r) => Got::Rec(gff3::from_owned(&r), None),
                                gtf::LineBuf::Comment(_) => Got::Comment,
                            })
                            .map_err(|e| e.to_string()),
                        );
                    }
                }
                "iter-record_bufs" => {
                    for item in rd.record_bufs().take(n + 2) {
                        got.push(item.map(|r| Got::Rec(gff3::from_owned(&r), None)).map_err(|e| e.to_string()));
                    }
                }
                _ => {
                    let mk = || {
                        let mut l = gtf::Line::default();
                        if mode == "reused-dirty" {
                            gtf::io::Reader::new(DIRTY_GTF).read_line(&mut l).expect("dirty line");
                        }
                        l
                    };
                    let mut line = mk();
                    for _ in 0..n + 2 {
                        if mode == "fresh" {
                            line = mk();
                        }
                        match rd.read_line(&mut line) {
                            Ok(0) => break,
                            Ok(_) => got.push(from_line(&line)),
                            Err(e) => {
                                got.push(Err(e.to_string()));
                                break;
                            }
                        }
                    }
                }
            }
            got
        });
        let got = match r {
            Ok(g) => g,
            Err((msg, file)) => {
                return Some(Violation::new(
                    format!("fmt=gtf stage=reuse mode={mode} field=line symptom=panic file={file}"),
                    format!("{decoded}; file = {}", lit(&bytes)),
                    "no panic",
                    format!("panic: {msg} in {file}"),
                ));
            }
        };
        let v = if mode == "iter-record_bufs" {
            let w2: Vec<_> = want.iter().filter(|w| w.0.is_some()).cloned().collect();
            cmp_lines("gtf", mode, &got, &w2, &decoded, &bytes, None)
        } else {
            cmp_lines("gtf", mode, &got, &want, &decoded, &bytes, if mode == "reused-dirty" { dirty_rec.as_ref() } else { None })
        };
        if v.is_some() {
            return v;
        }
    }
    None
}

// ------------------------------------------------------------------------------------------------
// G2: writer sequences
// ------------------------------------------------------------------------------------------------

#[derive(Clone, Debug)]
pub enum WItem {
    /// a record through `write_record`; `Some(reason)`: the writer is known to refuse it
    Rec(GRec, Option<&'static str>),
    /// GFF3 only: a directive through `write_directive`
    Dir(MDir),
    /// GFF3 only: a typed directive value under the wrong key ("invalid directive")
    BadDirective,
    /// a lazy line view whose start column does not parse, through `write_feature_record`
    LazyBadStart,
}

impl WItem {
    pub fn reason(&self) -> Option<&'static str> {
        match self {
            WItem::Rec(_, r) => *r,
            WItem::Dir(_) => None,
            WItem::BadDirective => Some("typed-directive-under-wrong-key"),
            WItem::LazyBadStart => Some("lazy-record-with-unparsable-start"),
        }
    }
}

pub fn gff3_witems() -> Vec<WItem> {
    let set = gff3_set();
    let rec = |i: usize| if let MLine::Rec(r) = &set[i] { r.clone() } else { unreachable!() };
    let mut cds = GRec::plain();
    cds.ty = s("CDS");
    cds.attrs = vec![(s("ID"), vec![s("no_phase")])];
    vec![
        WItem::Rec(rec(0), None),
        WItem::Rec(rec(1), None),
        WItem::Rec(rec(3), None),
        WItem::Dir(MDir::Version("3")),
        WItem::Rec(cds, Some("cds-without-phase")),
        WItem::BadDirective,
        WItem::LazyBadStart,
    ]
}

pub fn gtf_witems() -> Vec<WItem> {
    let set = gtf_set();
    let rec = |i: usize| if let TLine::Rec(r) = &set[i] { r.clone() } else { unreachable!() };
    let mut unk = GRec::plain();
    unk.strand = 3;
    unk.attrs = vec![(s("gene_id"), vec![s("unknown_strand")])];
    vec![
        WItem::Rec(rec(0), None),
        WItem::Rec(rec(1), None),
        WItem::Rec(rec(3), None),
        WItem::Rec(unk, Some("strand-unknown")),
        WItem::LazyBadStart,
    ]
}

fn describe_items(items: &[WItem]) -> String {
    items
        .iter()
        .map(|it| match it {
            WItem::Rec(r, None) => format!("write_record({})", grec_literal(r)),
            WItem::Rec(r, Some(why)) => format!("write_record({}) [refused: {why}]", grec_literal(r)),
            WItem::Dir(d) => format!("write_directive(##{})", String::from_utf8_lossy(&d.key())),
            WItem::BadDirective => "write_directive(DirectiveBuf::new(\"gff-version\", Some(Value::SequenceRegion(sq0 1 8)))) [refused]".to_string(),
            WItem::LazyBadStart => "write_feature_record(&lazy view of \"sq0\\tsrc\\tgene\\tx\\t1\\t.\\t.\\t.\\t.\")  [refused: start does not parse]".to_string(),
        })
        .collect::<Vec<_>>()
        .join("; ")
}

/// Judges the finished output: it must consist of exactly the accepted items' lines.
fn judge(
    fmt: &str,
    items: &[WItem],
    steps: &[(bool, usize)],
    bytes: &[u8],
    line_ok: &dyn Fn(&[u8], &WItem) -> Option<String>,
) -> Option<Violation> {
    let decoded = describe_items(items);
    let accepted: Vec<&WItem> = items.iter().zip(steps).filter(|(_, st)| st.0).map(|(it, _)| it).collect();
    // which refusal left bytes behind?
    let left = items.iter().zip(steps).find(|(_, st)| !st.0 && st.1 > 0);
    let mut lines: Vec<&[u8]> = bytes.split_inclusive(|&c| c == b'\n').collect();
    if lines.last().map(|l| l.is_empty()).unwrap_or(false) {
        lines.pop();
    }
    let mut problem: Option<String> = None;
    if lines.len() != accepted.len() {
        problem = Some(format!("{} lines for {} accepted writes", lines.len(), accepted.len()));
    } else {
        for (l, it) in lines.iter().zip(&accepted) {
            if let Some(p) = line_ok(l, it) {
                problem = Some(format!("line {} : {p}", lit(l)));
                break;
            }
        }
    }
    let problem = problem?;
    let (field, reason) = match left {
        Some((it, _)) => ("rejected-write-left-partial-line", it.reason().unwrap_or("unexpected-refusal")),
        None => ("output-differs-from-accepted-records", "none"),
    };
    Some(Violation::new(
        format!("fmt={fmt} stage=writer-seq reason={reason} field={field}"),
        format!("one writer: {decoded}"),
        format!("output = the {} accepted lines, nothing else", accepted.len()),
        format!("{problem}; output = {}; bytes left by refused writes: {:?}", lit(bytes), steps.iter().map(|s| s.1).collect::<Vec<_>>()),
    ))
}

pub fn gff3_writer_seq(items: &[WItem]) -> Option<Violation> {
    let mut bad_line = gff::Line::default();
    gff::io::Reader::new(&b"sq0\tsrc\tgene\tx\t1\t.\t.\t.\t.\n"[..]).read_line(&mut bad_line).expect("line");
    let bad = bad_line.as_record().expect("record").expect("bounds");
    let mut w = gff::io::Writer::new(Vec::new());
    let mut steps = Vec::new();
    for it in items {
        let before = w.get_ref().len();
        let res = match it {
            WItem::Rec(r, _) => w.write_record(&gff3::to_noodles(r)),
            WItem::Dir(d) => w.write_directive(&d.to_noodles()),
            WItem::BadDirective => {
                let p = |n: usize| noodles_core::Position::try_from(n).unwrap();
                let v = gff::directive_buf::Value::SequenceRegion(gff::directive_buf::value::SequenceRegion::new("sq0", p(1), p(8)));
                w.write_directive(&gff::DirectiveBuf::new("gff-version", Some(v)))
            }
            WItem::LazyBadStart => w.write_feature_record(&bad),
        };
        let after = w.get_ref().len();
        steps.push((res.is_ok(), if res.is_ok() { 0 } else { after - before }));
    }
    let bytes = w.into_inner();
    judge("gff3", items, &steps, &bytes, &|line, it| match it {
        WItem::Rec(x, _) => gff3::spec_check_line(line, x).map(|(f, c, sy, d)| format!("{f} {c} {sy} {d}")),
        WItem::Dir(d) => {
            let mut want = b"##".to_vec();
            want.extend_from_slice(&d.key());
            if let Some(v) = d.value_text() {
                want.push(b' ');
                want.extend_from_slice(&v);
            }
            want.push(b'\n');
            if line == want { None } else { Some("directive text differs".into()) }
        }
        _ => Some("a refused item was accepted".into()),
    })
}

pub fn gtf_writer_seq(items: &[WItem]) -> Option<Violation> {
    let mut bad_line = gtf::Line::default();
    gtf::io::Reader::new(&b"sq0\tsrc\tgene\tx\t1\t.\t.\t.\tgene_id \"g\";\n"[..]).read_line(&mut bad_line).expect("line");
    let bad = bad_line.as_record().expect("record").expect("bounds");
    let mut w = gtf::io::Writer::new(Vec::new());
    let mut steps = Vec::new();
    for it in items {
        let before = w.get_ref().len();
        let res = match it {
            WItem::Rec(r, _) => w.write_record(&gff3::to_noodles(r)),
            WItem::LazyBadStart => w.write_feature_record(&bad),
            _ => unreachable!(),
        };
        let after = w.get_ref().len();
        steps.push((res.is_ok(), if res.is_ok() { 0 } else { after - before }));
    }
    let bytes = w.into_inner();
    judge("gtf", items, &steps, &bytes, &|line, it| match it {
        WItem::Rec(x, _) => crate::gtf::spec_check_line(line, x).map(|(f, c, sy, d)| format!("{f} {c} {sy} {d}")),
        _ => Some("a refused item was accepted".into()),
    })
}

/// All sequences of length 1..=3 over `0..n`.
pub fn sequences(n: usize) -> Vec<Vec<usize>> {
    let mut v = Vec::new();
    for a in 0..n {
        v.push(vec![a]);
        for b in 0..n {
            v.push(vec![a, b]);
            for c in 0..n {
                v.push(vec![a, b, c]);
            }
        }
    }
    v
}
