//! GFF3: model <-> noodles conversions, an independent line parser written from the GFF3
//! specification (v1.26), and the per-file oracle.

use std::io::Write as _;

use bstr::BString;
use noodles_core::Position;
use noodles_gff::{
    self as gff,
    directive_buf::{self, value::{GenomeBuild, GffVersion, SequenceRegion}},
    feature::{
        RecordBuf,
        record::{Phase, Strand},
        record_buf::attributes::field::Value as ValueBuf,
    },
};
use vmc::Violation;

use crate::model::{B, GRec, class_of, gdiff, grec_literal, lit, pct_decode};

/// One line of a GFF3 file as plain values.
#[derive(Clone, Debug)]
pub enum MLine {
    Rec(GRec),
    Dir(MDir),
    Comment(B),
}

#[derive(Clone, Debug)]
pub enum MDir {
    /// `##gff-version major[.minor[.patch]]`
    Version(&'static str),
    SeqRegion(B, usize, usize),
    GenomeBuild(B, B),
    /// key, optional free string value
    Other(B, Option<B>),
}

impl MDir {
    pub fn key(&self) -> B {
        match self {
            MDir::Version(_) => b"gff-version".to_vec(),
            MDir::SeqRegion(..) => b"sequence-region".to_vec(),
            MDir::GenomeBuild(..) => b"genome-build".to_vec(),
            MDir::Other(k, _) => k.clone(),
        }
    }
    /// Text of the value as the specification writes it (harness rendering, not noodles').
    pub fn value_text(&self) -> Option<B> {
        match self {
            MDir::Version(v) => Some(v.as_bytes().to_vec()),
            MDir::SeqRegion(n, s, e) => {
                let mut v = n.clone();
                v.extend_from_slice(format!(" {s} {e}").as_bytes());
                Some(v)
            }
            MDir::GenomeBuild(s, n) => {
                let mut v = s.clone();
                v.push(b' ');
                v.extend_from_slice(n);
                Some(v)
            }
            MDir::Other(_, v) => v.clone(),
        }
    }
    pub fn to_noodles(&self) -> gff::DirectiveBuf {
        let pos = |n: usize| Position::try_from(n).expect("position");
        let value = match self {
            MDir::Version(v) => Some(directive_buf::Value::GffVersion(v.parse::<GffVersion>().expect("harness version literal"))),
            MDir::SeqRegion(n, s, e) => Some(directive_buf::Value::SequenceRegion(SequenceRegion::new(n.clone(), pos(*s), pos(*e)))),
            MDir::GenomeBuild(s, n) => Some(directive_buf::Value::GenomeBuild(GenomeBuild::new(s.clone(), n.clone()))),
            MDir::Other(_, v) => v.clone().map(|v| directive_buf::Value::String(BString::from(v))),
        };
        gff::DirectiveBuf::new(self.key(), value)
    }
}

pub fn strand_of(s: u8) -> Strand {
    [Strand::None, Strand::Forward, Strand::Reverse, Strand::Unknown][s as usize]
}

pub fn strand_to(s: Strand) -> u8 {
    match s {
        Strand::None => 0,
        Strand::Forward => 1,
        Strand::Reverse => 2,
        Strand::Unknown => 3,
    }
}

pub fn phase_of(p: u8) -> Phase {
    [Phase::Zero, Phase::One, Phase::Two][p as usize]
}

pub fn phase_to(p: Phase) -> u8 {
    match p {
        Phase::Zero => 0,
        Phase::One => 1,
        Phase::Two => 2,
    }
}

pub fn to_noodles(x: &GRec) -> RecordBuf {
    let pos = |n: usize| Position::try_from(n).expect("position");
    let mut b = RecordBuf::builder()
        .set_reference_sequence_name(x.seqid.clone())
        .set_source(x.source.clone())
        .set_type(x.ty.clone())
        .set_start(pos(x.start))
        .set_end(pos(x.end))
        .set_strand(strand_of(x.strand));
    if let Some(s) = x.score {
        b = b.set_score(s);
    }
    if let Some(p) = x.phase {
        b = b.set_phase(phase_of(p));
    }
    let attrs = x
        .attrs
        .iter()
        .map(|(t, v)| {
            let value = if v.len() == 1 && !x.one_as_array {
                ValueBuf::String(BString::from(v[0].clone()))
            } else {
                ValueBuf::Array(v.iter().map(|e| BString::from(e.clone())).collect())
            };
            (BString::from(t.clone()), value)
        })
        .collect();
    b.set_attributes(attrs).build()
}

pub fn from_owned(r: &RecordBuf) -> GRec {
    GRec {
        seqid: r.reference_sequence_name().to_vec(),
        source: r.source().to_vec(),
        ty: r.ty().to_vec(),
        start: usize::from(r.start()),
        end: usize::from(r.end()),
        score: r.score(),
        strand: strand_to(r.strand()),
        phase: r.phase().map(phase_to),
        attrs: r
            .attributes()
            .as_ref()
            .iter()
            .map(|(t, v)| (t.to_vec(), v.iter().map(|e| e.to_vec()).collect()))
            .collect(),
        one_as_array: false,
    }
}

/// Field values through the lazy line view's own accessors. Iterations are capped (D18).
pub fn from_lazy(r: &gff::Record<'_>, cap: usize) -> Result<GRec, String> {
    use gff::record::attributes::field::Value;
    let mut attrs = Vec::new();
    let a = r.attributes();
    for (i, item) in a.iter().enumerate() {
        if i > cap {
            return Err("HANG attributes().iter() does not end".into());
        }
        let (t, v) = item.map_err(|e| format!("attributes: {e}"))?;
        let vals: Vec<B> = match &v {
            Value::String(s) => vec![s.to_vec()],
            Value::Array(arr) => {
                let mut out = Vec::new();
                for (j, e) in arr.iter().enumerate() {
                    if j > cap {
                        return Err("HANG array iter does not end".into());
                    }
                    out.push(e.to_vec());
                }
                out
            }
        };
        attrs.push((t.to_vec(), vals));
    }
    Ok(GRec {
        seqid: r.reference_sequence_name().to_vec(),
        source: r.source().to_vec(),
        ty: r.ty().to_vec(),
        start: usize::from(r.start().map_err(|e| format!("start: {e}"))?),
        end: usize::from(r.end().map_err(|e| format!("end: {e}"))?),
        score: r.score().transpose().map_err(|e| format!("score: {e}"))?,
        strand: strand_to(r.strand().map_err(|e| format!("strand: {e}"))?),
        phase: r.phase().transpose().map_err(|e| format!("phase: {e}"))?.map(phase_to),
        attrs,
        one_as_array: false,
    })
}

fn is_ctrl(c: u8) -> bool {
    c < 0x20 || c == 0x7f
}

/// Class of the first character of `raw` that the column must not contain unescaped.
fn raw_reserved(raw: &[u8], extra: &[u8]) -> Option<&'static str> {
    raw.iter().find_map(|&c| match c {
        b'\t' => Some("tab"),
        b'\n' => Some("lf"),
        b'\r' => Some("cr"),
        c if is_ctrl(c) => Some("ctrl"),
        c if extra.contains(&c) => Some(match c {
            b'&' => "amp",
            b',' => "comma",
            b'=' => "equals",
            _ => "semicolon",
        }),
        _ => None,
    })
}

/// Parses one written record line by the letter of the GFF3 specification and compares it with
/// `x`. Returns (field, class, symptom, detail) for the first problem (attributes first).
pub fn spec_check_line(line: &[u8], x: &GRec) -> Option<(String, &'static str, &'static str, String)> {
    // the writer terminates a line with exactly one LF
    let body = match line.strip_suffix(b"\n") {
        Some(b) => b,
        None => return Some(("line".into(), "plain", "missing-line-feed", String::new())),
    };
    let text_fields: Vec<(&'static str, &B)> = {
        let mut v: Vec<(&'static str, &B)> = Vec::new();
        for (t, vals) in &x.attrs {
            v.push(("attr-tag", t));
            for e in vals {
                v.push(("attr-value", e));
            }
        }
        v.push(("type", &x.ty));
        v.push(("source", &x.source));
        v.push(("seqid", &x.seqid));
        v
    };
    for (raw, name) in [(b'\n', "lf"), (b'\r', "cr"), (b'\t', "tab")] {
        let n = body.iter().filter(|&&c| c == raw).count();
        let allowed = if raw == b'\t' { 8 } else { 0 };
        if n != allowed {
            // which field of x carries that character?
            let culprit = text_fields.iter().find(|(_, v)| v.contains(&raw)).map(|(f, _)| *f).unwrap_or("unknown");
            return Some((culprit.into(), name, "raw-reserved-written", format!("{} raw {name} in the line", n)));
        }
    }
    let cols: Vec<&[u8]> = body.split(|&c| c == b'\t').collect();
    debug_assert_eq!(cols.len(), 9);

    // column 9
    let mut problems: Vec<(String, &'static str, &'static str, String)> = Vec::new();
    if x.attrs.is_empty() {
        if cols[8] != b"." {
            problems.push(("attr-count".into(), "empty", "spec-parse-differs", format!("column 9 = {}", lit(cols[8]))));
        }
    } else {
        let parts: Vec<&[u8]> = cols[8].split(|&c| c == b';').collect();
        if parts.len() != x.attrs.len() {
            let culprit = x
                .attrs
                .iter()
                .flat_map(|(t, v)| std::iter::once(("attr-tag", t)).chain(v.iter().map(|e| ("attr-value", e))))
                .find(|(_, v)| v.contains(&b';'))
                .map(|(f, _)| f)
                .unwrap_or("attr-count");
            problems.push((culprit.into(), "semicolon", "raw-reserved-written", format!("column 9 = {}", lit(cols[8]))));
        } else {
            for (part, (tag, vals)) in parts.iter().zip(&x.attrs) {
                let Some(eq) = part.iter().position(|&c| c == b'=') else {
                    problems.push(("attr-tag".into(), class_of(tag), "spec-parse-differs", format!("no '=' in {}", lit(part))));
                    continue;
                };
                let (traw, vraw) = (&part[..eq], &part[eq + 1..]);
                match (raw_reserved(traw, b"&,;"), pct_decode(traw)) {
                    (Some(cls), _) => problems.push(("attr-tag".into(), cls, "raw-reserved-written", lit(traw))),
                    (None, Err(e)) => problems.push(("attr-tag".into(), "percent", "raw-reserved-written", format!("{e} in {}", lit(traw)))),
                    (None, Ok(t)) if &t == tag => {}
                    (None, Ok(_)) => problems.push(("attr-tag".into(), class_of(tag), "spec-parse-differs", lit(traw))),
                }
                let elems: Vec<&[u8]> = vraw.split(|&c| c == b',').collect();
                if elems.len() != vals.len() {
                    let culprit = vals.iter().find(|v| v.contains(&b',')).cloned().unwrap_or_default();
                    let (cls, sym) = if vraw.contains(&b'=') && tag.contains(&b'=') {
                        ("equals", "raw-reserved-written")
                    } else if culprit.is_empty() {
                        (class_of(&vals.concat()), "spec-parse-differs")
                    } else {
                        ("comma", "raw-reserved-written")
                    };
                    problems.push(("attr-value".into(), cls, sym, lit(vraw)));
                    continue;
                }
                for (eraw, want) in elems.iter().zip(vals) {
                    match (raw_reserved(eraw, b"&=;"), pct_decode(eraw)) {
                        (Some(cls), _) => problems.push(("attr-value".into(), cls, "raw-reserved-written", lit(eraw))),
                        (None, Err(e)) => problems.push(("attr-value".into(), "percent", "raw-reserved-written", format!("{e} in {}", lit(eraw)))),
                        (None, Ok(v)) if &v == want => {}
                        (None, Ok(_)) => problems.push(("attr-value".into(), class_of(want), "spec-parse-differs", lit(eraw))),
                    }
                }
            }
        }
    }
    // typed columns
    let num = |n: usize| n.to_string().into_bytes();
    if cols[3] != num(x.start) {
        problems.push(("start".into(), "plain", "spec-parse-differs", lit(cols[3])));
    }
    if cols[4] != num(x.end) {
        problems.push(("end".into(), "plain", "spec-parse-differs", lit(cols[4])));
    }
    match x.score {
        None if cols[5] == b"." => {}
        Some(s) if std::str::from_utf8(cols[5]).ok().and_then(|t| t.parse::<f32>().ok()).map(f32::to_bits) == Some(s.to_bits()) => {}
        _ => problems.push(("score".into(), "plain", "spec-parse-differs", lit(cols[5]))),
    }
    if cols[6] != [b".+-?"[x.strand as usize]] {
        problems.push(("strand".into(), "plain", "spec-parse-differs", lit(cols[6])));
    }
    let want_phase: &[u8] = match x.phase {
        None => b".",
        Some(0) => b"0",
        Some(1) => b"1",
        _ => b"2",
    };
    if cols[7] != want_phase {
        problems.push(("phase".into(), "plain", "spec-parse-differs", lit(cols[7])));
    }
    // text columns 3, 2, 1: "tab, newline, carriage return, % and control characters must be escaped"
    for (name, col, want) in [("type", cols[2], &x.ty), ("source", cols[1], &x.source), ("seqid", cols[0], &x.seqid)] {
        match (raw_reserved(col, b""), pct_decode(col)) {
            (Some(cls), _) => problems.push((name.into(), cls, "raw-reserved-written", lit(col))),
            (None, Err(e)) => problems.push((name.into(), "percent", "raw-reserved-written", format!("{e} in {}", lit(col)))),
            (None, Ok(v)) if &v == want => {}
            // a '%' of the value was written raw in front of two hex digits
            (None, Ok(_)) => problems.push((name.into(), "percent", "raw-reserved-written", format!("{} decodes to something else", lit(col)))),
        }
    }
    if cols[0].first() == Some(&b'>') || body.first() == Some(&b'#') {
        problems.push(("seqid".into(), class_of(&x.seqid), "raw-reserved-written", format!("line starts with {}", lit(&body[..1]))));
    }
    problems.into_iter().next()
}

/// A text column that came back still percent-encoded is its own class of failure.
fn differs_how(want: &GRec, got: &GRec, field: &str, bytes_of: &[u8]) -> (&'static str, &'static str) {
    let pair = match field {
        "seqid" => Some((&want.seqid, &got.seqid)),
        "source" => Some((&want.source, &got.source)),
        "type" => Some((&want.ty, &got.ty)),
        _ => None,
    };
    if let Some((w, g)) = pair {
        if g != w && pct_decode(g).ok().as_ref() == Some(w) {
            return ("needs-escape", "not-percent-decoded");
        }
    }
    (class_of(bytes_of), "value-differs")
}

fn fp(stage: &str, path: &str, field: &str, class: &str, symptom: &str) -> String {
    format!("fmt=gff3 stage={stage} path={path} field={field} class={class} symptom={symptom}")
}

fn is_plain_rec(x: &GRec) -> bool {
    let ok = |v: &B| !v.is_empty() && v.iter().all(|c| c.is_ascii_alphanumeric());
    ok(&x.seqid) && ok(&x.source) && ok(&x.ty) && x.ty != b"CDS" && x.attrs.iter().all(|(t, v)| ok(t) && v.iter().all(ok))
}

pub struct FileOutcome {
    pub violations: Vec<Violation>,
    pub written: Option<B>,
    pub rejected: bool,
}

pub fn describe(lines: &[MLine]) -> String {
    lines
        .iter()
        .map(|l| match l {
            MLine::Rec(r) => grec_literal(r),
            MLine::Dir(d) => format!("Directive {{ key: {}, value: {:?} }}", lit(&d.key()), d.value_text().map(|v| lit(&v))),
            MLine::Comment(c) => format!("Comment({})", lit(c)),
        })
        .collect::<Vec<_>>()
        .join("; ")
}

/// Writes the lines with one noodles writer, checks the written text against the specification
/// parser, reads it back through the owned and the lazy paths and compares with the input.
pub fn check_file(lines: &[MLine], use_write_line: bool) -> FileOutcome {
    let mut out = FileOutcome { violations: Vec::new(), written: None, rejected: false };
    let decoded = describe(lines);

    // ---- write ----
    let mut w = gff::io::Writer::new(Vec::new());
    let mut ends = Vec::new();
    for l in lines {
        let res = match l {
            MLine::Rec(r) => {
                let rb = to_noodles(r);
                if use_write_line { w.write_line(&gff::LineBuf::Record(rb)) } else { w.write_record(&rb) }
            }
            MLine::Dir(d) => {
                let db = d.to_noodles();
                if use_write_line { w.write_line(&gff::LineBuf::Directive(db)) } else { w.write_directive(&db) }
            }
            MLine::Comment(c) => w.write_line(&gff::LineBuf::Comment(BString::from(c.clone()))),
        };
        if let Err(e) = res {
            // a record the writer does not accept is outside the statement
            out.rejected = true;
            let expected_reject = matches!(l, MLine::Rec(r) if r.ty == b"CDS" && r.phase.is_none());
            if !expected_reject && matches!(l, MLine::Rec(r) if is_plain_rec(r)) {
                out.violations.push(Violation::new(
                    fp("write", "writer", "record", "plain", "plain-record-rejected"),
                    decoded.clone(),
                    "Ok",
                    format!("Err({e})"),
                ));
            }
            return out;
        }
        let _ = w.get_mut().flush();
        ends.push(w.get_ref().len());
    }
    let bytes = w.into_inner();
    out.written = Some(bytes.clone());

    // ---- written text against the specification ----
    let mut start = 0;
    let mut line_ok = true;
    for (l, &end) in lines.iter().zip(&ends) {
        let line = &bytes[start..end];
        start = end;
        match l {
            MLine::Rec(x) => {
                if let Some((field, class, symptom, detail)) = spec_check_line(line, x) {
                    if symptom == "raw-reserved-written" && matches!(class, "tab" | "lf" | "cr") {
                        line_ok = false;
                    }
                    out.violations.push(Violation::new(
                        fp("write", "spec", &field, class, symptom),
                        format!("{decoded}; written line = {}", lit(line)),
                        "a line that the GFF3 specification parses back to the record (reserved characters percent-encoded)",
                        detail,
                    ));
                }
            }
            MLine::Dir(d) => {
                let mut want = b"##".to_vec();
                want.extend_from_slice(&d.key());
                if let Some(v) = d.value_text() {
                    want.push(b' ');
                    want.extend_from_slice(&v);
                }
                want.push(b'\n');
                if line != want {
                    out.violations.push(Violation::new(
                        fp("write", "spec", "directive", class_of(&d.key()), "spec-parse-differs"),
                        format!("{decoded}; written line = {}", lit(line)),
                        lit(&want),
                        lit(line),
                    ));
                }
            }
            MLine::Comment(_) => {}
        }
    }

    // ---- read: owned path ----
    let n = lines.len();
    let owned: Result<Vec<Result<gff::LineBuf, String>>, (String, String)> = vmc::catch(|| {
        let mut r = gff::io::Reader::new(&bytes[..]);
        let mut v = Vec::new();
        for item in r.line_bufs().take(n + 3) {
            v.push(item.map_err(|e| e.to_string()));
        }
        v
    });
    // ---- read: lazy path (one reused Line) ----
    let lazy: Result<Vec<Result<LazyLine, String>>, (String, String)> = vmc::catch(|| {
        let mut r = gff::io::Reader::new(&bytes[..]);
        let mut line = gff::Line::default();
        let mut v = Vec::new();
        for _ in 0..n + 3 {
            match r.read_line(&mut line) {
                Ok(0) => break,
                Ok(_) => v.push(lazy_line(&line, bytes.len() + 1000)),
                Err(e) => {
                    v.push(Err(e.to_string()));
                    break;
                }
            }
        }
        v
    });

    let first_rec_problem = |want: &GRec| -> (&'static str, &'static str) {
        // when a line cannot be read at all, name the most suspicious field of the input
        for (f, v) in [("source", &want.source), ("type", &want.ty), ("seqid", &want.seqid)] {
            if matches!(class_of(v), "tab" | "lf" | "cr") {
                return (f, class_of(v));
            }
        }
        for (t, vals) in &want.attrs {
            if class_of(t) != "plain" {
                return ("attr-tag", class_of(t));
            }
            for e in vals {
                if class_of(e) != "plain" {
                    return ("attr-value", class_of(e));
                }
            }
        }
        for (f, v) in [("source", &want.source), ("type", &want.ty), ("seqid", &want.seqid)] {
            if class_of(v) != "plain" {
                return (f, class_of(v));
            }
        }
        ("record", "plain")
    };

    match &owned {
        Err((msg, file)) => out.violations.push(Violation::new(
            format!("{} msg={} file={file}", fp("read", "owned", "record", "any", "panic"), vmc::normalise_msg(msg)),
            format!("{decoded}; written = {}", lit(&bytes)),
            "no panic",
            format!("panic: {msg} in {file}"),
        )),
        Ok(items) => {
            if line_ok && items.len() != n {
                out.violations.push(Violation::new(
                    fp("read", "owned", "line-count", "any", "value-differs"),
                    format!("{decoded}; written = {}", lit(&bytes)),
                    format!("{n} lines"),
                    format!("{} lines", items.len()),
                ));
            }
            for (item, want) in items.iter().zip(lines) {
                match (item, want) {
                    (Ok(gff::LineBuf::Record(r)), MLine::Rec(x)) => {
                        let got = from_owned(r);
                        if let Some((field, bytes_of)) = gdiff(x, &got) {
                            let (class, symptom) = differs_how(x, &got, field, &bytes_of);
                            out.violations.push(Violation::new(
                                fp("read", "owned", field, class, symptom),
                                format!("{decoded}; written = {}", lit(&bytes)),
                                grec_literal(x),
                                grec_literal(&got),
                            ));
                        }
                    }
                    (Ok(gff::LineBuf::Directive(d)), MLine::Dir(x)) => {
                        let want_value = x.value_text();
                        let got_value = match d.value() {
                            None => None,
                            Some(directive_buf::Value::String(s)) => Some(s.to_vec()),
                            Some(other) => Some(format!("<typed {other:?}>").into_bytes()),
                        };
                        if d.key().to_vec() != x.key() || got_value != want_value {
                            out.violations.push(Violation::new(
                                fp("read", "owned", "directive", class_of(&x.key()), "value-differs"),
                                format!("{decoded}; written = {}", lit(&bytes)),
                                format!("key {} value {:?}", lit(&x.key()), want_value.as_deref().map(lit)),
                                format!("key {} value {:?}", lit(d.key()), got_value.as_deref().map(lit)),
                            ));
                        }
                        // typed values: the text parses back to the typed value that was written
                        let typed_ok = match (x, &got_value) {
                            (MDir::Version(v), Some(t)) => std::str::from_utf8(t).ok().and_then(|t| t.parse::<GffVersion>().ok()) == v.parse::<GffVersion>().ok(),
                            (MDir::SeqRegion(nm, s, e), Some(t)) => {
                                let p = |n: usize| Position::try_from(n).unwrap();
                                std::str::from_utf8(t).ok().and_then(|t| t.parse::<SequenceRegion>().ok()) == Some(SequenceRegion::new(nm.clone(), p(*s), p(*e)))
                            }
                            (MDir::GenomeBuild(s, nm), Some(t)) => {
                                std::str::from_utf8(t).ok().and_then(|t| t.parse::<GenomeBuild>().ok()) == Some(GenomeBuild::new(s.clone(), nm.clone()))
                            }
                            _ => true,
                        };
                        if !typed_ok {
                            out.violations.push(Violation::new(
                                fp("read", "owned", "directive-typed-value", class_of(&x.key()), "value-differs"),
                                format!("{decoded}; written = {}", lit(&bytes)),
                                "the text of the value parses back to the typed value written",
                                format!("{:?}", got_value.as_deref().map(lit)),
                            ));
                        }
                    }
                    // comments are context only (the statement is about records and directives)
                    (Ok(gff::LineBuf::Comment(_)), MLine::Comment(_)) => {}
                    (Err(e), MLine::Rec(x)) => {
                        let (field, class) = first_rec_problem(x);
                        out.violations.push(Violation::new(
                            fp("read", "owned", field, class, "error"),
                            format!("{decoded}; written = {}", lit(&bytes)),
                            grec_literal(x),
                            format!("Err({e})"),
                        ));
                        break;
                    }
                    (got, want) => {
                        let (field, class) = match want {
                            MLine::Rec(x) => first_rec_problem(x),
                            MLine::Dir(_) => ("directive", "any"),
                            MLine::Comment(_) => ("comment", "any"),
                        };
                        out.violations.push(Violation::new(
                            fp("read", "owned", field, class, "line-kind-differs"),
                            format!("{decoded}; written = {}", lit(&bytes)),
                            format!("{want:?}"),
                            format!("{got:?}"),
                        ));
                        break;
                    }
                }
            }
        }
    }

    match &lazy {
        Err((msg, file)) => out.violations.push(Violation::new(
            format!("{} msg={} file={file}", fp("read", "lazy", "record", "any", "panic"), vmc::normalise_msg(msg)),
            format!("{decoded}; written = {}", lit(&bytes)),
            "no panic",
            format!("panic: {msg} in {file}"),
        )),
        Ok(items) => {
            for (item, want) in items.iter().zip(lines) {
                match (item, want) {
                    (Ok(LazyLine::Rec { lazy, built }), MLine::Rec(x)) => {
                        if let Some((field, bytes_of)) = gdiff(x, lazy) {
                            let (class, symptom) = differs_how(x, lazy, field, &bytes_of);
                            out.violations.push(Violation::new(
                                fp("read", "lazy", field, class, symptom),
                                format!("{decoded}; written = {}", lit(&bytes)),
                                grec_literal(x),
                                grec_literal(lazy),
                            ));
                        }
                        match built {
                            Ok(b) => {
                                if let Some((field, bytes_of)) = gdiff(lazy, b) {
                                    out.violations.push(Violation::new(
                                        fp("read", "lazy-vs-owned", field, class_of(&bytes_of), "value-differs"),
                                        format!("{decoded}; written = {}", lit(&bytes)),
                                        format!("lazy view: {}", grec_literal(lazy)),
                                        format!("RecordBuf::try_from_feature_record: {}", grec_literal(b)),
                                    ));
                                }
                            }
                            Err(e) => out.violations.push(Violation::new(
                                fp("read", "lazy-vs-owned", "record", "any", "error"),
                                format!("{decoded}; written = {}", lit(&bytes)),
                                format!("lazy view: {}", grec_literal(lazy)),
                                format!("RecordBuf::try_from_feature_record: Err({e})"),
                            )),
                        }
                    }
                    (Ok(LazyLine::Dir { key, value }), MLine::Dir(x)) => {
                        if *key != x.key() || *value != x.value_text() {
                            out.violations.push(Violation::new(
                                fp("read", "lazy", "directive", class_of(&x.key()), "value-differs"),
                                format!("{decoded}; written = {}", lit(&bytes)),
                                format!("key {} value {:?}", lit(&x.key()), x.value_text().as_deref().map(lit)),
                                format!("key {} value {:?}", lit(key), value.as_deref().map(lit)),
                            ));
                        }
                    }
                    (Ok(LazyLine::Comment), MLine::Comment(_)) => {}
                    (Err(e), MLine::Rec(x)) => {
                        let (field, class) = first_rec_problem(x);
                        let symptom = if e.starts_with("HANG") { "hang" } else { "error" };
                        out.violations.push(Violation::new(
                            fp("read", "lazy", field, class, symptom),
                            format!("{decoded}; written = {}", lit(&bytes)),
                            grec_literal(x),
                            format!("Err({e})"),
                        ));
                        break;
                    }
                    (got, want) => {
                        let (field, class) = match want {
                            MLine::Rec(x) => first_rec_problem(x),
                            MLine::Dir(_) => ("directive", "any"),
                            MLine::Comment(_) => ("comment", "any"),
                        };
                        out.violations.push(Violation::new(
                            fp("read", "lazy", field, class, "line-kind-differs"),
                            format!("{decoded}; written = {}", lit(&bytes)),
                            format!("{want:?}"),
                            format!("{got:?}"),
                        ));
                        break;
                    }
                }
            }
        }
    }

    // record_bufs(): the records only, in order (stops at ##FASTA)
    let n_recs_before_fasta = lines
        .iter()
        .take_while(|l| !matches!(l, MLine::Dir(d) if d.key() == b"FASTA"))
        .filter(|l| matches!(l, MLine::Rec(_)))
        .count();
    if line_ok && out.violations.is_empty() {
        let r = vmc::catch(|| {
            let mut r = gff::io::Reader::new(&bytes[..]);
            r.record_bufs().take(n + 3).filter(|x| x.is_ok()).count()
        });
        match r {
            Ok(k) if k == n_recs_before_fasta => {}
            other => out.violations.push(Violation::new(
                fp("read", "record_bufs", "record-count", "any", "value-differs"),
                format!("{decoded}; written = {}", lit(&bytes)),
                format!("{n_recs_before_fasta} records"),
                format!("{other:?}"),
            )),
        }
    }
    out
}

/// `check_file`, and when a record with several unusual fields fails, the failure of the first
/// field that also fails alone in a plain record is reported instead (exact field and class, minimal
/// input); `interaction=yes` marks failures that no single field reproduces.
pub fn check_attributed(lines: &[MLine], use_write_line: bool) -> FileOutcome {
    let mut out = check_file(lines, use_write_line);
    if out.violations.is_empty() {
        return out;
    }
    let multi = lines.len() > 1 || lines.iter().any(|l| matches!(l, MLine::Rec(x) if crate::model::non_plain_fields(x) > 1));
    if !multi {
        return out;
    }
    for l in lines {
        if let MLine::Rec(x) = l {
            for iso in crate::model::isolate(x, b"Note") {
                let r = check_file(&[MLine::Rec(iso)], false);
                if !r.violations.is_empty() {
                    out.violations = r.violations;
                    return out;
                }
            }
        }
    }
    for v in out.violations.iter_mut() {
        if !["field=phase", "field=strand", "field=score", "field=start", "field=end", "field=directive"].iter().any(|f| v.fingerprint.contains(f)) {
            v.fingerprint.push_str(" interaction=yes");
        }
    }
    out
}

#[derive(Debug)]
pub enum LazyLine {
    Rec { lazy: GRec, built: Result<GRec, String> },
    Dir { key: B, value: Option<B> },
    Comment,
}

pub fn lazy_line(line: &gff::Line, cap: usize) -> Result<LazyLine, String> {
    match line.kind() {
        gff::line::Kind::Directive => {
            let d = line.as_directive().ok_or("as_directive() is None for a directive line")?;
            Ok(LazyLine::Dir { key: d.key().to_vec(), value: d.value().map(|v| v.to_vec()) })
        }
        gff::line::Kind::Comment => line.as_comment().map(|_| LazyLine::Comment).ok_or_else(|| "as_comment() is None".to_string()),
        gff::line::Kind::Record => {
            let rec = line.as_record().ok_or("as_record() is None")?.map_err(|e| e.to_string())?;
            let lazy = from_lazy(&rec, cap)?;
            // `get(tag)` agrees with iteration (first field of that tag)
            for (t, v) in &lazy.attrs {
                let first = lazy.attrs.iter().find(|(t2, _)| t2 == t).map(|(_, v)| v.clone()).unwrap();
                if &first != v {
                    continue;
                }
                use gff::record::attributes::field::Value;
                let got: Option<Vec<B>> = match rec.attributes().get(t) {
                    Some(Ok(Value::String(s))) => Some(vec![s.to_vec()]),
                    Some(Ok(Value::Array(a))) => Some(a.iter().take(cap).map(|e| e.to_vec()).collect()),
                    _ => None,
                };
                if got.as_ref() != Some(v) {
                    return Err(format!("attributes().get({}) = {:?}, iter() gave {:?}", lit(t), got, v));
                }
            }
            let built = RecordBuf::try_from_feature_record(&rec).map(|b| from_owned(&b)).map_err(|e| e.to_string());
            Ok(LazyLine::Rec { lazy, built })
        }
    }
}

/// Picks the violation to report: anything not on the three text columns with known defects first.
pub fn pick(mut v: Vec<Violation>) -> Option<Violation> {
    if v.is_empty() {
        return None;
    }
    let rank = |x: &Violation| {
        let f = &x.fingerprint;
        if f.contains("field=seqid") || f.contains("field=source") || f.contains("field=type") { 1 } else { 0 }
    };
    let i = (0..v.len()).min_by_key(|&i| (rank(&v[i]), i)).unwrap();
    Some(v.swap_remove(i))
}
