//! "Foreign but legal line layouts" for the READERS of GFF3, GTF and BED: every small document the
//! writer produces is re-rendered with one deviation (all pairs of deviations in the thorough tier)
//! that other tools produce and noodles never writes — CRLF (all lines / one line), no final
//! terminator, white space after the last terminator, empty lines, white-space-only lines (space,
//! tab, several, mixed, runs) before the first line / between lines / after the last, comment lines,
//! directives (`##x y`, `###`, `##FASTA`), BED `track` / `browser` lines, trailing space after the
//! closing `;` of a GTF line — and read through every reader API (explicit `read_line` /
//! `read_record` with one reused buffer, a pre-dirtied one, a fresh one per read; `lines()`,
//! `line_bufs()`, `record_bufs()`; lazy and owned views).
//!
//! Oracle (metamorphic): what a layout makes the reader REJECT is a recorded, non-judged outcome, but
//! the items delivered before the error must be a prefix of the expected ones, and a perturbed
//! document that parses must give the canonical document's records (and, where the inserted line
//! alone is readable, exactly the canonical items plus the inserted line's own item at its place).

use std::{
    fmt::Write as _,
    sync::atomic::{AtomicU64, Ordering::Relaxed},
};

use noodles_bed as bed;
use noodles_gff as gff;
use noodles_gtf as gtf;
use vmc::Violation;

use crate::{
    gff3::{self, LazyLine},
    model::{B, GRec, gdiff, lit},
};

#[derive(Clone, Copy, Debug, PartialEq, Eq)]
pub enum Fmt {
    Gff3,
    Gtf,
    Bed(usize),
}

impl Fmt {
    fn name(&self) -> &'static str {
        match self {
            Fmt::Gff3 => "gff3",
            Fmt::Gtf => "gtf",
            Fmt::Bed(_) => "bed",
        }
    }
    pub fn modes(&self) -> &'static [&'static str] {
        match self {
            Fmt::Bed(_) => &["reused", "reused-dirty", "fresh"],
            _ => &["reused", "reused-dirty", "fresh", "lines", "line_bufs", "record_bufs"],
        }
    }
}

#[derive(Clone, Debug)]
pub enum Item {
    Rec(GRec),
    Dir(B, Option<B>),
    Comment(B),
    /// BED: `Debug` of the lazy record and of the owned record built from it
    Bed(String),
    /// the lazy view and the owned record built from it disagree
    Inconsistent(String),
}

fn item_eq(a: &Item, b: &Item) -> bool {
    match (a, b) {
        (Item::Rec(x), Item::Rec(y)) => gdiff(x, y).is_none(),
        (Item::Dir(k, v), Item::Dir(k2, v2)) => k == k2 && v == v2,
        (Item::Comment(a), Item::Comment(b)) => a == b,
        (Item::Bed(x), Item::Bed(y)) => x == y,
        _ => false,
    }
}

fn is_record(i: &Item) -> bool {
    matches!(i, Item::Rec(_) | Item::Bed(_) | Item::Inconsistent(_))
}

fn items_eq(a: &[Item], b: &[Item]) -> bool {
    a.len() == b.len() && a.iter().zip(b).all(|(x, y)| item_eq(x, y))
}

fn is_prefix(a: &[Item], b: &[Item]) -> bool {
    a.len() <= b.len() && a.iter().zip(b).all(|(x, y)| item_eq(x, y))
}

pub struct Read {
    pub items: Vec<Item>,
    pub err: Option<String>,
}

const DIRTY_GFF: &[u8] = b"dirty_unrelated_and_very_long_sequence_id\tdirty_source\tdirty_type\t111111111\t999999999\t12345.678\t-\t1\tID=dirty;Note=dirty note that is longer than anything else in the files\n";
const DIRTY_GTF: &[u8] = b"dirty_unrelated_and_very_long_sequence_id\tdirty_source\tdirty_type\t111111111\t999999999\t12345.678\t-\t1\tgene_id \"dirty\"; note \"dirty note that is longer than anything else in the files\";\n";
const DIRTY_BED: &[u8] = b"dirtychromosomename\t12345678\t987654321\tdirty name\t999\t+\td1\td2\td3\td4\td5\td6\td7\td8\td9\n";

fn gff_item(line: &gff::Line, cap: usize) -> Result<Item, String> {
    Ok(match gff3::lazy_line(line, cap)? {
        LazyLine::Rec { lazy, built } => match built {
            Ok(b) if gdiff(&lazy, &b).is_none() => Item::Rec(lazy),
            other => Item::Inconsistent(format!("lazy {lazy:?} built {other:?}")),
        },
        LazyLine::Dir { key, value } => Item::Dir(key, value),
        LazyLine::Comment => Item::Comment(line.as_comment().map(|c| c.to_vec()).unwrap_or_default()),
    })
}

fn read_gff3(bytes: &[u8], mode: &str, limit: usize) -> Read {
    let cap = bytes.len() + 1000;
    let r = vmc::catch(|| {
        let mut rd = gff::io::Reader::new(bytes);
        let mut items = Vec::new();
        let mut err = None;
        let mut push = |x: Result<Item, String>, items: &mut Vec<Item>| -> bool {
            match x {
                Ok(i) => {
                    items.push(i);
                    true
                }
                Err(e) => {
                    err = Some(e);
                    false
                }
            }
        };
        match mode {
            "lines" => {
                for l in rd.lines().take(limit) {
                    if !push(l.map_err(|e| e.to_string()).and_then(|l| gff_item(&l, cap)), &mut items) {
                        break;
                    }
                }
            }
            "line_bufs" => {
                for l in rd.line_bufs().take(limit) {
                    let x = l.map_err(|e| e.to_string()).map(|lb| match lb {
                        gff::LineBuf::Record(r) => Item::Rec(gff3::from_owned(&r)),
                        gff::LineBuf::Directive(d) => Item::Dir(
                            d.key().to_vec(),
                            d.value().map(|v| match v {
                                gff::directive_buf::Value::String(s) => s.to_vec(),
                                other => format!("<typed {other:?}>").into_bytes(),
                            }),
                        ),
                        gff::LineBuf::Comment(c) => Item::Comment(c.to_vec()),
                    });
                    if !push(x, &mut items) {
                        break;
                    }
                }
            }
            "record_bufs" => {
                for l in rd.record_bufs().take(limit) {
                    if !push(l.map(|r| Item::Rec(gff3::from_owned(&r))).map_err(|e| e.to_string()), &mut items) {
                        break;
                    }
                }
            }
            _ => {
                let mk = || {
                    let mut l = gff::Line::default();
                    if mode == "reused-dirty" {
                        gff::io::Reader::new(DIRTY_GFF).read_line(&mut l).expect("dirty line");
                    }
                    l
                };
                let mut line = mk();
                for _ in 0..limit {
                    if mode == "fresh" {
                        line = mk();
                    }
                    match rd.read_line(&mut line) {
                        Ok(0) => break,
                        Ok(_) => {
                            if !push(gff_item(&line, cap), &mut items) {
                                break;
                            }
                        }
                        Err(e) => {
                            push(Err(e.to_string()), &mut items);
                            break;
                        }
                    }
                }
            }
        }
        (items, err)
    });
    match r {
        Ok((items, err)) => Read { items, err },
        Err((msg, file)) => Read { items: Vec::new(), err: Some(format!("PANIC {msg} in {file}")) },
    }
}

fn gtf_item(line: &gtf::Line, cap: usize) -> Result<Item, String> {
    match line.kind() {
        gtf::line::Kind::Comment => Ok(Item::Comment(line.as_comment().map(|c| c.to_vec()).unwrap_or_default())),
        gtf::line::Kind::Record => {
            let rec = line.as_record().ok_or("as_record() is None")?.map_err(|e| e.to_string())?;
            let lazy = crate::gtf::from_lazy(&rec, cap)?;
            let built = gff::feature::RecordBuf::try_from_feature_record(&rec).map(|b| gff3::from_owned(&b)).map_err(|e| e.to_string());
            Ok(match built {
                Ok(b) if gdiff(&lazy, &b).is_none() => Item::Rec(lazy),
                other => Item::Inconsistent(format!("lazy {lazy:?} built {other:?}")),
            })
        }
    }
}

fn read_gtf(bytes: &[u8], mode: &str, limit: usize) -> Read {
    let cap = bytes.len() + 1000;
    let r = vmc::catch(|| {
        let mut rd = gtf::io::Reader::new(bytes);
        let mut items = Vec::new();
        let mut err = None;
        let mut push = |x: Result<Item, String>, items: &mut Vec<Item>| -> bool {
            match x {
                Ok(i) => {
                    items.push(i);
                    true
                }
                Err(e) => {
                    err = Some(e);
                    false
                }
            }
        };
        match mode {
            "lines" => {
                for l in rd.lines().take(limit) {
                    if !push(l.map_err(|e| e.to_string()).and_then(|l| gtf_item(&l, cap)), &mut items) {
                        break;
                    }
                }
            }
            "line_bufs" => {
                for l in rd.line_bufs().take(limit) {
                    let x = l.map_err(|e| e.to_string()).map(|lb| match lb {
                        gtf::LineBuf::Record(r) => Item::Rec(gff3::from_owned(&r)),
                        gtf::LineBuf::Comment(c) => Item::Comment(c.to_vec()),
                    });
                    if !push(x, &mut items) {
                        break;
                    }
                }
            }
            "record_bufs" => {
                for l in rd.record_bufs().take(limit) {
                    if !push(l.map(|r| Item::Rec(gff3::from_owned(&r))).map_err(|e| e.to_string()), &mut items) {
                        break;
                    }
                }
            }
            _ => {
                let mk = || {
                    let mut l = gtf::Line::default();
                    if mode == "reused-dirty" {
                        gtf::io::Reader::new(DIRTY_GTF).read_line(&mut l).expect("dirty line");
                    }
                    l
                };
                let mut line = mk();
                for _ in 0..limit {
                    if mode == "fresh" {
                        line = mk();
                    }
                    match rd.read_line(&mut line) {
                        Ok(0) => break,
                        Ok(_) => {
                            if !push(gtf_item(&line, cap), &mut items) {
                                break;
                            }
                        }
                        Err(e) => {
                            push(Err(e.to_string()), &mut items);
                            break;
                        }
                    }
                }
            }
        }
        (items, err)
    });
    match r {
        Ok((items, err)) => Read { items, err },
        Err((msg, file)) => Read { items: Vec::new(), err: Some(format!("PANIC {msg} in {file}")) },
    }
}

macro_rules! bed_read {
    ($f:ident, $n:literal) => {
        fn $f(bytes: &[u8], mode: &str, limit: usize) -> Read {
            let r = vmc::catch(|| {
                let mut rd = bed::io::Reader::<$n, _>::new(bytes);
                let mk = || {
                    let mut rec = bed::Record::<$n>::default();
                    if mode == "reused-dirty" {
                        bed::io::Reader::<$n, _>::new(DIRTY_BED).read_record(&mut rec).expect("dirty line");
                    }
                    rec
                };
                let mut rec = mk();
                let mut items = Vec::new();
                let mut err = None;
                for _ in 0..limit {
                    if mode == "fresh" {
                        rec = mk();
                    }
                    match rd.read_record(&mut rec) {
                        Ok(0) => break,
                        Ok(_) => {
                            let mut s = String::new();
                            let _ = write!(s, "{rec:?}");
                            // a field that does not parse is inside the Debug text as Err(..): the line is rejected
                            if s.contains("Err(") {
                                err = Some(s);
                                break;
                            }
                            match bed::feature::RecordBuf::<$n>::try_from_feature_record(&rec) {
                                Ok(b) => {
                                    let _ = write!(s, " | {b:?}");
                                }
                                Err(e) => {
                                    err = Some(e.to_string());
                                    break;
                                }
                            }
                            items.push(Item::Bed(s));
                        }
                        Err(e) => {
                            err = Some(e.to_string());
                            break;
                        }
                    }
                }
                (items, err)
            });
            match r {
                Ok((items, err)) => Read { items, err },
                Err((msg, file)) => Read { items: Vec::new(), err: Some(format!("PANIC {msg} in {file}")) },
            }
        }
    };
}

bed_read!(read_bed3, 3);
bed_read!(read_bed4, 4);
bed_read!(read_bed5, 5);
bed_read!(read_bed6, 6);

pub fn read(fmt: Fmt, bytes: &[u8], mode: &str, limit: usize) -> Read {
    match fmt {
        Fmt::Gff3 => read_gff3(bytes, mode, limit),
        Fmt::Gtf => read_gtf(bytes, mode, limit),
        Fmt::Bed(3) => read_bed3(bytes, mode, limit),
        Fmt::Bed(4) => read_bed4(bytes, mode, limit),
        Fmt::Bed(5) => read_bed5(bytes, mode, limit),
        Fmt::Bed(_) => read_bed6(bytes, mode, limit),
    }
}

// ------------------------------------------------------------------------------------------------
// deviations
// ------------------------------------------------------------------------------------------------

#[derive(Clone, Debug)]
pub enum Dev {
    /// raw lines (without terminator) inserted before canonical line `pos` (`pos == n`: after the last)
    Insert { pos: usize, lines: Vec<&'static [u8]>, class: &'static str },
    AllCrlf,
    LineCrlf(usize),
    NoFinalTerminator,
    /// white space after the last terminator, itself unterminated
    FinalWs(&'static [u8]),
    /// GTF: white space after the closing ';' of line i
    Trailing(usize, &'static [u8]),
}

impl Dev {
    pub fn class(&self, n: usize) -> String {
        match self {
            Dev::Insert { pos, class, .. } => format!("insert-{class}@{}", if *pos == 0 { "before-first" } else if *pos == n { "after-last" } else { "between" }),
            Dev::AllCrlf => "crlf-all".into(),
            Dev::LineCrlf(_) => "crlf-one-line".into(),
            Dev::NoFinalTerminator => "no-final-terminator".into(),
            Dev::FinalWs(_) => "whitespace-after-last-terminator".into(),
            Dev::Trailing(..) => "trailing-space-after-last-column".into(),
        }
    }
}

fn inserts(fmt: Fmt) -> Vec<(Vec<&'static [u8]>, &'static str)> {
    let mut v: Vec<(Vec<&'static [u8]>, &'static str)> = vec![
        (vec![b""], "empty-line"),
        (vec![b"", b""], "empty-line-run"),
        (vec![b" "], "ws-only-line"),
        (vec![b"\t"], "ws-only-line"),
        (vec![b"   "], "ws-only-line"),
        (vec![b" \t "], "ws-only-line"),
        (vec![b"\x0c"], "ws-only-line"),
        (vec![b"", b" ", b"\t", b""], "ws-only-line-run"),
        (vec![b"#c"], "comment"),
        (vec![b"# a comment line that is longer than most of the records, x x x x x x x x x x x x x x x x x x x"], "comment"),
        (vec![b"#"], "comment"),
        (vec![b"#c1", b"#c2", b"#"], "comment-run"),
    ];
    match fmt {
        Fmt::Gff3 => {
            v.push((vec![b"##x y"], "directive"));
            v.push((vec![b"##sequence-region sq0 1 100"], "directive"));
            v.push((vec![b"###"], "directive"));
            v.push((vec![b"##FASTA"], "fasta-directive"));
            v.push((vec![b" ", b"##x y", b"\t"], "ws-only-around-directive"));
        }
        Fmt::Gtf => {
            v.push((vec![b"##x y"], "comment"));
        }
        Fmt::Bed(_) => {
            v.push((vec![b"track name=x description=\"y z\""], "track-line"));
            v.push((vec![b"browser position chr1:1-2"], "browser-line"));
        }
    }
    v
}

pub fn devs(fmt: Fmt, body: &[B]) -> Vec<Dev> {
    let n = body.len();
    let mut v = Vec::new();
    for pos in 0..=n {
        for (lines, class) in inserts(fmt) {
            v.push(Dev::Insert { pos, lines, class });
        }
    }
    v.push(Dev::AllCrlf);
    for i in 0..n {
        v.push(Dev::LineCrlf(i));
    }
    v.push(Dev::NoFinalTerminator);
    v.push(Dev::FinalWs(b" "));
    v.push(Dev::FinalWs(b"\t"));
    v.push(Dev::FinalWs(b" \t "));
    if fmt == Fmt::Gtf {
        for (i, l) in body.iter().enumerate() {
            if l.ends_with(b";") {
                v.push(Dev::Trailing(i, b" "));
                v.push(Dev::Trailing(i, b"   "));
            }
        }
    }
    v
}

/// Renders the canonical line bodies (without terminators) under the deviations. Returns the bytes
/// and, per rendered line, `Ok(i)` for canonical line i or `Err(raw)` for an inserted line.
pub fn render(body: &[B], ds: &[&Dev]) -> (B, Vec<Result<usize, B>>) {
    let n = body.len();
    let mut pre: Vec<Vec<B>> = vec![Vec::new(); n + 1];
    let mut crlf_all = false;
    let mut crlf: Vec<bool> = vec![false; n];
    let mut suffix: Vec<B> = vec![Vec::new(); n];
    let mut final_term = true;
    let mut final_ws: Option<B> = None;
    for d in ds {
        match d {
            Dev::Insert { pos, lines, .. } => pre[*pos].extend(lines.iter().map(|l| l.to_vec())),
            Dev::AllCrlf => crlf_all = true,
            Dev::LineCrlf(i) => crlf[*i] = true,
            Dev::NoFinalTerminator => final_term = false,
            Dev::FinalWs(w) => final_ws = Some(w.to_vec()),
            Dev::Trailing(i, w) => suffix[*i].extend_from_slice(w),
        }
    }
    let mut out = Vec::new();
    let mut map = Vec::new();
    let eol = |c: bool| -> &'static [u8] { if c || crlf_all { b"\r\n" } else { b"\n" } };
    let mut last_eol_len = 0;
    for i in 0..=n {
        for ins in &pre[i] {
            out.extend_from_slice(ins);
            out.extend_from_slice(eol(false));
            last_eol_len = eol(false).len();
            map.push(Err(ins.clone()));
        }
        if i < n {
            out.extend_from_slice(&body[i]);
            out.extend_from_slice(&suffix[i]);
            out.extend_from_slice(eol(crlf[i]));
            last_eol_len = eol(crlf[i]).len();
            map.push(Ok(i));
        }
    }
    if !final_term {
        out.truncate(out.len() - last_eol_len);
    }
    if let Some(w) = final_ws {
        if !final_term {
            // keep the two deviations distinguishable: the white space goes on its own last line
            out.extend_from_slice(b"\n");
        }
        out.extend_from_slice(&w);
        map.push(Err(w));
    }
    (out, map)
}

#[derive(Default)]
pub struct Stats {
    pub parsed: AtomicU64,
    pub rejected: AtomicU64,
    pub panicked: AtomicU64,
    pub reads: AtomicU64,
}

/// One canonical document (writer output `canon`) under the deviations `ds`, through every mode.
pub fn check(fmt: Fmt, canon: &[u8], ds: &[&Dev], decoded: &str, st: &Stats) -> Option<Violation> {
    let body: Vec<B> = canon.split_inclusive(|&c| c == b'\n').map(|l| l.strip_suffix(b"\n").unwrap_or(l).to_vec()).collect();
    let n = body.len();
    let (bytes, map) = render(&body, ds);
    let limit = map.len() + 5;
    let class = ds.iter().map(|d| d.class(n)).collect::<Vec<_>>().join("+");
    for &mode in fmt.modes() {
        let can = read(fmt, canon, mode, n + 5);
        if can.err.is_some() {
            // the canonical document itself is not readable through this API: nothing to compare
            continue;
        }
        let per = read(fmt, &bytes, mode, limit);
        st.reads.fetch_add(2, Relaxed);
        // expected items: per rendered line, what that line alone gives through the same API
        let mut expected: Vec<Item> = Vec::new();
        let mut certain = true;
        let mut fasta_seen = false;
        for m in &map {
            let alone: B = match m {
                Ok(i) => {
                    let mut l = body[*i].clone();
                    l.push(b'\n');
                    l
                }
                Err(raw) => {
                    let mut l = raw.clone();
                    l.push(b'\n');
                    l
                }
            };
            if fasta_seen && mode == "record_bufs" {
                break;
            }
            if fmt == Fmt::Gff3 && matches!(m, Err(raw) if raw == b"##FASTA") {
                fasta_seen = true;
            }
            let r = read(fmt, &alone, mode, 3);
            match (m, r.err) {
                (_, None) => expected.extend(r.items),
                // a canonical line is readable by construction; an inserted line may not be
                (Ok(_), Some(_)) => certain = false,
                (Err(_), Some(_)) => certain = false,
            }
        }
        let recs = |v: &[Item]| v.iter().filter(|i| is_record(i)).cloned().collect::<Vec<_>>();
        let can_recs = if fasta_seen && mode == "record_bufs" { recs(&expected) } else { recs(&can.items) };
        let (ok, symptom) = match &per.err {
            None => {
                st.parsed.fetch_add(1, Relaxed);
                if certain {
                    (items_eq(&per.items, &expected), "items-differ-from-canonical")
                } else {
                    (items_eq(&recs(&per.items), &can_recs), "records-differ-from-canonical")
                }
            }
            Some(e) => {
                if e.starts_with("PANIC") {
                    st.panicked.fetch_add(1, Relaxed);
                } else {
                    st.rejected.fetch_add(1, Relaxed);
                }
                // rejected: non-judged, but what was delivered before must not differ silently
                (is_prefix(&recs(&per.items), &can_recs), "records-before-the-error-differ-from-canonical")
            }
        };
        if !ok {
            let show = |v: &[Item]| {
                v.iter()
                    .map(|i| match i {
                        Item::Rec(r) => crate::model::grec_literal(r),
                        Item::Dir(k, v) => format!("Directive({}, {:?})", lit(k), v.as_deref().map(lit)),
                        Item::Comment(c) => format!("Comment({})", lit(c)),
                        Item::Bed(s) => s.split(" | ").next().unwrap_or("").to_string(),
                        Item::Inconsistent(s) => format!("LAZY-VS-OWNED {s}"),
                    })
                    .collect::<Vec<_>>()
                    .join("; ")
            };
            return Some(Violation::new(
                format!("fmt={} stage=foreign-layout dev={class} mode={mode} symptom={symptom}", fmt.name()),
                format!("canonical = {} ({decoded}); perturbed = {}; read mode {mode}", lit(canon), lit(&bytes)),
                format!("{} [canonical records: {}]", show(&expected), show(&can_recs)),
                format!("{}{}", show(&per.items), per.err.as_ref().map(|e| format!(" then Err({e})")).unwrap_or_default()),
            ));
        }
    }
    None
}
