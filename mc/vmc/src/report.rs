//! Driver glue: tiers, evidence files, known findings, replay artefacts, exit codes.

use std::{
    collections::BTreeMap,
    path::{Path, PathBuf},
    time::Instant,
};

use serde_json::{Value, json};

use crate::explore::{self, Chooser, Config, MachineryError, Outcome, Stats, SweepStats, Violation};

#[derive(Clone, Copy, Debug, PartialEq, Eq)]
pub enum Tier {
    Quick,
    Thorough,
}

pub fn verif_root() -> PathBuf {
    if let Some(p) = std::env::var_os("VERIF_ROOT") {
        return PathBuf::from(p);
    }
    // .../mc/vmc -> /verif
    Path::new(env!("CARGO_MANIFEST_DIR"))
        .parent()
        .and_then(|p| p.parent())
        .map(|p| p.to_path_buf())
        .unwrap_or_else(|| PathBuf::from("/verif"))
}

struct ReplayReq {
    harness: String,
    choices: Vec<u32>,
    index: Option<u64>,
}

#[derive(Clone, Debug)]
struct OpenFinding {
    property: String,
    id: String,
    pattern: String,
    what: String,
}

/// A generic per-harness result for bespoke engines (E2 searches, hand-rolled sweeps).
#[derive(Clone, Debug, Default)]
pub struct Custom {
    pub name: String,
    pub evaluations: u64,
    pub distinct: u64,
    pub states: u64,
    pub transitions: u64,
    pub exhaustive: bool,
    pub capped: Option<String>,
    pub samples: Vec<String>,
    pub extra: BTreeMap<String, Value>,
    /// (violation, replay payload, count)
    pub found: Vec<(Violation, Value, u64)>,
    pub wall_s: f64,
    /// A cross-check that decides nothing (e.g. free-running repetitions): reported separately, its
    /// counts are not added to the totals and it does not affect the `exhaustive` flag.
    pub non_deciding: bool,
}

pub struct Ctx {
    pub property: String,
    pub level: String,
    tier: Tier,
    seed: i64,
    replay: Option<ReplayReq>,
    replay_custom: Option<(String, Value)>,
    replay_outcome: Option<Outcome>,
    harnesses: Vec<Value>,
    evaluations: u64,
    distinct: u64,
    states: u64,
    transitions: u64,
    exhaustive: bool,
    caps: Vec<String>,
    samples: Vec<Value>,
    assumptions: Vec<String>,
    rule: String,
    extra: BTreeMap<String, Value>,
    violations: Vec<(String, String, Violation, Value, u64)>, // harness, full fp, violation, replay payload, count
    t0: Instant,
}

pub fn glob_match(pat: &str, s: &str) -> bool {
    // '*' matches any (possibly empty) sequence
    let parts: Vec<&str> = pat.split('*').collect();
    if parts.len() == 1 {
        return pat == s;
    }
    let mut pos = 0usize;
    for (i, part) in parts.iter().enumerate() {
        if part.is_empty() {
            continue;
        }
        if i == 0 {
            if !s.starts_with(part) {
                return false;
            }
            pos = part.len();
        } else if i == parts.len() - 1 {
            if s.len() < pos + part.len() || !s[pos..].ends_with(part) {
                return false;
            }
            pos = s.len();
        } else {
            match s[pos..].find(part) {
                Some(j) => pos += j + part.len(),
                None => return false,
            }
        }
    }
    true
}

fn load_open(property: &str) -> Vec<OpenFinding> {
    let path = verif_root().join("known_findings.json");
    let Ok(text) = std::fs::read_to_string(&path) else {
        return Vec::new();
    };
    let v: Value = match serde_json::from_str(&text) {
        Ok(v) => v,
        Err(e) => explore::machinery(format!("known_findings.json is not valid JSON: {e}")),
    };
    let mut out = Vec::new();
    for e in v["open"].as_array().cloned().unwrap_or_default() {
        if e["property"].as_str() != Some(property) {
            continue;
        }
        out.push(OpenFinding {
            property: property.to_string(),
            id: e["id"].as_str().unwrap_or("?").to_string(),
            pattern: e["fingerprint"].as_str().unwrap_or("").to_string(),
            what: e["what"].as_str().unwrap_or("").to_string(),
        });
    }
    out
}

impl Ctx {
    pub fn tier(&self) -> Tier {
        self.tier
    }
    pub fn quick(&self) -> bool {
        self.tier == Tier::Quick
    }
    pub fn thorough(&self) -> bool {
        self.tier == Tier::Thorough
    }
    pub fn seed(&self) -> i64 {
        self.seed
    }
    /// `q` in the quick tier, `t` in the thorough tier.
    pub fn by_tier<T>(&self, q: T, t: T) -> T {
        if self.quick() { q } else { t }
    }
    pub fn assume(&mut self, s: impl Into<String>) {
        self.assumptions.push(s.into());
    }
    pub fn rule(&mut self, s: impl Into<String>) {
        if !self.rule.is_empty() {
            self.rule.push_str(" | ");
        }
        self.rule.push_str(&s.into());
    }
    pub fn extra(&mut self, k: &str, v: Value) {
        self.extra.insert(k.to_string(), v);
    }
    pub fn is_replay(&self) -> bool {
        self.replay.is_some() || self.replay_custom.is_some()
    }

    /// Runs (or, in replay mode, replays) an E1 harness.
    pub fn harness<F>(&mut self, cfg: Config, body: F)
    where
        F: Fn(&Chooser) -> Outcome + Sync,
    {
        if self.is_replay() {
            if let Some(r) = &self.replay {
                if r.harness == cfg.name && r.index.is_none() {
                    let (o, d) = explore::replay(&body, &r.choices);
                    if let Some(d) = d {
                        println!("replayed execution: {d}");
                    }
                    self.replay_outcome = Some(o);
                }
            }
            return;
        }
        eprintln!("[{}] harness {} bound {} ...", self.property, cfg.name, cfg.bound);
        let st = explore::explore(&cfg, body);
        eprintln!(
            "[{}] harness {}: {} executions, {} distinct logs, {} states, {} transitions, points/exec {}..{}, {} violation classes, {:.1}s{}",
            self.property,
            st.name,
            st.executions,
            st.distinct_logs,
            st.states,
            st.transitions,
            st.min_points,
            st.max_points,
            st.found.len(),
            st.wall_s,
            st.capped
                .as_ref()
                .map(|c| format!(" CAPPED({c})"))
                .unwrap_or_default()
        );
        self.absorb(st);
    }

    fn absorb(&mut self, st: Stats) {
        // vacuity guard — but never in front of a verdict: when executions fail (possibly all of them, before
        // anything was observed) the violations are what has to be reported
        if st.executions > 1 && st.distinct_logs < 2 && st.found.is_empty() {
            explore::machinery(format!(
                "harness {}: {} executions produced {} distinct observation logs (vacuous)",
                st.name, st.executions, st.distinct_logs
            ));
        }
        self.evaluations += st.executions;
        self.distinct += st.distinct_logs;
        self.states += st.states;
        self.transitions += st.transitions;
        if let Some(c) = &st.capped {
            self.exhaustive = false;
            self.caps.push(format!("{}: {c}", st.name));
        }
        for s in st.samples.iter().take(3) {
            if self.samples.len() < 24 {
                self.samples.push(json!({"harness": st.name, "case": s}));
            }
        }
        let labels: BTreeMap<String, Value> = st
            .label_hits
            .iter()
            .map(|(k, v)| (k.to_string(), json!({"hits": v.0, "non_default": v.1})))
            .collect();
        let tags: BTreeMap<String, Value> =
            st.tags.iter().map(|(k, v)| (k.to_string(), json!(v))).collect();
        self.harnesses.push(json!({
            "harness": st.name,
            "engine": "E1 choice-tree exploration (prefix-replay DFS)",
            "bound_completed": if st.capped.is_none() { json!(st.bound) } else { Value::Null },
            "bound_requested": st.bound,
            "executions": st.executions,
            "executions_by_cost": st.cost_hist,
            "choice_points_total": st.points_total,
            "choice_points_per_execution": [st.min_points, st.max_points],
            "distinct_observation_logs": st.distinct_logs,
            "states": st.states,
            "transitions": st.transitions,
            "labels": labels,
            "paths_exercised": tags,
            "violation_classes": st.found.len(),
            "capped": st.capped,
            "wall_s": st.wall_s,
        }));
        for f in st.found {
            let fp = format!("{} harness={} {}", self.property, st.name, f.violation.fingerprint);
            let choices: Vec<Value> = f
                .choices
                .iter()
                .map(|p| json!({"label": p.label, "arity": p.arity, "taken": p.taken}))
                .collect();
            let payload = json!({"choices": choices, "cost": f.cost});
            self.violations
                .push((st.name.clone(), fp, f.violation, payload, f.count));
        }
    }

    /// Runs (or replays) an E3 complete sweep over `0..n`.
    pub fn sweep<F>(&mut self, name: &str, n: u64, describe: impl Fn(u64) -> String, f: F) -> u64
    where
        F: Fn(u64) -> Outcome + Sync,
    {
        self.sweep_limited(name, n, None, describe, f)
    }

    pub fn sweep_limited<F>(
        &mut self,
        name: &str,
        n: u64,
        limit: Option<std::time::Duration>,
        describe: impl Fn(u64) -> String,
        f: F,
    ) -> u64
    where
        F: Fn(u64) -> Outcome + Sync,
    {
        if self.is_replay() {
            if let Some(r) = &self.replay {
                if r.harness == name {
                    if let Some(i) = r.index {
                        println!("replayed case {i}: {}", describe(i));
                        let o = match explore::catch(|| f(i)) {
                            Ok(o) => o,
                            Err((msg, file)) => Err(Violation::new(
                                format!(
                                    "outcome=panic msg={} file={}",
                                    explore::normalise_msg(&msg),
                                    file
                                ),
                                "",
                                "no panic",
                                format!("panic: {msg} in {file}"),
                            )),
                        };
                        self.replay_outcome = Some(o);
                    }
                }
            }
            return 0;
        }
        eprintln!("[{}] sweep {} over {} cases ...", self.property, name, n);
        let st: SweepStats = explore::sweep(name, n, explore::default_threads(), limit, f);
        eprintln!(
            "[{}] sweep {}: {} cases, {} violation classes, {:.1}s{}",
            self.property,
            name,
            st.cases,
            st.found.len(),
            st.wall_s,
            st.capped
                .as_ref()
                .map(|c| format!(" CAPPED({c})"))
                .unwrap_or_default()
        );
        self.evaluations += st.cases;
        self.transitions += st.cases;
        if let Some(c) = &st.capped {
            self.exhaustive = false;
            self.caps.push(format!("{name}: {c}"));
        }
        if n > 0 {
            for i in [0, n / 2, n - 1] {
                if self.samples.len() < 24 {
                    self.samples
                        .push(json!({"harness": name, "case": describe(i)}));
                }
            }
        }
        self.harnesses.push(json!({
            "harness": name,
            "engine": "E3 complete sweep",
            "cases": st.cases,
            "domain_size": n,
            "violation_classes": st.found.len(),
            "capped": st.capped,
            "wall_s": st.wall_s,
        }));
        let cases = st.cases;
        for (mut v, idx, count) in st.found {
            if v.decoded.is_empty() {
                v.decoded = describe(idx);
            } else {
                v.decoded = format!("{} | smallest failing case: {}", v.decoded, describe(idx));
            }
            let fp = format!("{} harness={} {}", self.property, name, v.fingerprint);
            self.violations
                .push((name.to_string(), fp, v, json!({"index": idx}), count));
        }
        cases
    }

    /// Adds distinct / state counts measured by the harness itself (sweeps have no logs).
    pub fn add_distinct(&mut self, distinct: u64, states: u64) {
        self.distinct += distinct;
        self.states += states;
    }

    /// In replay mode returns the custom payload recorded for `name`, if the replay targets it.
    pub fn custom_replay(&self, name: &str) -> Option<Value> {
        match &self.replay_custom {
            Some((n, v)) if n == name => Some(v.clone()),
            _ => None,
        }
    }

    pub fn set_replay_outcome(&mut self, o: Outcome) {
        self.replay_outcome = Some(o);
    }

    /// Records the result of a bespoke engine.
    pub fn custom(&mut self, c: Custom) {
        eprintln!(
            "[{}] {}: {} evaluations, {} distinct, {} states, {} transitions, {} violation classes, {:.1}s{}",
            self.property,
            c.name,
            c.evaluations,
            c.distinct,
            c.states,
            c.transitions,
            c.found.len(),
            c.wall_s,
            c.capped
                .as_ref()
                .map(|c| format!(" CAPPED({c})"))
                .unwrap_or_default()
        );
        if !c.non_deciding {
            self.evaluations += c.evaluations;
            self.distinct += c.distinct;
            self.states += c.states;
            self.transitions += c.transitions;
        }
        if !c.non_deciding && (!c.exhaustive || c.capped.is_some()) {
            self.exhaustive = false;
            if let Some(cap) = &c.capped {
                self.caps.push(format!("{}: {cap}", c.name));
            }
        }
        for s in c.samples.iter().take(3) {
            if self.samples.len() < 24 {
                self.samples.push(json!({"harness": c.name, "case": s}));
            }
        }
        let mut h = json!({
            "harness": c.name,
            "evaluations": c.evaluations,
            "distinct": c.distinct,
            "states": c.states,
            "transitions": c.transitions,
            "exhaustive": c.exhaustive,
            "non_deciding_cross_check": c.non_deciding,
            "capped": c.capped,
            "violation_classes": c.found.len(),
            "wall_s": c.wall_s,
        });
        for (k, v) in c.extra {
            h[k] = v;
        }
        self.harnesses.push(h);
        for (v, payload, count) in c.found {
            let fp = format!("{} harness={} {}", self.property, c.name, v.fingerprint);
            self.violations
                .push((c.name.clone(), fp, v, json!({"custom": payload}), count));
        }
    }
}

fn fnv(s: &str) -> u64 {
    let mut h: u64 = 0xcbf29ce484222325;
    for b in s.bytes() {
        h ^= b as u64;
        h = h.wrapping_mul(0x100000001b3);
    }
    h
}

/// Entry point of every check binary.
pub fn run(property: &str, level: &str, f: impl FnOnce(&mut Ctx)) -> ! {
    explore::install_panic_hook();
    let args: Vec<String> = std::env::args().collect();
    let mut tier = match std::env::var("VERIF_TIER").as_deref() {
        Ok("thorough") => Tier::Thorough,
        _ => Tier::Quick,
    };
    let mut replay = None;
    let mut replay_custom = None;
    let mut i = 1;
    while i < args.len() {
        match args[i].as_str() {
            "quick" => tier = Tier::Quick,
            "thorough" => tier = Tier::Thorough,
            "--replay" => {
                i += 1;
                let path = args.get(i).cloned().unwrap_or_default();
                let text = std::fs::read_to_string(&path).unwrap_or_else(|e| {
                    eprintln!("MACHINERY-ERROR cannot read replay file {path}: {e}");
                    std::process::exit(2)
                });
                let v: Value = serde_json::from_str(&text).unwrap_or_else(|e| {
                    eprintln!("MACHINERY-ERROR bad replay file {path}: {e}");
                    std::process::exit(2)
                });
                if v["tier"].as_str() == Some("thorough") {
                    tier = Tier::Thorough;
                }
                let harness = v["harness"].as_str().unwrap_or("").to_string();
                if !v["custom"].is_null() {
                    replay_custom = Some((harness, v["custom"].clone()));
                } else {
                    let choices = v["choices"]
                        .as_array()
                        .map(|a| {
                            a.iter()
                                .map(|c| c["taken"].as_u64().unwrap_or(0) as u32)
                                .collect()
                        })
                        .unwrap_or_default();
                    replay = Some(ReplayReq {
                        harness,
                        choices,
                        index: v["index"].as_u64(),
                    });
                }
            }
            other => {
                eprintln!("MACHINERY-ERROR unknown argument {other}");
                std::process::exit(2);
            }
        }
        i += 1;
    }
    let seed = std::env::var("VERIF_SEED")
        .ok()
        .and_then(|s| s.parse().ok())
        .unwrap_or(0);
    let mut ctx = Ctx {
        property: property.to_string(),
        level: level.to_string(),
        tier,
        seed,
        replay,
        replay_custom,
        replay_outcome: None,
        harnesses: Vec::new(),
        evaluations: 0,
        distinct: 0,
        states: 0,
        transitions: 0,
        exhaustive: true,
        caps: Vec::new(),
        samples: Vec::new(),
        assumptions: Vec::new(),
        rule: String::new(),
        extra: BTreeMap::new(),
        violations: Vec::new(),
        t0: Instant::now(),
    };

    // an execution that never returns is a verdict (hang), not a stuck check
    {
        let prop = property.to_string();
        let tier_s = if tier == Tier::Quick { "quick" } else { "thorough" };
        let replaying = ctx.is_replay();
        explore::set_hang_hook(Box::new(move |harness, prefix, secs| {
            if replaying {
                println!("REPLAY property={prop} outcome=fail fingerprint={prop} harness={harness} outcome=hang");
                std::process::exit(1);
            }
            let fp = format!("{prop} harness={harness} outcome=hang (one execution did not return within the per-execution limit)");
            let dir = verif_root().join("replays").join(&prop);
            let _ = std::fs::create_dir_all(&dir);
            let path = dir.join(format!("{harness}-hang-{:016x}.json", fnv(&format!("{prefix:?}"))));
            let choices: Vec<Value> = prefix.iter().map(|p| json!({"label": p.label, "arity": p.arity, "taken": p.taken})).collect();
            let file = json!({"property": prop, "harness": harness, "tier": tier_s, "fingerprint": fp, "choices": choices,
                "decoded": "the execution selected by these choices did not return", "expected": "every call returns", "observed": format!("still running after {secs} s")});
            let _ = std::fs::write(&path, serde_json::to_string_pretty(&file).unwrap());
            println!("VIOLATION property={prop} replay={}", path.display());
            println!("  fingerprint: {fp}");
            println!("  observed: one execution still running after {secs} s (hang in the code under test, or a livelock)");
            std::process::exit(1);
        }));
    }

    let r = std::panic::catch_unwind(std::panic::AssertUnwindSafe(|| f(&mut ctx)));
    if let Err(p) = r {
        let msg = if let Some(m) = p.downcast_ref::<MachineryError>() {
            m.0.clone()
        } else {
            explore::take_last_panic().unwrap_or_else(|| "harness panicked outside an execution".into())
        };
        println!("MACHINERY-ERROR property={property} {msg}");
        eprintln!("MACHINERY-ERROR property={property} {msg}");
        std::process::exit(2);
    }

    if ctx.is_replay() {
        match ctx.replay_outcome {
            None => {
                println!("MACHINERY-ERROR property={property} replay file names an unknown harness");
                std::process::exit(2);
            }
            Some(Ok(())) => {
                println!("REPLAY property={property} outcome=pass");
                std::process::exit(0);
            }
            Some(Err(v)) => {
                println!(
                    "REPLAY property={property} outcome=fail fingerprint={}\n  decoded:  {}\n  expected: {}\n  observed: {}",
                    v.fingerprint, v.decoded, v.expected, v.observed
                );
                std::process::exit(1);
            }
        }
    }

    // triage against the committed known-findings file
    let open = load_open(property);
    let root = verif_root();
    let mut n_unlisted = 0;
    let mut known_lines: BTreeMap<String, (String, u64)> = BTreeMap::new();
    let mut viol_json = Vec::new();
    for (harness, fp, v, payload, count) in &ctx.violations {
        if let Some(o) = open.iter().find(|o| glob_match(&o.pattern, fp)) {
            let e = known_lines
                .entry(o.id.clone())
                .or_insert((o.what.clone(), 0));
            e.1 += count;
            viol_json.push(json!({"fingerprint": fp, "known_finding": o.id, "count": count, "property": o.property}));
            continue;
        }
        n_unlisted += 1;
        let dir = root.join("replays").join(property);
        let _ = std::fs::create_dir_all(&dir);
        let path = dir.join(format!("{harness}-{:016x}.json", fnv(fp)));
        let mut file = json!({
            "property": property,
            "harness": harness,
            "tier": if tier == Tier::Quick { "quick" } else { "thorough" },
            "fingerprint": fp,
            "decoded": v.decoded,
            "expected": v.expected,
            "observed": v.observed,
            "count_in_run": count,
        });
        if let Some(o) = payload.as_object() {
            for (k, val) in o {
                file[k] = val.clone();
            }
        }
        let _ = std::fs::write(&path, serde_json::to_string_pretty(&file).unwrap());
        println!("VIOLATION property={property} replay={}", path.display());
        println!("  fingerprint: {fp}");
        println!("  decoded:  {}", truncate(&v.decoded, 600));
        println!("  expected: {}", truncate(&v.expected, 400));
        println!("  observed: {}", truncate(&v.observed, 400));
        viol_json.push(json!({"fingerprint": fp, "replay": path.display().to_string(), "count": count}));
    }
    for (id, (what, count)) in &known_lines {
        println!("KNOWN-FINDING: property={property} {id} {what} (observed in {count} executions)");
    }

    if ctx.evaluations == 0 {
        println!("MACHINERY-ERROR property={property} nothing was explored");
        std::process::exit(2);
    }

    let mut coverage = json!({
        "evaluations": ctx.evaluations,
        "distinct_nontrivial": ctx.distinct,
        "rule": ctx.rule,
        "samples": ctx.samples,
        "states": ctx.states.max(1),
        "transitions": ctx.transitions.max(1),
        "traces_validated_against_impl": ctx.evaluations,
        "exhaustive": ctx.exhaustive,
        "caps_hit": ctx.caps,
        "harnesses": ctx.harnesses,
        "violations": viol_json,
        "known_findings_observed": known_lines.keys().collect::<Vec<_>>(),
    });
    for (k, v) in &ctx.extra {
        coverage[k] = v.clone();
    }
    let evidence = json!({
        "property_id": property,
        "tier": if tier == Tier::Quick { "quick" } else { "thorough" },
        "seed": seed,
        "level": level,
        "coverage": coverage,
        "assumptions": ctx.assumptions,
        "wall_s": ctx.t0.elapsed().as_secs_f64(),
        "violations": n_unlisted,
    });
    let dir = root.join("evidence");
    let _ = std::fs::create_dir_all(&dir);
    let path = dir.join(format!("{property}.json"));
    if let Err(e) = std::fs::write(&path, serde_json::to_string_pretty(&evidence).unwrap()) {
        println!("MACHINERY-ERROR property={property} cannot write evidence: {e}");
        std::process::exit(2);
    }
    println!(
        "RESULT property={property} tier={} evaluations={} distinct={} states={} transitions={} exhaustive={} unlisted_violations={} known_findings={} wall={:.1}s",
        if tier == Tier::Quick { "quick" } else { "thorough" },
        ctx.evaluations,
        ctx.distinct,
        ctx.states,
        ctx.transitions,
        ctx.exhaustive,
        n_unlisted,
        known_lines.len(),
        ctx.t0.elapsed().as_secs_f64()
    );
    std::process::exit(if n_unlisted > 0 { 1 } else { 0 });
}

fn truncate(s: &str, n: usize) -> String {
    if s.len() <= n {
        s.to_string()
    } else {
        let mut end = n;
        while !s.is_char_boundary(end) {
            end -= 1;
        }
        format!("{}… ({} bytes)", &s[..end], s.len())
    }
}
