//! E1: choice-tree exploration by prefix replay (stateless model checking).
//!
//! A harness body is a closure that asks a [`Chooser`] for every nondeterministic decision. The
//! explorer enumerates every choice sequence whose cost stays within the bound. Choice 0 is always
//! the default and is free.

use std::{
    collections::{BTreeMap, HashSet},
    hash::{Hash, Hasher},
    panic::{self, AssertUnwindSafe},
    sync::{Arc, Condvar, Mutex},
    time::{Duration, Instant},
};

/// Cost class of a choice point.
#[derive(Clone, Copy, Debug, PartialEq, Eq, Hash)]
pub enum Class {
    /// Enumerated completely; never costs anything.
    Free,
    /// Any non-default choice costs 1.
    Dev,
    /// A non-default choice costs 1 iff the running thread was still enabled (a preemption).
    Preempt,
    /// Choosing the i-th alternative costs i (delay bounding).
    Delay,
}

/// One executed choice point.
#[derive(Clone, Debug)]
pub struct Point {
    pub label: &'static str,
    pub arity: u32,
    pub taken: u32,
    pub class: Class,
    pub running_enabled: bool,
}

impl Point {
    pub fn cost_of(&self, taken: u32) -> u32 {
        match self.class {
            Class::Free => 0,
            Class::Dev => (taken != 0) as u32,
            Class::Preempt => (taken != 0 && self.running_enabled) as u32,
            Class::Delay => taken,
        }
    }
    pub fn cost(&self) -> u32 {
        self.cost_of(self.taken)
    }
}

/// An element of a replay prefix.
#[derive(Clone, Debug)]
pub struct Pre {
    pub taken: u32,
    pub arity: u32,
    pub label: String,
}

/// Raised (as a panic payload) when the machinery itself is at fault; never a verdict.
#[derive(Debug)]
pub struct MachineryError(pub String);

/// Panic payload used by the controlled runtime to unwind parked threads of an aborted execution
/// (deadlock / horizon). Ignored by the panic hook.
#[derive(Debug)]
pub struct Abort;

pub fn machinery(msg: impl Into<String>) -> ! {
    panic::panic_any(MachineryError(msg.into()))
}

struct Inner {
    prefix: Vec<Pre>,
    strict: bool,
    trace: Vec<Point>,
    log: std::collections::hash_map::DefaultHasher,
    log_len: u64,
    steps: u64,
    states: Vec<u64>,
    want_desc: bool,
    desc: Option<String>,
    tags: Vec<&'static str>,
}

/// Handle through which a harness body takes every nondeterministic decision.
#[derive(Clone)]
pub struct Chooser(Arc<Mutex<Inner>>);

impl Chooser {
    fn new(prefix: Vec<Pre>, strict: bool, want_desc: bool) -> Self {
        Self(Arc::new(Mutex::new(Inner {
            prefix,
            strict,
            trace: Vec::new(),
            log: Default::default(),
            log_len: 0,
            steps: 0,
            states: Vec::new(),
            want_desc,
            desc: None,
            tags: Vec::new(),
        })))
    }

    /// A detached chooser that always answers 0 (for running harness bodies outside the explorer).
    pub fn defaults() -> Self {
        Self::new(Vec::new(), false, false)
    }

    /// A chooser replaying the given raw choices, then defaults.
    pub fn replaying(choices: &[u32]) -> Self {
        Self::new(
            choices
                .iter()
                .map(|&t| Pre {
                    taken: t,
                    arity: 0,
                    label: String::new(),
                })
                .collect(),
            false,
            true,
        )
    }

    pub fn choose_full(
        &self,
        label: &'static str,
        arity: usize,
        class: Class,
        running_enabled: bool,
    ) -> usize {
        assert!(arity >= 1, "choice point {label} with arity 0");
        let mut g = self.0.lock().unwrap_or_else(|e| e.into_inner());
        let i = g.trace.len();
        let taken = if i < g.prefix.len() {
            let p = &g.prefix[i];
            if g.strict && (p.arity != arity as u32 || p.label != label) {
                let msg = format!(
                    "replay divergence at point {i}: recorded {}/{} now {}/{}",
                    p.label, p.arity, label, arity
                );
                drop(g);
                machinery(msg);
            }
            if p.taken as usize >= arity {
                let msg = format!(
                    "replay out of range at point {i} ({label}): {} >= {arity}",
                    p.taken
                );
                drop(g);
                machinery(msg);
            }
            p.taken
        } else {
            0
        };
        g.trace.push(Point {
            label,
            arity: arity as u32,
            taken,
            class,
            running_enabled,
        });
        taken as usize
    }

    /// Completely enumerated choice.
    pub fn free(&self, label: &'static str, arity: usize) -> usize {
        self.choose_full(label, arity, Class::Free, false)
    }

    /// Deviation-bounded choice (0 = default).
    pub fn dev(&self, label: &'static str, arity: usize) -> usize {
        self.choose_full(label, arity, Class::Dev, false)
    }

    pub fn pick<'a, T>(&self, label: &'static str, xs: &'a [T]) -> &'a T {
        &xs[self.dev(label, xs.len())]
    }

    pub fn pick_free<'a, T>(&self, label: &'static str, xs: &'a [T]) -> &'a T {
        &xs[self.free(label, xs.len())]
    }

    /// Appends to this execution's observation log (only its hash is kept).
    pub fn obs(&self, bytes: impl AsRef<[u8]>) {
        let mut g = self.0.lock().unwrap_or_else(|e| e.into_inner());
        let b = bytes.as_ref();
        b.len().hash(&mut g.log);
        b.hash(&mut g.log);
        g.log_len += 1;
    }

    pub fn obs_hash(&self, h: impl Hash) {
        let mut g = self.0.lock().unwrap_or_else(|e| e.into_inner());
        h.hash(&mut g.log);
        g.log_len += 1;
    }

    /// Registers a (canonical) state reached; one transition is counted per registration.
    pub fn state(&self, h: impl Hash) {
        let mut s = std::collections::hash_map::DefaultHasher::new();
        h.hash(&mut s);
        let mut g = self.0.lock().unwrap_or_else(|e| e.into_inner());
        g.states.push(s.finish());
        g.steps += 1;
    }

    /// Counts transitions executed against the implementation without registering states.
    pub fn steps(&self, n: u64) {
        self.0.lock().unwrap_or_else(|e| e.into_inner()).steps += n;
    }

    /// Marks that a named path/feature was exercised (vacuity guard, counted per label).
    pub fn tag(&self, t: &'static str) {
        self.0
            .lock()
            .unwrap_or_else(|e| e.into_inner())
            .tags
            .push(t);
    }

    pub fn want_desc(&self) -> bool {
        self.0.lock().unwrap_or_else(|e| e.into_inner()).want_desc
    }

    /// Human readable description of this execution (evaluated only for sampled executions).
    pub fn desc(&self, f: impl FnOnce() -> String) {
        if self.want_desc() {
            let s = f();
            self.0.lock().unwrap_or_else(|e| e.into_inner()).desc = Some(s);
        }
    }

    pub fn trace(&self) -> Vec<Point> {
        self.0.lock().unwrap_or_else(|e| e.into_inner()).trace.clone()
    }

    pub fn depth(&self) -> usize {
        self.0.lock().unwrap_or_else(|e| e.into_inner()).trace.len()
    }
}

/// A property violation found in one execution.
#[derive(Clone, Debug)]
pub struct Violation {
    /// Normalised, line-number-free `key=value` description used for known-finding matching.
    pub fingerprint: String,
    pub decoded: String,
    pub expected: String,
    pub observed: String,
}

impl Violation {
    pub fn new(
        fingerprint: impl Into<String>,
        decoded: impl Into<String>,
        expected: impl Into<String>,
        observed: impl Into<String>,
    ) -> Self {
        Self {
            fingerprint: fingerprint.into(),
            decoded: decoded.into(),
            expected: expected.into(),
            observed: observed.into(),
        }
    }
}

pub type Outcome = Result<(), Violation>;

#[derive(Clone, Debug)]
pub struct Config {
    pub name: String,
    pub bound: u32,
    pub max_execs: Option<u64>,
    pub time_limit: Option<Duration>,
    pub threads: usize,
    /// Stop a fingerprint class after this many hits were recorded (the count goes on).
    pub keep_per_fingerprint: usize,
}

impl Config {
    pub fn new(name: impl Into<String>, bound: u32) -> Self {
        Self {
            name: name.into(),
            bound,
            max_execs: None,
            time_limit: None,
            threads: default_threads(),
            keep_per_fingerprint: 1,
        }
    }
    pub fn threads(mut self, n: usize) -> Self {
        self.threads = n.max(1);
        self
    }
    pub fn max_execs(mut self, n: u64) -> Self {
        self.max_execs = Some(n);
        self
    }
    pub fn time_limit(mut self, d: Duration) -> Self {
        self.time_limit = Some(d);
        self
    }
}

pub fn default_threads() -> usize {
    std::env::var("VERIF_THREADS")
        .ok()
        .and_then(|s| s.parse().ok())
        .unwrap_or_else(|| {
            std::thread::available_parallelism()
                .map(|n| n.get())
                .unwrap_or(4)
                .min(16)
        })
}

#[derive(Clone, Debug)]
pub struct Found {
    pub violation: Violation,
    pub choices: Vec<Point>,
    pub cost: u32,
    pub count: u64,
}

#[derive(Clone, Debug, Default)]
pub struct Stats {
    pub name: String,
    pub bound: u32,
    pub executions: u64,
    pub points_total: u64,
    pub min_points: u64,
    pub max_points: u64,
    pub cost_hist: Vec<u64>,
    pub distinct_logs: u64,
    pub states: u64,
    pub transitions: u64,
    pub label_hits: BTreeMap<&'static str, (u64, u64)>,
    pub tags: BTreeMap<&'static str, u64>,
    pub found: Vec<Found>,
    pub capped: Option<String>,
    pub samples: Vec<String>,
    pub wall_s: f64,
}

struct Shared {
    stack: Vec<Vec<Pre>>,
    in_flight: usize,
    stop: bool,
}

struct Acc {
    stats: Stats,
    logs: HashSet<u64>,
    states: HashSet<u64>,
    found: BTreeMap<String, Found>,
}

thread_local! {
    static LAST_PANIC: std::cell::RefCell<Option<String>> = const { std::cell::RefCell::new(None) };
}

static HOOK: std::sync::Once = std::sync::Once::new();

/// Installs a quiet panic hook that records message and source file (no line numbers).
pub fn install_panic_hook() {
    HOOK.call_once(|| {
        panic::set_hook(Box::new(|info| {
            if info.payload().downcast_ref::<Abort>().is_some() {
                return;
            }
            let msg = if let Some(s) = info.payload().downcast_ref::<&str>() {
                s.to_string()
            } else if let Some(s) = info.payload().downcast_ref::<String>() {
                s.clone()
            } else if let Some(m) = info.payload().downcast_ref::<MachineryError>() {
                format!("MACHINERY: {}", m.0)
            } else {
                "<non-string panic>".to_string()
            };
            let loc = info
                .location()
                .map(|l| format!("{}:{}", l.file(), l.line()))
                .unwrap_or_default();
            if std::env::var_os("VERIF_PANIC_TRACE").is_some() {
                eprintln!("[panic] {msg} at {loc}");
            }
            LAST_PANIC.with(|p| *p.borrow_mut() = Some(format!("{msg} @ {loc}")));
        }));
    });
}

pub fn take_last_panic() -> Option<String> {
    LAST_PANIC.with(|p| p.borrow_mut().take())
}

/// Strips numbers so that a panic message can be used in a fingerprint.
pub fn normalise_msg(s: &str) -> String {
    let mut out = String::new();
    let mut last_digit = false;
    for c in s.chars() {
        if c.is_ascii_digit() {
            if !last_digit {
                out.push('N');
            }
            last_digit = true;
        } else {
            last_digit = false;
            out.push(if c.is_whitespace() { '_' } else { c });
        }
    }
    out.truncate(160);
    out
}

/// Source path relative to the noodles tree (so fingerprints are the same in scratch worktrees).
pub fn norm_file(file: &str) -> String {
    if let Some(i) = file.find("/noodles-") {
        return file[i + 1..].to_string();
    }
    if let Some(i) = file.find("/noodles/") {
        return file[i + 1..].to_string();
    }
    file.strip_prefix("/repo/").unwrap_or(file).to_string()
}

/// Runs `f` and turns a panic into `Err((message, file))`.
pub fn catch<T>(f: impl FnOnce() -> T) -> Result<T, (String, String)> {
    install_panic_hook();
    let _ = take_last_panic();
    match panic::catch_unwind(AssertUnwindSafe(f)) {
        Ok(v) => Ok(v),
        Err(payload) => {
            if payload.downcast_ref::<MachineryError>().is_some() {
                panic::resume_unwind(payload);
            }
            let s = take_last_panic().unwrap_or_else(|| "<unknown panic>".into());
            let (msg, loc) = match s.rsplit_once(" @ ") {
                Some((m, l)) => (m.to_string(), l.to_string()),
                None => (s, String::new()),
            };
            let file = loc.rsplit_once(':').map(|x| x.0).unwrap_or(&loc).to_string();
            Err((msg, norm_file(&file)))
        }
    }
}

/// Called (once) by the watchdog when one execution runs longer than the per-execution limit: gets the
/// harness name and the choice prefix of the stuck execution. Installed by `report::run`; expected not
/// to return (it reports a violation and exits the process).
pub type HangHook = Box<dyn Fn(&str, &[Pre], u64) + Send + Sync>;

static HANG_HOOK: Mutex<Option<HangHook>> = Mutex::new(None);

pub fn set_hang_hook(h: HangHook) {
    *HANG_HOOK.lock().unwrap_or_else(|e| e.into_inner()) = Some(h);
}

/// Per-execution wall limit in seconds (`VERIF_EXEC_TIMEOUT`, default 180; 0 disables the watchdog).
pub fn exec_timeout_s() -> u64 {
    std::env::var("VERIF_EXEC_TIMEOUT").ok().and_then(|s| s.parse().ok()).unwrap_or(180)
}

struct RunResult {
    trace: Vec<Point>,
    log: u64,
    states: Vec<u64>,
    steps: u64,
    desc: Option<String>,
    tags: Vec<&'static str>,
    outcome: Outcome,
}

fn run_one<F>(body: &F, prefix: Vec<Pre>, strict: bool, want_desc: bool) -> RunResult
where
    F: Fn(&Chooser) -> Outcome + Sync,
{
    let ch = Chooser::new(prefix, strict, want_desc);
    let outcome = match catch(|| body(&ch)) {
        Ok(o) => o,
        Err((msg, file)) => Err(Violation::new(
            format!("outcome=panic msg={} file={}", normalise_msg(&msg), file),
            String::new(),
            "no panic",
            format!("panic: {msg} in {file}"),
        )),
    };
    let mut g = ch.0.lock().unwrap_or_else(|e| e.into_inner());
    if g.want_desc && g.desc.is_none() {
        // no description from the harness: render the choice list itself
        let mut s = String::from("choices:");
        for p in g.trace.iter().take(64) {
            s.push_str(&format!(" {}={}/{}", p.label, p.taken, p.arity));
        }
        if g.trace.len() > 64 {
            s.push_str(&format!(" …(+{})", g.trace.len() - 64));
        }
        g.desc = Some(s);
    }
    RunResult {
        trace: std::mem::take(&mut g.trace),
        log: g.log.finish() ^ g.log_len,
        states: std::mem::take(&mut g.states),
        steps: g.steps,
        desc: g.desc.take(),
        tags: std::mem::take(&mut g.tags),
        outcome,
    }
}

fn to_prefix(points: &[Point]) -> Vec<Pre> {
    points
        .iter()
        .map(|p| Pre {
            taken: p.taken,
            arity: p.arity,
            label: p.label.to_string(),
        })
        .collect()
}

/// Explores every choice sequence of `body` whose cost is `<= cfg.bound`.
pub fn explore<F>(cfg: &Config, body: F) -> Stats
where
    F: Fn(&Chooser) -> Outcome + Sync,
{
    install_panic_hook();
    let t0 = Instant::now();

    // Determinism guard on the empty prefix.
    {
        let a = run_one(&body, Vec::new(), true, false);
        let b = run_one(&body, Vec::new(), true, false);
        let ta: Vec<_> = a.trace.iter().map(|p| (p.label, p.arity)).collect();
        let tb: Vec<_> = b.trace.iter().map(|p| (p.label, p.arity)).collect();
        if ta != tb || a.log != b.log || a.outcome.is_ok() != b.outcome.is_ok() {
            machinery(format!(
                "harness {} is not deterministic on the empty prefix",
                cfg.name
            ));
        }
    }

    let shared = Mutex::new(Shared {
        stack: vec![Vec::new()],
        in_flight: 0,
        stop: false,
    });
    let cv = Condvar::new();
    let acc = Mutex::new(Acc {
        stats: Stats {
            name: cfg.name.clone(),
            bound: cfg.bound,
            min_points: u64::MAX,
            ..Default::default()
        },
        logs: HashSet::new(),
        states: HashSet::new(),
        found: BTreeMap::new(),
    });
    let deadline = cfg.time_limit.map(|d| t0 + d);
    let slots: Vec<Mutex<Option<(Instant, Vec<Pre>)>>> = (0..cfg.threads).map(|_| Mutex::new(None)).collect();
    let finished = std::sync::atomic::AtomicBool::new(false);
    let next_slot = std::sync::atomic::AtomicUsize::new(0);
    let limit = exec_timeout_s();

    std::thread::scope(|scope| {
        if limit > 0 {
            // watchdog: an execution that never returns (a hang in the code under test) must become a
            // verdict, not a stuck check
            scope.spawn(|| {
                while !finished.load(std::sync::atomic::Ordering::SeqCst) {
                    std::thread::sleep(Duration::from_millis(500));
                    for s in &slots {
                        let stuck = {
                            let g = s.lock().unwrap_or_else(|e| e.into_inner());
                            match &*g {
                                Some((t, p)) if t.elapsed().as_secs() >= limit => Some((p.clone(), t.elapsed().as_secs())),
                                _ => None,
                            }
                        };
                        if let Some((prefix, secs)) = stuck {
                            if let Some(h) = HANG_HOOK.lock().unwrap_or_else(|e| e.into_inner()).as_ref() {
                                h(&cfg.name, &prefix, secs);
                            }
                        }
                    }
                }
            });
        }
        let mut handles = Vec::new();
        for _ in 0..cfg.threads {
            handles.push(scope.spawn(|| {
                let my_slot = next_slot.fetch_add(1, std::sync::atomic::Ordering::SeqCst);
                loop {
                    let prefix = {
                        let mut g = shared.lock().unwrap();
                        loop {
                            if g.stop {
                                return;
                            }
                            if let Some(p) = g.stack.pop() {
                                g.in_flight += 1;
                                break p;
                            }
                            if g.in_flight == 0 {
                                cv.notify_all();
                                return;
                            }
                            g = cv.wait(g).unwrap();
                        }
                    };
                    let plen = prefix.len();
                    let n_before = acc.lock().unwrap().stats.executions;
                    let want_desc = n_before < 3 || (n_before & (n_before - 1)) == 0;
                    *slots[my_slot].lock().unwrap_or_else(|e| e.into_inner()) = Some((Instant::now(), prefix.clone()));
                    let r = run_one(&body, prefix, true, want_desc);
                    *slots[my_slot].lock().unwrap_or_else(|e| e.into_inner()) = None;
                    if r.trace.len() < plen {
                        machinery(format!(
                            "harness {}: execution shorter than its replay prefix ({} < {plen})",
                            cfg.name,
                            r.trace.len()
                        ));
                    }

                    // children
                    let mut children = Vec::new();
                    let mut cost_before = 0u32;
                    for (i, p) in r.trace.iter().enumerate() {
                        if i >= plen {
                            for alt in 1..p.arity {
                                if cost_before + p.cost_of(alt) <= cfg.bound {
                                    let mut c = to_prefix(&r.trace[..i]);
                                    c.push(Pre {
                                        taken: alt,
                                        arity: p.arity,
                                        label: p.label.to_string(),
                                    });
                                    children.push(c);
                                }
                            }
                        }
                        cost_before += p.cost();
                    }
                    let total_cost = cost_before;

                    let mut capped = None;
                    {
                        let mut a = acc.lock().unwrap();
                        a.stats.executions += 1;
                        let n = r.trace.len() as u64;
                        a.stats.points_total += n;
                        a.stats.min_points = a.stats.min_points.min(n);
                        a.stats.max_points = a.stats.max_points.max(n);
                        if a.stats.cost_hist.len() <= total_cost as usize {
                            a.stats.cost_hist.resize(total_cost as usize + 1, 0);
                        }
                        a.stats.cost_hist[total_cost as usize] += 1;
                        a.logs.insert(r.log);
                        a.stats.transitions += r.steps;
                        for s in &r.states {
                            a.states.insert(*s);
                        }
                        for p in &r.trace {
                            let e = a.stats.label_hits.entry(p.label).or_insert((0, 0));
                            e.0 += 1;
                            if p.taken != 0 {
                                e.1 += 1;
                            }
                        }
                        for t in &r.tags {
                            *a.stats.tags.entry(t).or_insert(0) += 1;
                        }
                        if let Some(d) = r.desc {
                            if a.stats.samples.len() < 6 {
                                a.stats.samples.push(d);
                            } else {
                                let l = a.stats.samples.len();
                                a.stats.samples[l - 1] = d;
                            }
                        }
                        if let Err(v) = r.outcome {
                            let e = a.found.entry(v.fingerprint.clone());
                            match e {
                                std::collections::btree_map::Entry::Vacant(e) => {
                                    e.insert(Found {
                                        violation: v,
                                        choices: r.trace.clone(),
                                        cost: total_cost,
                                        count: 1,
                                    });
                                }
                                std::collections::btree_map::Entry::Occupied(mut e) => {
                                    let f = e.get_mut();
                                    f.count += 1;
                                    if (total_cost, r.trace.len()) < (f.cost, f.choices.len()) {
                                        f.violation = v;
                                        f.choices = r.trace.clone();
                                        f.cost = total_cost;
                                    }
                                }
                            }
                        }
                        if let Some(m) = cfg.max_execs {
                            if a.stats.executions >= m {
                                capped = Some(format!("max_execs={m}"));
                            }
                        }
                        if let Some(d) = deadline {
                            if Instant::now() >= d {
                                capped = Some(format!(
                                    "time_limit={}s",
                                    cfg.time_limit.unwrap().as_secs()
                                ));
                            }
                        }
                        if capped.is_some() && a.stats.capped.is_none() {
                            a.stats.capped = capped.clone();
                        }
                    }

                    let mut g = shared.lock().unwrap();
                    g.in_flight -= 1;
                    if capped.is_some() {
                        if !g.stack.is_empty() || !children.is_empty() {
                            g.stop = true;
                        } else if g.in_flight == 0 {
                            // finished exactly at the cap: not actually capped
                        }
                    }
                    // push in reverse so that the simplest alternative is explored first
                    for c in children.into_iter().rev() {
                        g.stack.push(c);
                    }
                    cv.notify_all();
                }
            }));
        }
        for h in handles {
            if let Err(p) = h.join() {
                finished.store(true, std::sync::atomic::Ordering::SeqCst);
                panic::resume_unwind(p);
            }
        }
        finished.store(true, std::sync::atomic::Ordering::SeqCst);
    });

    let sh = shared.into_inner().unwrap();
    let mut a = acc.into_inner().unwrap();
    if !sh.stop {
        a.stats.capped = None;
    }
    a.stats.distinct_logs = a.logs.len() as u64;
    a.stats.states = a.states.len() as u64;
    if a.stats.transitions == 0 {
        a.stats.transitions = a.stats.points_total;
    }
    if a.stats.states == 0 {
        a.stats.states = a.stats.distinct_logs;
    }
    if a.stats.min_points == u64::MAX {
        a.stats.min_points = 0;
    }

    // every failing execution is replayed twice before it is reported
    let mut found: Vec<Found> = a.found.into_values().collect();
    for f in &found {
        for _ in 0..2 {
            let r = run_one(&body, to_prefix(&f.choices), true, true);
            match r.outcome {
                Err(v) if v.fingerprint == f.violation.fingerprint => {}
                other => machinery(format!(
                    "harness {}: failure {} did not reproduce on replay (got {:?})",
                    cfg.name,
                    f.violation.fingerprint,
                    other.err().map(|v| v.fingerprint)
                )),
            }
        }
    }
    found.sort_by_key(|f| (f.cost, f.choices.len()));
    a.stats.found = found;
    a.stats.wall_s = t0.elapsed().as_secs_f64();
    a.stats
}

/// Re-executes one recorded choice list (no exploration).
pub fn replay<F>(body: F, choices: &[u32]) -> (Outcome, Option<String>)
where
    F: Fn(&Chooser) -> Outcome + Sync,
{
    install_panic_hook();
    let prefix = choices
        .iter()
        .map(|&t| Pre {
            taken: t,
            arity: 0,
            label: String::new(),
        })
        .collect();
    let r = run_one(&body, prefix, false, true);
    (r.outcome, r.desc)
}

/// E3: complete parallel sweep over `0..n` (a single unbounded free choice).
pub struct SweepStats {
    pub name: String,
    pub cases: u64,
    pub found: Vec<(Violation, u64, u64)>, // violation, first index, count
    pub capped: Option<String>,
    pub wall_s: f64,
}

pub fn sweep<F>(name: &str, n: u64, threads: usize, time_limit: Option<Duration>, f: F) -> SweepStats
where
    F: Fn(u64) -> Outcome + Sync,
{
    install_panic_hook();
    let t0 = Instant::now();
    let next = std::sync::atomic::AtomicU64::new(0);
    let done = std::sync::atomic::AtomicU64::new(0);
    let found: Mutex<BTreeMap<String, (Violation, u64, u64)>> = Mutex::new(BTreeMap::new());
    let capped = Mutex::new(None);
    let chunk = (n / (threads as u64 * 64)).clamp(1, 1 << 16);
    std::thread::scope(|s| {
        for _ in 0..threads.max(1) {
            s.spawn(|| {
                loop {
                    let start = next.fetch_add(chunk, std::sync::atomic::Ordering::Relaxed);
                    if start >= n {
                        return;
                    }
                    if let Some(l) = time_limit {
                        if t0.elapsed() > l {
                            *capped.lock().unwrap() = Some(format!("time_limit={}s", l.as_secs()));
                            return;
                        }
                    }
                    let end = (start + chunk).min(n);
                    for i in start..end {
                        let o = match catch(|| f(i)) {
                            Ok(o) => o,
                            Err((msg, file)) => Err(Violation::new(
                                format!("outcome=panic msg={} file={}", normalise_msg(&msg), file),
                                format!("case {i}"),
                                "no panic",
                                format!("panic: {msg} in {file}"),
                            )),
                        };
                        if let Err(v) = o {
                            let mut g = found.lock().unwrap();
                            let e = g.entry(v.fingerprint.clone()).or_insert((v, i, 0));
                            e.2 += 1;
                            if i < e.1 {
                                e.1 = i;
                            }
                        }
                    }
                    done.fetch_add(end - start, std::sync::atomic::Ordering::Relaxed);
                }
            });
        }
    });
    SweepStats {
        name: name.to_string(),
        cases: done.into_inner(),
        found: found.into_inner().unwrap().into_values().collect(),
        capped: capped.into_inner().unwrap(),
        wall_s: t0.elapsed().as_secs_f64(),
    }
}
