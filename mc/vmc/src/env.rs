//! Environment adversaries: byte sources and sinks whose behaviour is decided by the explorer.

use std::{
    io::{self, BufRead, Read, Seek, SeekFrom, Write},
    sync::{Arc, Mutex},
};

use crate::explore::Chooser;

pub const MARKER: &str = "vmc-injected-fault";

pub fn injected(kind: io::ErrorKind) -> io::Error {
    io::Error::new(kind, MARKER)
}

/// True if `e` (or anything in its source chain) is the injected fault.
pub fn is_injected(e: &(dyn std::error::Error + 'static)) -> bool {
    let mut cur: Option<&(dyn std::error::Error + 'static)> = Some(e);
    let mut depth = 0;
    while let Some(c) = cur {
        if c.to_string().contains(MARKER) {
            return true;
        }
        if let Some(ioe) = c.downcast_ref::<io::Error>() {
            if let Some(inner) = ioe.get_ref() {
                if inner.to_string().contains(MARKER) {
                    return true;
                }
            }
        }
        cur = c.source();
        depth += 1;
        if depth > 16 {
            break;
        }
    }
    false
}

/// How a [`ChunkReader`] decides transfer sizes.
#[derive(Clone, Debug)]
pub enum ReadMode {
    /// Every call delivers as much as fits.
    Full,
    /// Ask the chooser at every call (deviation class).
    Choose,
    /// One byte per call.
    OneByte,
    /// `Interrupted` before every successful call.
    InterruptEvery,
    /// Alternating 1 byte, Interrupted, 2 bytes, 3 bytes …
    Irregular,
    /// Sizes cycle through the list (0 = Interrupted).
    Pattern(Vec<usize>),
    /// Call number `k` (0-based) deviates with menu entry `alt` (as in Choose); all others full.
    DeviateAt(u64, usize),
}

/// A `Read + Seek` source over a byte slice with controlled short reads.
pub struct ChunkReader {
    data: Arc<Vec<u8>>,
    pos: usize,
    ch: Option<Chooser>,
    mode: ReadMode,
    /// Structural boundary offsets (sorted) supplied by the corpus builder.
    boundaries: Arc<Vec<usize>>,
    calls: u64,
    last_interrupted: bool,
    /// Sizes delivered (0 = Interrupted), shared so the harness can inspect it.
    pub log: Arc<Mutex<Vec<usize>>>,
    fail_at: Option<(usize, io::ErrorKind)>,
}

impl ChunkReader {
    pub fn new(data: Arc<Vec<u8>>, mode: ReadMode, ch: Option<Chooser>) -> Self {
        Self {
            data,
            pos: 0,
            ch,
            mode,
            boundaries: Arc::new(Vec::new()),
            calls: 0,
            last_interrupted: false,
            log: Arc::new(Mutex::new(Vec::new())),
            fail_at: None,
        }
    }

    pub fn with_boundaries(mut self, b: Arc<Vec<usize>>) -> Self {
        self.boundaries = b;
        self
    }

    /// Reads reaching byte offset `off` fail with the injected fault (delivering bytes before it).
    pub fn fail_at_offset(mut self, off: usize, kind: io::ErrorKind) -> Self {
        self.fail_at = Some((off, kind));
        self
    }

    pub fn calls(&self) -> u64 {
        self.calls
    }

    /// The menu for a transfer of at most `n >= 1` bytes from `self.pos`; entry 0 is the default.
    /// `None` stands for `Interrupted`.
    fn menu(&self, n: usize) -> Vec<Option<usize>> {
        let mut m: Vec<Option<usize>> = vec![Some(n)];
        let push = |k: usize, m: &mut Vec<Option<usize>>| {
            if k >= 1 && k <= n && !m.contains(&Some(k)) {
                m.push(Some(k));
            }
        };
        push(1, &mut m);
        // next structural boundary strictly after pos
        let i = self.boundaries.partition_point(|&b| b <= self.pos);
        if let Some(&b) = self.boundaries.get(i) {
            let d = b - self.pos;
            push(d, &mut m);
            push(d + 1, &mut m);
            if d > 1 {
                push(d - 1, &mut m);
            }
        }
        push(n / 2, &mut m);
        if !self.last_interrupted {
            m.push(None);
        }
        m
    }
}

impl Read for ChunkReader {
    fn read(&mut self, buf: &mut [u8]) -> io::Result<usize> {
        let mut avail = self.data.len() - self.pos.min(self.data.len());
        if let Some((off, kind)) = self.fail_at {
            if self.pos >= off {
                return Err(injected(kind));
            }
            avail = avail.min(off - self.pos);
        }
        let n = avail.min(buf.len());
        if n == 0 {
            return Ok(0);
        }
        let k = self.calls;
        self.calls += 1;
        let decision: Option<usize> = match &self.mode {
            ReadMode::Full => Some(n),
            ReadMode::OneByte => Some(1),
            ReadMode::InterruptEvery => {
                if self.last_interrupted {
                    Some(n)
                } else {
                    None
                }
            }
            ReadMode::Irregular => match k % 5 {
                0 => Some(1),
                1 => None,
                2 => Some(2.min(n)),
                3 => Some(3.min(n)),
                _ => Some(7.min(n)),
            },
            ReadMode::Pattern(p) => {
                let s = p[(k as usize) % p.len()];
                if s == 0 {
                    if self.last_interrupted { Some(1) } else { None }
                } else {
                    Some(s.min(n))
                }
            }
            ReadMode::Choose => {
                let m = self.menu(n);
                let ch = self.ch.as_ref().expect("ChunkReader in Choose mode needs a chooser");
                m[ch.dev("env.read", m.len())]
            }
            ReadMode::DeviateAt(at, alt) => {
                if k == *at {
                    let m = self.menu(n);
                    m[(*alt).min(m.len() - 1)]
                } else {
                    Some(n)
                }
            }
        };
        match decision {
            None => {
                self.last_interrupted = true;
                self.log.lock().unwrap().push(0);
                Err(io::Error::from(io::ErrorKind::Interrupted))
            }
            Some(k) => {
                self.last_interrupted = false;
                buf[..k].copy_from_slice(&self.data[self.pos..self.pos + k]);
                self.pos += k;
                self.log.lock().unwrap().push(k);
                Ok(k)
            }
        }
    }
}

impl Seek for ChunkReader {
    fn seek(&mut self, pos: SeekFrom) -> io::Result<u64> {
        let new = match pos {
            SeekFrom::Start(n) => n as i128,
            SeekFrom::End(d) => self.data.len() as i128 + d as i128,
            SeekFrom::Current(d) => self.pos as i128 + d as i128,
        };
        if new < 0 {
            return Err(io::Error::new(io::ErrorKind::InvalidInput, "seek before start"));
        }
        self.pos = new as usize;
        Ok(self.pos as u64)
    }
}

/// A `BufRead` whose `fill_buf` window sizes are controlled (no intermediate copy).
pub struct ChunkBufRead {
    data: Arc<Vec<u8>>,
    pos: usize,
    window_end: usize,
    ch: Option<Chooser>,
    mode: ReadMode,
    boundaries: Arc<Vec<usize>>,
    calls: u64,
}

impl ChunkBufRead {
    pub fn new(data: Arc<Vec<u8>>, mode: ReadMode, ch: Option<Chooser>) -> Self {
        Self {
            data,
            pos: 0,
            window_end: 0,
            ch,
            mode,
            boundaries: Arc::new(Vec::new()),
            calls: 0,
        }
    }
    pub fn with_boundaries(mut self, b: Arc<Vec<usize>>) -> Self {
        self.boundaries = b;
        self
    }
    fn menu(&self, n: usize) -> Vec<usize> {
        let mut m = vec![n];
        let push = |k: usize, m: &mut Vec<usize>| {
            if k >= 1 && k <= n && !m.contains(&k) {
                m.push(k);
            }
        };
        push(1, &mut m);
        let i = self.boundaries.partition_point(|&b| b <= self.pos);
        if let Some(&b) = self.boundaries.get(i) {
            let d = b - self.pos;
            push(d, &mut m);
            push(d + 1, &mut m);
            if d > 1 {
                push(d - 1, &mut m);
            }
        }
        push(2, &mut m);
        m
    }
}

impl Read for ChunkBufRead {
    fn read(&mut self, buf: &mut [u8]) -> io::Result<usize> {
        let src = self.fill_buf()?;
        let n = src.len().min(buf.len());
        buf[..n].copy_from_slice(&src[..n]);
        self.consume(n);
        Ok(n)
    }
}

impl BufRead for ChunkBufRead {
    fn fill_buf(&mut self) -> io::Result<&[u8]> {
        if self.pos >= self.window_end {
            let n = self.data.len() - self.pos;
            if n > 0 {
                let k = self.calls;
                self.calls += 1;
                let w = match &self.mode {
                    ReadMode::Full => n,
                    ReadMode::OneByte => 1,
                    ReadMode::Irregular => [1usize, 2, 3, 7, 5][(k % 5) as usize].min(n),
                    ReadMode::Pattern(p) => p[(k as usize) % p.len()].clamp(1, n),
                    ReadMode::InterruptEvery => n,
                    ReadMode::Choose => {
                        let m = self.menu(n);
                        let ch = self.ch.as_ref().expect("chooser");
                        m[ch.dev("env.fill_buf", m.len())]
                    }
                    ReadMode::DeviateAt(at, alt) => {
                        if k == *at {
                            let m = self.menu(n);
                            m[(*alt).min(m.len() - 1)]
                        } else {
                            n
                        }
                    }
                };
                self.window_end = self.pos + w;
            }
        }
        Ok(&self.data[self.pos..self.window_end.max(self.pos)])
    }

    fn consume(&mut self, amt: usize) {
        self.pos = (self.pos + amt).min(self.window_end);
    }
}

/// What a sink does at one call.
#[derive(Clone, Copy, Debug, PartialEq, Eq)]
pub enum SinkAct {
    All,
    One,
    Half,
    Interrupted,
    Fail(io::ErrorKind),
}

#[derive(Clone, Debug)]
pub enum SinkMode {
    /// Accept everything.
    Plain,
    /// Ask the chooser at every call.
    Choose,
    /// Ask the chooser at every call whether it fails (no short writes).
    ChooseFail,
    /// Call number k (write and flush calls counted together) fails with the kind.
    FailAt(u64, io::ErrorKind),
    /// Call number k returns Interrupted once.
    InterruptAt(u64),
    /// Every write accepts one byte.
    OneByte,
    /// Every write accepts half (at least 1).
    Half,
    /// Alternating 1 byte / Interrupted / all.
    Alternating,
}

#[derive(Default, Debug)]
pub struct SinkState {
    pub bytes: Vec<u8>,
    pub calls: u64,
    pub write_calls: u64,
    pub flush_calls: u64,
    /// The call index at which the fault was injected, if it was.
    pub faulted_at: Option<u64>,
    pub last_interrupted: bool,
}

/// A `Write` sink whose acceptance behaviour is controlled; state is shared so the harness keeps
/// access after the writer took ownership.
#[derive(Clone)]
pub struct FaultSink {
    pub state: Arc<Mutex<SinkState>>,
    mode: SinkMode,
    ch: Option<Chooser>,
    /// After a fault, keep failing (a broken pipe stays broken).
    sticky: bool,
    /// Error kinds offered by `ChooseFail` (default: `Other`).
    kinds: Vec<io::ErrorKind>,
}

impl FaultSink {
    pub fn new(mode: SinkMode, ch: Option<Chooser>) -> Self {
        Self {
            state: Arc::new(Mutex::new(SinkState::default())),
            mode,
            ch,
            sticky: true,
            kinds: vec![io::ErrorKind::Other],
        }
    }
    /// Error kinds `ChooseFail` chooses among (one menu entry each).
    pub fn with_kinds(mut self, kinds: Vec<io::ErrorKind>) -> Self {
        assert!(!kinds.is_empty());
        self.kinds = kinds;
        self
    }
    pub fn plain() -> Self {
        Self::new(SinkMode::Plain, None)
    }
    pub fn not_sticky(mut self) -> Self {
        self.sticky = false;
        self
    }
    pub fn is_sticky(&self) -> bool {
        self.sticky
    }
    pub fn bytes(&self) -> Vec<u8> {
        self.state.lock().unwrap().bytes.clone()
    }
    pub fn calls(&self) -> u64 {
        self.state.lock().unwrap().calls
    }
    pub fn faulted_at(&self) -> Option<u64> {
        self.state.lock().unwrap().faulted_at
    }

    fn decide(&self, st: &mut SinkState, is_flush: bool, n: usize) -> SinkAct {
        if self.sticky {
            if let Some(_) = st.faulted_at {
                return SinkAct::Fail(io::ErrorKind::BrokenPipe);
            }
        }
        let k = st.calls;
        match &self.mode {
            SinkMode::Plain => SinkAct::All,
            SinkMode::FailAt(at, kind) => {
                if k == *at {
                    SinkAct::Fail(*kind)
                } else {
                    SinkAct::All
                }
            }
            SinkMode::InterruptAt(at) => {
                if k == *at {
                    SinkAct::Interrupted
                } else {
                    SinkAct::All
                }
            }
            SinkMode::OneByte => SinkAct::One,
            SinkMode::Half => SinkAct::Half,
            SinkMode::Alternating => match k % 3 {
                0 => SinkAct::One,
                1 => {
                    if st.last_interrupted {
                        SinkAct::All
                    } else {
                        SinkAct::Interrupted
                    }
                }
                _ => SinkAct::All,
            },
            SinkMode::ChooseFail => {
                let ch = self.ch.as_ref().expect("chooser");
                match ch.dev(if is_flush { "env.flush" } else { "env.write" }, 1 + self.kinds.len()) {
                    0 => SinkAct::All,
                    k => SinkAct::Fail(self.kinds[k - 1]),
                }
            }
            SinkMode::Choose => {
                let ch = self.ch.as_ref().expect("chooser");
                if is_flush {
                    match ch.dev("env.flush", 2) {
                        0 => SinkAct::All,
                        _ => SinkAct::Fail(io::ErrorKind::Other),
                    }
                } else {
                    let mut menu = vec![SinkAct::All];
                    if n > 1 {
                        menu.push(SinkAct::One);
                    }
                    if n > 3 {
                        menu.push(SinkAct::Half);
                    }
                    if !st.last_interrupted {
                        menu.push(SinkAct::Interrupted);
                    }
                    menu.push(SinkAct::Fail(io::ErrorKind::Other));
                    menu[ch.dev("env.write", menu.len())]
                }
            }
        }
    }
}

impl Write for FaultSink {
    fn write(&mut self, buf: &[u8]) -> io::Result<usize> {
        if buf.is_empty() {
            return Ok(0);
        }
        let mut st = self.state.lock().unwrap();
        let act = self.decide(&mut st, false, buf.len());
        let k = st.calls;
        st.calls += 1;
        st.write_calls += 1;
        let was_interrupted = st.last_interrupted;
        st.last_interrupted = false;
        let _ = was_interrupted;
        match act {
            SinkAct::All => {
                st.bytes.extend_from_slice(buf);
                Ok(buf.len())
            }
            SinkAct::One => {
                st.bytes.push(buf[0]);
                Ok(1)
            }
            SinkAct::Half => {
                let n = (buf.len() / 2).max(1);
                st.bytes.extend_from_slice(&buf[..n]);
                Ok(n)
            }
            SinkAct::Interrupted => {
                st.last_interrupted = true;
                Err(io::Error::from(io::ErrorKind::Interrupted))
            }
            SinkAct::Fail(kind) => {
                if st.faulted_at.is_none() {
                    st.faulted_at = Some(k);
                }
                Err(injected(kind))
            }
        }
    }

    fn flush(&mut self) -> io::Result<()> {
        let mut st = self.state.lock().unwrap();
        let act = self.decide(&mut st, true, 0);
        let k = st.calls;
        st.calls += 1;
        st.flush_calls += 1;
        st.last_interrupted = false;
        match act {
            SinkAct::Fail(kind) => {
                if st.faulted_at.is_none() {
                    st.faulted_at = Some(k);
                }
                Err(injected(kind))
            }
            SinkAct::Interrupted => {
                st.last_interrupted = true;
                Err(io::Error::from(io::ErrorKind::Interrupted))
            }
            _ => Ok(()),
        }
    }
}
