//! vmc: bounded exhaustive exploration of the real noodles code.

pub mod env;
pub mod explore;
pub mod oracle;
pub mod report;

pub use explore::{Chooser, Class, Config, Outcome, Violation, catch, machinery, normalise_msg};
pub use report::{Ctx, Custom, Tier, run};
pub use serde_json::{self, json};

/// Short hex rendering for decoded inputs.
pub fn hex(b: &[u8]) -> String {
    let mut s = String::new();
    for (i, x) in b.iter().enumerate() {
        if i == 48 {
            s.push_str(&format!("…(+{} bytes)", b.len() - 48));
            break;
        }
        s.push_str(&format!("{x:02x}"));
    }
    s
}

/// First index at which two byte strings differ, with lengths.
pub fn diff_bytes(a: &[u8], b: &[u8]) -> String {
    let i = a.iter().zip(b.iter()).position(|(x, y)| x != y).unwrap_or(a.len().min(b.len()));
    format!("len {} vs {}, first difference at {}", a.len(), b.len(), i)
}
