pub mod bgzf;
