//! Independent BGZF walker and block maker (miniz_oxide + crc32fast; no noodles code).
//!
//! Written from SAMv1 §4.1 and RFC 1952.

use miniz_oxide::inflate::{
    TINFLStatus,
    core::{DecompressorOxide, decompress, inflate_flags},
};

/// SAMv1 §4.1.2 end-of-file marker.
pub const EOF: [u8; 28] = [
    0x1f, 0x8b, 0x08, 0x04, 0x00, 0x00, 0x00, 0x00, 0x00, 0xff, 0x06, 0x00, 0x42, 0x43, 0x02, 0x00,
    0x1b, 0x00, 0x03, 0x00, 0x00, 0x00, 0x00, 0x00, 0x00, 0x00, 0x00, 0x00,
];

#[derive(Clone, Debug)]
pub struct Member {
    /// Offset of the member in the file.
    pub offset: usize,
    /// Total member size (BSIZE + 1).
    pub size: usize,
    pub data: Vec<u8>,
    /// The deflate stream consists of stored blocks only.
    pub stored: bool,
}

/// Inflates a raw deflate stream; returns (output, input bytes consumed).
pub fn inflate_raw(src: &[u8], max_out: usize) -> Result<(Vec<u8>, usize), String> {
    let mut d = DecompressorOxide::new();
    let mut out = vec![0u8; max_out + 1];
    let (status, consumed, written) = decompress(
        &mut d,
        src,
        &mut out,
        0,
        inflate_flags::TINFL_FLAG_USING_NON_WRAPPING_OUTPUT_BUF,
    );
    match status {
        TINFLStatus::Done => {
            out.truncate(written);
            Ok((out, consumed))
        }
        s => Err(format!("inflate status {s:?} after {consumed} in / {written} out")),
    }
}

/// Walks a BGZF file member by member, checking every structural rule of SAMv1 §4.1.
pub fn walk(bytes: &[u8]) -> Result<Vec<Member>, String> {
    let mut out = Vec::new();
    let mut p = 0usize;
    while p < bytes.len() {
        let rest = &bytes[p..];
        if rest.len() < 18 {
            return Err(format!("member at {p}: {} trailing bytes, header needs 18", rest.len()));
        }
        if rest[0] != 0x1f || rest[1] != 0x8b {
            return Err(format!("member at {p}: bad gzip magic {:02x} {:02x}", rest[0], rest[1]));
        }
        if rest[2] != 8 {
            return Err(format!("member at {p}: CM={} (want 8)", rest[2]));
        }
        if rest[3] != 4 {
            return Err(format!("member at {p}: FLG={} (want 4 = FEXTRA)", rest[3]));
        }
        let xlen = u16::from_le_bytes([rest[10], rest[11]]) as usize;
        if xlen != 6 {
            return Err(format!("member at {p}: XLEN={xlen} (want 6)"));
        }
        if rest[12] != b'B' || rest[13] != b'C' {
            return Err(format!("member at {p}: extra subfield is not BC"));
        }
        let slen = u16::from_le_bytes([rest[14], rest[15]]);
        if slen != 2 {
            return Err(format!("member at {p}: SLEN={slen} (want 2)"));
        }
        let bsize = u16::from_le_bytes([rest[16], rest[17]]) as usize;
        let size = bsize + 1;
        if size > 65536 {
            return Err(format!("member at {p}: BSIZE+1={size} > 65536"));
        }
        if size < 18 + 8 || rest.len() < size {
            return Err(format!(
                "member at {p}: BSIZE+1={size} but {} bytes remain",
                rest.len()
            ));
        }
        let cdata = &rest[18..size - 8];
        let crc = u32::from_le_bytes(rest[size - 8..size - 4].try_into().unwrap());
        let isize = u32::from_le_bytes(rest[size - 4..size].try_into().unwrap()) as usize;
        if isize > 65536 {
            return Err(format!("member at {p}: ISIZE={isize} > 65536"));
        }
        let (data, consumed) =
            inflate_raw(cdata, 65536).map_err(|e| format!("member at {p}: {e}"))?;
        if consumed != cdata.len() {
            return Err(format!(
                "member at {p}: deflate stream uses {consumed} of {} CDATA bytes (BSIZE is not the member's own length)",
                cdata.len()
            ));
        }
        if data.len() != isize {
            return Err(format!(
                "member at {p}: ISIZE={isize} but inflates to {} bytes",
                data.len()
            ));
        }
        let mut h = crc32fast::Hasher::new();
        h.update(&data);
        let want = h.finalize();
        if want != crc {
            return Err(format!("member at {p}: CRC32 {crc:08x} != computed {want:08x}"));
        }
        let stored = is_stored_only(cdata);
        out.push(Member {
            offset: p,
            size,
            data,
            stored,
        });
        p += size;
    }
    Ok(out)
}

/// True if the deflate stream's first block is a stored block (BTYPE = 00).
fn is_stored_only(cdata: &[u8]) -> bool {
    !cdata.is_empty() && (cdata[0] >> 1) & 3 == 0
}

pub fn ends_with_eof(bytes: &[u8]) -> bool {
    bytes.len() >= 28 && bytes[bytes.len() - 28..] == EOF
}

/// Builds one BGZF member around `payload` (harness-owned block maker).
pub fn make_block(payload: &[u8], level: u8) -> Vec<u8> {
    assert!(payload.len() <= 65536);
    let mut cdata = miniz_oxide::deflate::compress_to_vec(payload, level);
    if 18 + cdata.len() + 8 > 65536 {
        cdata = miniz_oxide::deflate::compress_to_vec(payload, 0);
    }
    if 18 + cdata.len() + 8 > 65536 {
        // stored blocks by hand: 5 bytes overhead per 65535-byte block
        cdata = Vec::new();
        let mut chunks = payload.chunks(65535).peekable();
        while let Some(c) = chunks.next() {
            cdata.push(if chunks.peek().is_none() { 1 } else { 0 });
            cdata.extend_from_slice(&(c.len() as u16).to_le_bytes());
            cdata.extend_from_slice(&(!(c.len() as u16)).to_le_bytes());
            cdata.extend_from_slice(c);
        }
    }
    let size = 18 + cdata.len() + 8;
    assert!(size <= 65536, "block maker: payload does not fit one member");
    let mut out = Vec::with_capacity(size);
    out.extend_from_slice(&[0x1f, 0x8b, 8, 4, 0, 0, 0, 0, 0, 0xff, 6, 0, b'B', b'C', 2, 0]);
    out.extend_from_slice(&((size - 1) as u16).to_le_bytes());
    out.extend_from_slice(&cdata);
    let mut h = crc32fast::Hasher::new();
    h.update(payload);
    out.extend_from_slice(&h.finalize().to_le_bytes());
    out.extend_from_slice(&(payload.len() as u32).to_le_bytes());
    out
}

/// Builds a file from payload blocks; returns (bytes, member start offsets).
pub fn make_file(blocks: &[Vec<u8>], eof: bool, level: u8) -> (Vec<u8>, Vec<usize>) {
    let mut out = Vec::new();
    let mut offs = Vec::new();
    for b in blocks {
        offs.push(out.len());
        out.extend(make_block(b, level));
    }
    if eof {
        out.extend_from_slice(&EOF);
    }
    (out, offs)
}

/// Deterministic payload byte classes; the byte at absolute offset `i` depends on `i` only.
#[derive(Clone, Copy, Debug, PartialEq, Eq)]
pub enum Payload {
    Zeros,
    Text,
    Random,
    RandomThenZeros,
    /// one full BGZF block (65495 bytes) that DEFLATE cannot shrink, then zeros
    RandomBlockThenZeros,
}

pub fn payload_byte(class: Payload, i: u64) -> u8 {
    fn rnd(i: u64) -> u8 {
        let mut x = i.wrapping_mul(0x9e3779b97f4a7c15).wrapping_add(0x2545f4914f6cdd1d);
        x ^= x >> 32;
        x = x.wrapping_mul(0xd6e8feb86659fd93);
        x ^= x >> 29;
        x = x.wrapping_mul(0xd6e8feb86659fd93);
        (x >> 40) as u8
    }
    match class {
        Payload::Zeros => 0,
        Payload::Text => b"ACGTNacgtn \tqwertyuiopasdfghjklzxcvbnm0123456789@=+-*/_.,;:!?#$\n"[(i % 61) as usize],
        Payload::Random => rnd(i),
        Payload::RandomBlockThenZeros => {
            if i < 65495 {
                rnd(i)
            } else {
                0
            }
        }
        Payload::RandomThenZeros => {
            if i % 131072 < 60000 {
                rnd(i)
            } else {
                0
            }
        }
    }
}

pub fn payload(class: Payload, start: u64, len: usize) -> Vec<u8> {
    (0..len as u64).map(|k| payload_byte(class, start + k)).collect()
}
