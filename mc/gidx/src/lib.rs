//! gidx — oracles shared by C04 and C17, written from the specifications only (no noodles code).
//!
//! * [`spec`]  — `reg2bin` / `reg2bins` transcribed from the C code in SAMv1 §5.3 / CSIv1, plus the
//!   bin geometry derived from the same document (level, interval, parent of a bin).
//! * [`span`]  — reference span of an alignment (SAMv1 §1.4: POS + Σ M/D/N/=/X, zero span ⇒ 1) and of
//!   a variant (VCF: `END` before 4.5, else POS + max(len(REF), SVLEN, LEN) − 1).
//! * [`alpha`] — the bin-edge alphabets of DESIGN.md §4 C04/C17, generalised over the geometry.

pub mod spec {
    //! ```c
    //! /* calculate bin given an alignment covering [beg,end) (zero-based, half-close-half-open) */
    //! int reg2bin(int64_t beg, int64_t end, int min_shift, int depth)
    //! {
    //!     int l, s = min_shift, t = ((1<<depth*3) - 1) / 7;
    //!     for (--end, l = depth; l > 0; --l, s += 3, t -= 1<<l*3)
    //!         if (beg>>s == end>>s) return t + (beg>>s);
    //!     return 0;
    //! }
    //! /* calculate the list of bins that may overlap with region [beg,end) (zero-based) */
    //! int reg2bins(int64_t beg, int64_t end, int min_shift, int depth, int *bins)
    //! {
    //!     int l, t, n, s = min_shift + depth*3;
    //!     for (--end, l = n = t = 0; l <= depth; s -= 3, t += 1<<l*3, ++l) {
    //!         int b = t + (beg>>s), e = t + (end>>s), i;
    //!         for (i = b; i <= e; ++i) bins[n++] = i;
    //!     }
    //!     return n;
    //! }
    //! ```

    /// `reg2bin` of the specification; `beg` 0-based inclusive, `end` 0-based exclusive.
    pub fn reg2bin(beg: u64, end: u64, min_shift: u32, depth: u32) -> u64 {
        let mut s = min_shift;
        let mut t: u64 = ((1u64 << (depth * 3)) - 1) / 7;
        let end = end - 1;
        let mut l = depth;
        while l > 0 {
            if beg >> s == end >> s {
                return t + (beg >> s);
            }
            // C: --l, s += 3, t -= 1<<l*3   (l is decremented first)
            l -= 1;
            s += 3;
            t -= 1u64 << (l * 3);
        }
        0
    }

    /// `reg2bins` of the specification as a list of inclusive id ranges, one per level
    /// (`beg` 0-based inclusive, `end` 0-based exclusive).
    pub fn reg2bins_ranges(beg: u64, end: u64, min_shift: u32, depth: u32) -> Vec<(u64, u64)> {
        let mut out = Vec::with_capacity(depth as usize + 1);
        let end = end - 1;
        let mut s = min_shift + depth * 3;
        let mut t: u64 = 0;
        let mut l = 0;
        while l <= depth {
            let b = t + (beg >> s);
            let e = t + (end >> s);
            out.push((b, e));
            // C: s -= 3, t += 1<<l*3, ++l
            s = s.wrapping_sub(3);
            t += 1u64 << (l * 3);
            l += 1;
        }
        out
    }

    pub fn in_ranges(ranges: &[(u64, u64)], id: u64) -> bool {
        ranges.iter().any(|&(b, e)| b <= id && id <= e)
    }

    /// The explicit bin list (only sensible for small geometries).
    pub fn reg2bins(beg: u64, end: u64, min_shift: u32, depth: u32) -> Vec<u64> {
        let mut v = Vec::new();
        for (b, e) in reg2bins_ranges(beg, end, min_shift, depth) {
            for i in b..=e {
                v.push(i);
            }
        }
        v
    }

    /// 1-based closed interval versions.
    pub fn bin_of(start1: u64, end1: u64, min_shift: u32, depth: u32) -> u64 {
        reg2bin(start1 - 1, end1, min_shift, depth)
    }

    pub fn bins_of(start1: u64, end1: u64, min_shift: u32, depth: u32) -> Vec<(u64, u64)> {
        reg2bins_ranges(start1 - 1, end1, min_shift, depth)
    }

    /// Number of bins of a geometry: (8^(depth+1) − 1) / 7; ids are `0..n_bins`.
    pub fn n_bins(depth: u32) -> u64 {
        ((1u64 << (3 * (depth + 1))) - 1) / 7
    }

    /// The metadata pseudo-bin id: `((1 << (3·(depth+1))) − 1)/7 + 1` (37450 for depth 5).
    pub fn metadata_bin(depth: u32) -> u64 {
        n_bins(depth) + 1
    }

    /// One past the largest coordinate: 2^(min_shift + 3·depth).
    pub fn n_positions(min_shift: u32, depth: u32) -> u64 {
        1u64 << (min_shift + 3 * depth)
    }

    /// First id of level `l` (level 0 = the root): (8^l − 1)/7.
    pub fn level_offset(l: u32) -> u64 {
        ((1u64 << (3 * l)) - 1) / 7
    }

    pub fn level_of(bin: u64, depth: u32) -> u32 {
        let mut l = depth;
        loop {
            if bin >= level_offset(l) {
                return l;
            }
            l -= 1;
        }
    }

    /// The 1-based closed interval covered by a bin.
    pub fn bin_interval(bin: u64, min_shift: u32, depth: u32) -> (u64, u64) {
        let l = level_of(bin, depth);
        let i = bin - level_offset(l);
        let s = min_shift + 3 * (depth - l);
        ((i << s) + 1, (i + 1) << s)
    }

    pub fn parent(bin: u64) -> Option<u64> {
        if bin == 0 { None } else { Some((bin - 1) >> 3) }
    }

    /// true iff `a` is `b` or an ancestor of `b`.
    pub fn is_ancestor_or_self(a: u64, b: u64) -> bool {
        let mut x = Some(b);
        while let Some(y) = x {
            if y == a {
                return true;
            }
            x = parent(y);
        }
        false
    }
}

pub mod span {
    /// CIGAR operation kinds in BAM order `MIDNSHP=X`.
    #[derive(Clone, Copy, Debug, PartialEq, Eq, Hash)]
    pub enum Op {
        M,
        I,
        D,
        N,
        S,
        H,
        P,
        Eq,
        X,
    }

    impl Op {
        /// SAMv1 §1.4 table: "consumes reference" is yes for M, D, N, =, X only.
        pub fn consumes_reference(self) -> bool {
            matches!(self, Op::M | Op::D | Op::N | Op::Eq | Op::X)
        }
        pub fn consumes_query(self) -> bool {
            matches!(self, Op::M | Op::I | Op::S | Op::Eq | Op::X)
        }
        pub fn ch(self) -> char {
            match self {
                Op::M => 'M',
                Op::I => 'I',
                Op::D => 'D',
                Op::N => 'N',
                Op::S => 'S',
                Op::H => 'H',
                Op::P => 'P',
                Op::Eq => '=',
                Op::X => 'X',
            }
        }
    }

    /// Sum of the reference-consuming operation lengths.
    pub fn cigar_ref_len(cigar: &[(Op, u64)]) -> u64 {
        cigar.iter().filter(|(op, _)| op.consumes_reference()).map(|&(_, n)| n).sum()
    }

    /// Rightmost reference position (1-based, inclusive) of an alignment placed at `pos`: POS + span − 1,
    /// where a record without reference-consuming operations (no CIGAR, unmapped) occupies one base
    /// (SAMv1 §5.3 reg2bin usage: "for unmapped reads and reads without CIGAR the alignment is treated
    /// as being 1 bp long").
    pub fn sam_end(pos: u64, cigar: &[(Op, u64)]) -> u64 {
        let span = cigar_ref_len(cigar).max(1);
        pos + span - 1
    }

    /// VCF version as (major, minor).
    pub type FileFormat = (u32, u32);

    /// End position (1-based inclusive) of a VCF record.
    ///
    /// * before VCFv4.5: `INFO/END` when present, else POS + len(REF) − 1;
    /// * from VCFv4.5: `INFO/END` is ignored; POS + max(len(REF), max SVLEN, max FORMAT/LEN) − 1
    ///   (the reading fixed in DESIGN.md §4 C04).
    pub fn vcf_end(
        ff: FileFormat,
        pos: u64,
        ref_len: u64,
        info_end: Option<u64>,
        svlens: &[u64],
        lens: &[u64],
    ) -> u64 {
        if ff < (4, 5) {
            match info_end {
                Some(e) => e,
                None => pos + ref_len - 1,
            }
        } else {
            let mut m = ref_len;
            for &v in svlens.iter().chain(lens.iter()) {
                m = m.max(v);
            }
            pos + m - 1
        }
    }
}

pub mod alpha {
    use std::collections::BTreeSet;

    /// Start positions at the bin edges of the geometry. For (14,5) this is exactly the C04 alphabet
    /// {1, 16383, 16384, 16385, 131072, 131073, 2^20, 2^20+1, 2^23+1, 2^26+1, 2^29−2}.
    /// Values are limited to `1..=limit`.
    pub fn starts(min_shift: u32, depth: u32, limit: u64) -> Vec<u64> {
        let l = 1u64 << min_shift;
        let n = 1u64 << (min_shift + 3 * depth);
        let mut s = BTreeSet::new();
        for v in [1, l - 1, l, l + 1, 8 * l, 8 * l + 1, 64 * l, 64 * l + 1, 512 * l + 1, 4096 * l + 1] {
            s.insert(v);
        }
        let mut k = 32768 * l + 1;
        while k < n {
            s.insert(k);
            k *= 8;
        }
        s.insert(n - 2);
        s.into_iter().filter(|&v| v >= 1 && v <= limit && v < n).collect()
    }

    /// Spans; for min_shift 14: {0, 1, 2, 16384, 16385, 131073, 2^20+5}.
    pub fn spans(min_shift: u32) -> Vec<u64> {
        let l = 1u64 << min_shift;
        let mut v = vec![0, 1, 2, l, l + 1, 8 * l + 1, 64 * l + 5];
        v.sort();
        v.dedup();
        v
    }

    /// `base ± radius`, clipped to `1..=max`.
    pub fn widen(base: &[u64], radius: u64, max: u64) -> Vec<u64> {
        let mut s = BTreeSet::new();
        for &b in base {
            for d in 0..=radius {
                if b > d && b - d <= max {
                    s.insert(b - d);
                }
                if b + d >= 1 && b + d <= max {
                    s.insert(b + d);
                }
            }
        }
        s.into_iter().collect()
    }
}

#[cfg(test)]
mod tests {
    use super::*;

    #[test]
    fn spec_examples_bai() {
        // SAMv1 §5.3: 16 kb leaf bins start at 4681.
        assert_eq!(spec::bin_of(1, 1, 14, 5), 4681);
        assert_eq!(spec::bin_of(16384, 16385, 14, 5), 585);
        assert_eq!(spec::bin_of(1, 1 << 29, 14, 5), 0);
        assert_eq!(spec::n_bins(5), 37449);
        assert_eq!(spec::metadata_bin(5), 37450);
        assert_eq!(spec::bin_interval(4681, 14, 5), (1, 16384));
        assert_eq!(spec::bin_interval(0, 14, 5), (1, 1 << 29));
        assert_eq!(spec::bin_interval(1, 14, 5), (1, 1 << 26));
        assert_eq!(spec::bin_interval(4682, 14, 5), (16385, 32768));
        assert_eq!(spec::level_of(37448, 5), 5);
        assert_eq!(spec::parent(4681), Some(585));
    }

    #[test]
    fn alphabets() {
        assert_eq!(
            alpha::starts(14, 5, u64::MAX),
            vec![1, 16383, 16384, 16385, 131072, 131073, 1 << 20, (1 << 20) + 1, (1 << 23) + 1, (1 << 26) + 1, (1 << 29) - 2]
        );
        assert_eq!(alpha::spans(14), vec![0, 1, 2, 16384, 16385, 131073, (1 << 20) + 5]);
        assert_eq!(alpha::starts(3, 2, u64::MAX), vec![1, 7, 8, 9, 64, 65, 510]);
    }

    #[test]
    fn spans() {
        use span::Op::*;
        assert_eq!(span::sam_end(5, &[]), 5);
        assert_eq!(span::sam_end(5, &[(S, 3), (M, 2), (I, 4), (N, 10), (D, 1), (Eq, 1), (X, 1), (H, 9), (P, 2)]), 19);
        assert_eq!(span::vcf_end((4, 3), 10, 2, None, &[], &[]), 11);
        assert_eq!(span::vcf_end((4, 3), 10, 2, Some(50), &[99], &[]), 50);
        assert_eq!(span::vcf_end((4, 5), 10, 2, Some(50), &[7], &[]), 16);
    }
}
