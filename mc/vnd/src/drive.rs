//! Result-log drivers: drive the matching synchronous noodles reader over any `Read` / `BufRead` and
//! render header, every record, virtual positions and the final EOF / error into a `Vec<String>`.
//!
//! Log shape (relied upon by C12 / C13 / C15 / C16): zero or one `header: …` line, then one line per item
//! (`rec[i]: …`, `line[i]: …`, `read[i]: …`, `ref[i]: …`, `container[i]: …`), then exactly one terminal line
//! `end: EOF` or `end: Err(kind=… msg=…)`. Reading stops at the first error of the reader itself; errors of
//! lazy field accessors are rendered inside the item line.

use std::io::{self, BufRead, BufReader, Read};

use noodles_bam as bam;
use noodles_bcf as bcf;
use noodles_bed as bed;
use noodles_bgzf as bgzf;
use noodles_cram as cram;
use noodles_csi as csi;
use noodles_fasta as fasta;
use noodles_fastq as fastq;
use noodles_gff as gff;
use noodles_gtf as gtf;
use noodles_sam as sam;
use noodles_tabix as tabix;
use noodles_vcf as vcf;

use crate::{
    Doc, Format,
    render::{self, Limits, NONTERM, debug_of, end_eof, end_err, esc, render_err, render_vpos},
};

/// Which reader API is driven.
#[derive(Clone, Copy, Debug, PartialEq, Eq, Hash)]
pub enum Api {
    /// `read_record_buf`-style owned records (`records()` / `line_bufs()` / `read_index()`).
    Eager,
    /// Lazy records (`read_record` / `read_line` / `read_container`), every accessor touched.
    Lazy,
    /// A second lazy API where one exists (FASTA `read_definition` + `sequence_reader()`); else = `Lazy`.
    Alt,
}

impl Api {
    pub fn all_for(format: Format) -> &'static [Api] {
        match format {
            Format::Bgzf => &[Api::Eager, Api::Lazy, Api::Alt],
            Format::Fasta => &[Api::Eager, Api::Lazy, Api::Alt],
            Format::Bam | Format::Bcf | Format::Cram | Format::Sam | Format::SamGz | Format::Vcf | Format::VcfGz | Format::Gff | Format::Gtf | Format::Crai => &[Api::Eager, Api::Lazy],
            _ => &[Api::Eager],
        }
    }
}

/// How the payload of a BGZF stream is pulled (Format::Bgzf only).
#[derive(Clone, Copy, Debug, PartialEq, Eq)]
pub enum BgzfRead {
    /// `read` calls with a buffer of the given size.
    Read(usize),
    /// `read_to_end`.
    ReadToEnd,
    /// `fill_buf` / `consume`.
    FillBuf,
    /// `read_exact` calls of the given size (the tail is read with `read`).
    ReadExact(usize),
}

#[derive(Clone, Debug)]
pub struct Opts {
    pub api: Api,
    /// Capacity of the `std::io::BufReader` put around the source (`None`: 8192 where a `BufRead` is
    /// needed, no wrapper otherwise).
    pub capacity: Option<usize>,
    /// Length of the input (caps every loop at `input_len + 1000` items).
    pub input_len: usize,
    /// BAM / BCF: the source is the uncompressed record stream (no BGZF layer).
    pub raw: bool,
    /// Format::Bgzf: how bytes are pulled. `None` = by `api` (Eager: read(4096), Lazy: fill_buf, Alt: read_to_end).
    pub bgzf_read: Option<BgzfRead>,
    /// Number of standard BED fields the reader is instantiated with (3..=6).
    pub bed_n: usize,
    /// Include `Debug` renderings of lazy records.
    pub debug: bool,
    /// Include virtual positions where the reader exposes them.
    pub vpos: bool,
    /// Use a fresh record (buffer) for every record instead of reusing one across the document. The rendering
    /// must not depend on it (see [`reuse_check`]).
    pub fresh: bool,
}

impl Opts {
    pub fn new(input_len: usize) -> Self {
        Self { api: Api::Eager, capacity: None, input_len, raw: false, bgzf_read: None, bed_n: 3, debug: true, vpos: true, fresh: false }
    }
    pub fn for_doc(doc: &Doc) -> Self {
        // the caps count items, and a compressed document legitimately yields more items than it has bytes
        let mut o = Self::new(doc.bytes.len().max(doc.inner.as_ref().map(|i| i.bytes.len()).unwrap_or(0)));
        if doc.format == Format::Bed {
            o.bed_n = if doc.name.starts_with("bed3") { 3 } else { 6 };
        }
        o.raw = doc.raw;
        o
    }
    pub fn api(mut self, api: Api) -> Self {
        self.api = api;
        self
    }
    pub fn capacity(mut self, c: Option<usize>) -> Self {
        self.capacity = c;
        self
    }
    pub fn raw(mut self, raw: bool) -> Self {
        self.raw = raw;
        self
    }
    pub fn len(mut self, n: usize) -> Self {
        self.input_len = n;
        self
    }
    pub fn limits(&self) -> Limits {
        let mut l = Limits::for_input(self.input_len);
        l.debug = self.debug;
        l
    }
    pub fn cap(&self) -> usize {
        self.input_len + 1000
    }
}

/// Drives the sync reader for `format` over any `Read`.
pub fn read_log<R: Read>(format: Format, src: R, opts: &Opts) -> Vec<String> {
    if format.needs_bufread() {
        let r = BufReader::with_capacity(opts.capacity.unwrap_or(8192), src);
        drive_bufread(format, r, opts)
    } else {
        match opts.capacity {
            Some(c) => drive_read(format, BufReader::with_capacity(c, src), opts),
            None => drive_read(format, src, opts),
        }
    }
}

/// Drives the sync reader for `format` over a `BufRead` (no wrapper is added).
pub fn read_log_bufread<R: BufRead>(format: Format, src: R, opts: &Opts) -> Vec<String> {
    if format.needs_bufread() { drive_bufread(format, src, opts) } else { drive_read(format, src, opts) }
}

fn drive_read<R: Read>(format: Format, src: R, o: &Opts) -> Vec<String> {
    match format {
        Format::Bgzf => bgzf_log(src, o),
        Format::Bam => {
            if o.raw {
                bam_log(bam::io::Reader::from(src), o, |_| None)
            } else {
                bam_log(bam::io::Reader::new(src), o, |r| Some(r.get_ref().virtual_position()))
            }
        }
        Format::Bcf => {
            if o.raw {
                bcf_log(bcf::io::Reader::from(src), o, |_| None)
            } else {
                bcf_log(bcf::io::Reader::new(src), o, |r| Some(r.get_ref().virtual_position()))
            }
        }
        Format::Cram => cram_log(src, o),
        Format::SamGz => sam_log(sam::io::Reader::new(bgzf::io::Reader::new(src)), o, |r| Some(r.get_ref().virtual_position())),
        Format::VcfGz => vcf_log(vcf::io::Reader::new(bgzf::io::Reader::new(src)), o, |r| Some(r.get_ref().virtual_position())),
        Format::Bai => {
            let mut r = bam::bai::io::Reader::new(src);
            index_log(r.read_index(), o)
        }
        Format::Csi => {
            let mut r = csi::io::Reader::new(src);
            index_log(r.read_index(), o)
        }
        Format::Tbi => {
            let mut r = tabix::io::Reader::new(src);
            index_log(r.read_index(), o)
        }
        Format::Gzi => {
            let mut r = bgzf::gzi::io::Reader::new(src);
            match r.read_index() {
                Ok(idx) => {
                    let mut log: Vec<String> = idx.as_ref().iter().enumerate().map(|(i, (c, u))| format!("rec[{i}]: compressed={c} uncompressed={u}")).collect();
                    // queries at every entry boundary
                    let mut q = String::from("query:");
                    for (_, u) in idx.as_ref().iter().take(64) {
                        for p in [u.saturating_sub(1), *u] {
                            match idx.query(p) {
                                Ok(v) => q.push_str(&format!(" {p}->{}", render_vpos(v))),
                                Err(e) => q.push_str(&format!(" {p}->{}", render_err(&e))),
                            }
                        }
                    }
                    log.push(q);
                    log.push(end_eof());
                    log
                }
                Err(e) => vec![end_err(&e)],
            }
        }
        Format::Crai => crai_log(src, o),
        _ => unreachable!("format {format} needs a BufRead"),
    }
}

fn drive_bufread<R: BufRead>(format: Format, src: R, o: &Opts) -> Vec<String> {
    match format {
        Format::Sam => sam_log(sam::io::Reader::new(src), o, |_| None),
        Format::Vcf => vcf_log(vcf::io::Reader::new(src), o, |_| None),
        Format::Fasta => fasta_log(src, o),
        Format::FastaIndexer => fasta_indexer_log(src, o),
        Format::Fastq => fastq_log(src, o),
        Format::Gff => gff_log(src, o),
        Format::Gtf => gtf_log(src, o),
        Format::Bed => match o.bed_n {
            3 => bed3_log(src, o),
            _ => bed6_log(src, o),
        },
        Format::Fai => {
            let mut r = fasta::fai::io::Reader::new(src);
            match r.read_index() {
                Ok(idx) => {
                    let mut log: Vec<String> = idx.as_ref().iter().enumerate().map(|(i, r)| format!("rec[{i}]: {}", render_fai_record(r))).collect();
                    log.push(end_eof());
                    log
                }
                Err(e) => vec![end_err(&e)],
            }
        }
        _ => unreachable!("format {format} takes a Read"),
    }
}

/// Reads `bytes` twice — once reusing one record buffer across the whole document, once with a fresh buffer per
/// record — and returns the first differing item `(index, reused, fresh)` if the renderings differ.
pub fn reuse_check(format: Format, bytes: &[u8], opts: &Opts) -> Option<(usize, String, String)> {
    let mut a = opts.clone();
    a.fresh = false;
    let mut b = opts.clone();
    b.fresh = true;
    let la = read_log(format, bytes, &a);
    let lb = read_log(format, bytes, &b);
    if la == lb {
        return None;
    }
    let i = la.iter().zip(lb.iter()).position(|(x, y)| x != y).unwrap_or(la.len().min(lb.len()));
    Some((i, la.get(i).cloned().unwrap_or_else(|| "<nothing>".into()), lb.get(i).cloned().unwrap_or_else(|| "<nothing>".into())))
}

pub(crate) fn nonterm(log: &mut Vec<String>, ty: &str) {
    log.push(format!("end: {NONTERM}{ty}"));
}

// ------------------------------------------------------------------------------------------ BGZF

/// Pulls the whole payload of a BGZF stream; returns (payload, per-call (n, vpos after)), outcome).
/// `Err(None)` = the call cap was exceeded (non-termination).
pub fn bgzf_read_all<R: Read>(src: R, mode: BgzfRead, cap: usize, max_bytes: usize) -> (Vec<u8>, Vec<(usize, bgzf::VirtualPosition)>, Result<(), Option<io::Error>>) {
    thread_local! {
        static SCRATCH: std::cell::RefCell<Vec<u8>> = const { std::cell::RefCell::new(Vec::new()) };
    }
    let mut r = bgzf::io::Reader::new(src);
    let mut out = Vec::new();
    let mut calls = Vec::new();
    let mut n_calls = 0usize;
    macro_rules! guard {
        () => {
            n_calls += 1;
            if n_calls > cap || out.len() > max_bytes {
                return (out, calls, Err(None));
            }
        };
    }
    match mode {
        BgzfRead::ReadToEnd => {
            // read_to_end itself loops; bound it through a `take`
            let mut lim = (&mut r).take(max_bytes as u64 + 1);
            let res = lim.read_to_end(&mut out);
            let vp = r.virtual_position();
            match res {
                Ok(n) => {
                    calls.push((n, vp));
                    if out.len() > max_bytes {
                        return (out, calls, Err(None));
                    }
                    (out, calls, Ok(()))
                }
                Err(e) => (out, calls, Err(Some(e))),
            }
        }
        BgzfRead::Read(size) => {
            let mut buf = SCRATCH.with(|b| std::mem::take(&mut *b.borrow_mut()));
            buf.clear(); // zero-filled for every run: a reader that reports bytes it never wrote exposes zeros, not stale data
            buf.resize(size.max(1), 0);
            struct Back(Vec<u8>);
            impl Drop for Back {
                fn drop(&mut self) {
                    let v = std::mem::take(&mut self.0);
                    SCRATCH.with(|b| *b.borrow_mut() = v);
                }
            }
            let mut back = Back(buf);
            let buf = &mut back.0;
            loop {
                guard!();
                match r.read(&mut buf[..]) {
                    Ok(0) => return (out, calls, Ok(())),
                    Ok(n) => {
                        out.extend_from_slice(&buf[..n]);
                        calls.push((n, r.virtual_position()));
                    }
                    Err(e) if e.kind() == io::ErrorKind::Interrupted => {}
                    Err(e) => return (out, calls, Err(Some(e))),
                }
            }
        }
        BgzfRead::FillBuf => loop {
            guard!();
            match r.fill_buf() {
                Ok(b) if b.is_empty() => return (out, calls, Ok(())),
                Ok(b) => {
                    let n = b.len();
                    out.extend_from_slice(b);
                    r.consume(n);
                    calls.push((n, r.virtual_position()));
                }
                Err(e) if e.kind() == io::ErrorKind::Interrupted => {}
                Err(e) => return (out, calls, Err(Some(e))),
            }
        },
        BgzfRead::ReadExact(size) => {
            let mut buf = vec![0u8; size.max(1)];
            loop {
                guard!();
                match r.read_exact(&mut buf) {
                    Ok(()) => {
                        out.extend_from_slice(&buf);
                        calls.push((buf.len(), r.virtual_position()));
                    }
                    Err(e) if e.kind() == io::ErrorKind::UnexpectedEof => {
                        // the contents of buf are unspecified after a failed read_exact; stop here
                        return (out, calls, Err(Some(e)));
                    }
                    Err(e) => return (out, calls, Err(Some(e))),
                }
            }
        }
    }
}

fn bgzf_log<R: Read>(src: R, o: &Opts) -> Vec<String> {
    let mode = o.bgzf_read.unwrap_or(match o.api {
        Api::Eager => BgzfRead::Read(4096),
        Api::Lazy => BgzfRead::FillBuf,
        Api::Alt => BgzfRead::ReadToEnd,
    });
    let (data, calls, res) = bgzf_read_all(src, mode, o.cap().saturating_mul(4), o.input_len.saturating_mul(1100).saturating_add(1 << 20));
    let mut log = Vec::new();
    let mut p = 0;
    for (i, (n, vp)) in calls.iter().enumerate() {
        let end = (p + n).min(data.len());
        let shown = if *n > 256 { format!("{}…#{:016x}", esc(&data[p..p + 64]), fnv(&data[p..end])) } else { esc(&data[p..end]) };
        log.push(format!("read[{i}]: n={n}{} data={shown}", if o.vpos { format!(" vpos={}", render_vpos(*vp)) } else { String::new() }));
        p = end;
    }
    match res {
        Ok(()) => log.push(end_eof()),
        Err(Some(e)) => log.push(end_err(&e)),
        Err(None) => nonterm(&mut log, "bgzf::io::Reader::read"),
    }
    log
}

pub fn fnv(b: &[u8]) -> u64 {
    let mut h: u64 = 0xcbf29ce484222325;
    for &x in b {
        h ^= x as u64;
        h = h.wrapping_mul(0x100000001b3);
    }
    h
}

// ------------------------------------------------------------------------------------------ alignments

fn vp_suffix(o: &Opts, v: Option<bgzf::VirtualPosition>) -> String {
    match (o.vpos, v) {
        (true, Some(v)) => format!(" @{}", render_vpos(v)),
        _ => String::new(),
    }
}

fn bam_log<R: Read>(mut r: bam::io::Reader<R>, o: &Opts, vp: impl Fn(&bam::io::Reader<R>) -> Option<bgzf::VirtualPosition>) -> Vec<String> {
    let lim = o.limits();
    let mut log = Vec::new();
    let header = match r.read_header() {
        Ok(h) => h,
        Err(e) => return vec![end_err(&e)],
    };
    log.push(format!("{}{}", render::render_sam_header(&header), vp_suffix(o, vp(&r))));
    let mut i = 0usize;
    match o.api {
        Api::Eager => {
            let mut rec = sam::alignment::RecordBuf::default();
            loop {
                if i > o.cap() {
                    nonterm(&mut log, "bam::io::Reader::read_record_buf");
                    return log;
                }
                if o.fresh {
                    rec = Default::default();
                }
                match r.read_record_buf(&header, &mut rec) {
                    Ok(0) => break,
                    Ok(n) => log.push(format!("rec[{i}]: bs={n} {}{}", render::render_alignment_record(&header, &rec, &lim), vp_suffix(o, vp(&r)))),
                    Err(e) => {
                        log.push(end_err(&e));
                        return log;
                    }
                }
                i += 1;
            }
        }
        _ => {
            let mut rec = bam::Record::default();
            loop {
                if i > o.cap() {
                    nonterm(&mut log, "bam::io::Reader::read_record");
                    return log;
                }
                if o.fresh {
                    rec = Default::default();
                }
                if o.fresh {
            rec = Default::default();
        }
        match r.read_record(&mut rec) {
                    Ok(0) => break,
                    Ok(n) => {
                        let line = render::render_alignment_record(&header, &rec, &lim);
                        let dbg = if line.contains(NONTERM) { "skipped".to_string() } else { debug_of(&rec, &lim, "bam::Record") };
                        // inherent accessors not reachable through the trait
                        let extra = format!(
                            " cigar_bytes={} seq_bytes={} qual_bytes={} data_bytes={} split={}",
                            rec.cigar().as_bytes().len(),
                            rec.sequence().as_bytes().len(),
                            rec.quality_scores().as_bytes().len(),
                            rec.data().as_bytes().len(),
                            rec.sequence().split_at_checked(rec.sequence().len() / 2).map(|(a, b)| format!("{}+{}", a.iter().count(), b.iter().count())).unwrap_or_else(|| "none".into()),
                        );
                        log.push(format!("rec[{i}]: bs={n} {line}{extra} debug={}{}", esc(dbg), vp_suffix(o, vp(&r))));
                    }
                    Err(e) => {
                        log.push(end_err(&e));
                        return log;
                    }
                }
                i += 1;
            }
        }
    }
    log.push(end_eof());
    log
}

fn sam_log<R: BufRead>(mut r: sam::io::Reader<R>, o: &Opts, vp: impl Fn(&sam::io::Reader<R>) -> Option<bgzf::VirtualPosition>) -> Vec<String> {
    let lim = o.limits();
    let mut log = Vec::new();
    let header = match r.read_header() {
        Ok(h) => h,
        Err(e) => return vec![end_err(&e)],
    };
    log.push(format!("{}{}", render::render_sam_header(&header), vp_suffix(o, vp(&r))));
    let mut i = 0usize;
    match o.api {
        Api::Eager => {
            let mut rec = sam::alignment::RecordBuf::default();
            loop {
                if i > o.cap() {
                    nonterm(&mut log, "sam::io::Reader::read_record_buf");
                    return log;
                }
                if o.fresh {
                    rec = Default::default();
                }
                match r.read_record_buf(&header, &mut rec) {
                    Ok(0) => break,
                    Ok(n) => log.push(format!("rec[{i}]: n={n} {}{}", render::render_alignment_record(&header, &rec, &lim), vp_suffix(o, vp(&r)))),
                    Err(e) => {
                        log.push(end_err(&e));
                        return log;
                    }
                }
                i += 1;
            }
        }
        _ => {
            let mut rec = sam::Record::default();
            loop {
                if i > o.cap() {
                    nonterm(&mut log, "sam::io::Reader::read_record");
                    return log;
                }
                if o.fresh {
                    rec = Default::default();
                }
                if o.fresh {
            rec = Default::default();
        }
        match r.read_record(&mut rec) {
                    Ok(0) => break,
                    Ok(n) => {
                        let line = render::render_alignment_record(&header, &rec, &lim);
                        let dbg = if line.contains(NONTERM) { "skipped".to_string() } else { debug_of(&rec, &lim, "sam::Record") };
                        let extra = format!(
                            " rname_raw={} mrname_raw={}",
                            rec.reference_sequence_name().map(esc).unwrap_or_else(|| ".".into()),
                            rec.mate_reference_sequence_name().map(esc).unwrap_or_else(|| ".".into())
                        );
                        log.push(format!("rec[{i}]: n={n} {line}{extra} debug={}{}", esc(dbg), vp_suffix(o, vp(&r))));
                    }
                    Err(e) => {
                        log.push(end_err(&e));
                        return log;
                    }
                }
                i += 1;
            }
        }
    }
    log.push(end_eof());
    log
}

fn cram_log<R: Read>(src: R, o: &Opts) -> Vec<String> {
    let lim = o.limits();
    let repo = crate::records::repository();
    let mut r = cram::io::reader::Builder::default().set_reference_sequence_repository(repo.clone()).build_from_reader(src);
    let mut log = Vec::new();
    let header = match r.read_header() {
        Ok(h) => h,
        Err(e) => return vec![end_err(&e)],
    };
    log.push(render::render_sam_header(&header));
    match o.api {
        Api::Eager => {
            let mut i = 0usize;
            for res in r.records(&header) {
                if i > o.cap() {
                    nonterm(&mut log, "cram::io::reader::Records");
                    return log;
                }
                match res {
                    Ok(rec) => log.push(format!("rec[{i}]: {}", render::render_alignment_record(&header, &rec, &lim))),
                    Err(e) => {
                        log.push(end_err(&e));
                        return log;
                    }
                }
                i += 1;
            }
        }
        _ => {
            let mut container = cram::io::reader::Container::default();
            let mut ci = 0usize;
            let mut i = 0usize;
            loop {
                if ci > o.cap() {
                    nonterm(&mut log, "cram::io::Reader::read_container");
                    return log;
                }
                match r.read_container(&mut container) {
                    Ok(0) => break,
                    Ok(n) => {
                        let h = container.header();
                        let mut line = format!(
                            "container[{ci}]: len={n} ctx={:?} records={} counter={} bases={} blocks={} landmarks={:?}",
                            h.reference_sequence_context(),
                            h.record_count(),
                            h.record_counter(),
                            h.base_count(),
                            h.block_count(),
                            h.landmarks()
                        );
                        let ch = match container.compression_header() {
                            Ok(ch) => ch,
                            Err(e) => {
                                line.push_str(&format!(" compression_header={}", render_err(&e)));
                                log.push(line);
                                log.push(end_err(&e));
                                return log;
                            }
                        };
                        log.push(line);
                        let mut si = 0usize;
                        for slice in container.slices() {
                            if si > o.cap() {
                                nonterm(&mut log, "cram::io::reader::Container::slices");
                                return log;
                            }
                            let slice = match slice {
                                Ok(s) => s,
                                Err(e) => {
                                    log.push(end_err(&e));
                                    return log;
                                }
                            };
                            let (core, ext) = match slice.decode_blocks() {
                                Ok(x) => x,
                                Err(e) => {
                                    log.push(end_err(&e));
                                    return log;
                                }
                            };
                            let recs = match slice.records(repo.clone(), &header, &ch, &core, &ext) {
                                Ok(x) => x,
                                Err(e) => {
                                    log.push(end_err(&e));
                                    return log;
                                }
                            };
                            for rec in &recs {
                                let line = render::render_alignment_record(&header, rec, &lim);
                                let dbg = if line.contains(NONTERM) { "skipped".to_string() } else { debug_of(rec, &lim, "cram::Record") };
                                log.push(format!("rec[{i}]: {line} debug#{}", dbg.len()));
                                i += 1;
                            }
                            si += 1;
                        }
                    }
                    Err(e) => {
                        log.push(end_err(&e));
                        return log;
                    }
                }
                ci += 1;
            }
        }
    }
    log.push(end_eof());
    log
}

// ------------------------------------------------------------------------------------------ variants

fn vcf_log<R: BufRead>(mut r: vcf::io::Reader<R>, o: &Opts, vp: impl Fn(&vcf::io::Reader<R>) -> Option<bgzf::VirtualPosition>) -> Vec<String> {
    let lim = o.limits();
    let mut log = Vec::new();
    let header = match r.read_header() {
        Ok(h) => h,
        Err(e) => return vec![end_err(&e)],
    };
    log.push(format!("{}{}", render::render_vcf_header(&header), vp_suffix(o, vp(&r))));
    let mut i = 0usize;
    match o.api {
        Api::Eager => {
            let mut rec = vcf::variant::RecordBuf::default();
            loop {
                if i > o.cap() {
                    nonterm(&mut log, "vcf::io::Reader::read_record_buf");
                    return log;
                }
                if o.fresh {
                    rec = Default::default();
                }
                match r.read_record_buf(&header, &mut rec) {
                    Ok(0) => break,
                    Ok(n) => log.push(format!("rec[{i}]: n={n} {}{}", render::render_variant_record(&header, &rec, &lim), vp_suffix(o, vp(&r)))),
                    Err(e) => {
                        log.push(end_err(&e));
                        return log;
                    }
                }
                i += 1;
            }
        }
        _ => {
            let mut rec = vcf::Record::default();
            loop {
                if i > o.cap() {
                    nonterm(&mut log, "vcf::io::Reader::read_record");
                    return log;
                }
                if o.fresh {
                    rec = Default::default();
                }
                if o.fresh {
            rec = Default::default();
        }
        match r.read_record(&mut rec) {
                    Ok(0) => break,
                    Ok(n) => {
                        let line = render::render_variant_record(&header, &rec, &lim);
                        let dbg = if line.contains(NONTERM) { "skipped".to_string() } else { debug_of(&rec, &lim, "vcf::Record") };
                        log.push(format!("rec[{i}]: n={n} {line} debug={}{}", esc(dbg), vp_suffix(o, vp(&r))));
                    }
                    Err(e) => {
                        log.push(end_err(&e));
                        return log;
                    }
                }
                i += 1;
            }
        }
    }
    log.push(end_eof());
    log
}

fn bcf_log<R: Read>(mut r: bcf::io::Reader<R>, o: &Opts, vp: impl Fn(&bcf::io::Reader<R>) -> Option<bgzf::VirtualPosition>) -> Vec<String> {
    let lim = o.limits();
    let mut log = Vec::new();
    let header = match r.read_header() {
        Ok(h) => h,
        Err(e) => return vec![end_err(&e)],
    };
    log.push(format!("{}{}", render::render_vcf_header(&header), vp_suffix(o, vp(&r))));
    let mut i = 0usize;
    match o.api {
        Api::Eager => {
            let mut rec = vcf::variant::RecordBuf::default();
            loop {
                if i > o.cap() {
                    nonterm(&mut log, "bcf::io::Reader::read_record_buf");
                    return log;
                }
                if o.fresh {
                    rec = Default::default();
                }
                match r.read_record_buf(&header, &mut rec) {
                    Ok(0) => break,
                    Ok(n) => log.push(format!("rec[{i}]: n={n} {}{}", render::render_variant_record(&header, &rec, &lim), vp_suffix(o, vp(&r)))),
                    Err(e) => {
                        log.push(end_err(&e));
                        return log;
                    }
                }
                i += 1;
            }
        }
        _ => {
            let mut rec = bcf::Record::default();
            loop {
                if i > o.cap() {
                    nonterm(&mut log, "bcf::io::Reader::read_record");
                    return log;
                }
                if o.fresh {
                    rec = Default::default();
                }
                if o.fresh {
            rec = Default::default();
        }
        match r.read_record(&mut rec) {
                    Ok(0) => break,
                    Ok(n) => {
                        let line = render::render_variant_record(&header, &rec, &lim);
                        let dbg = if line.contains(NONTERM) { "skipped".to_string() } else { debug_of(&rec, &lim, "bcf::Record") };
                        let mut extra = String::new();
                        match rec.reference_sequence_id() {
                            Ok(v) => extra.push_str(&format!(" rid={v}")),
                            Err(e) => extra.push_str(&format!(" rid={}", render_err(&e))),
                        }
                        match rec.end() {
                            Ok(v) => extra.push_str(&format!(" rec_end={v}")),
                            Err(e) => extra.push_str(&format!(" rec_end={}", render_err(&e))),
                        }
                        match rec.quality_score() {
                            Ok(v) => extra.push_str(&format!(" rec_qual={v:?}")),
                            Err(e) => extra.push_str(&format!(" rec_qual={}", render_err(&e))),
                        }
                        log.push(format!("rec[{i}]: n={n} {line}{extra} debug={}{}", esc(dbg), vp_suffix(o, vp(&r))));
                    }
                    Err(e) => {
                        log.push(end_err(&e));
                        return log;
                    }
                }
                i += 1;
            }
        }
    }
    log.push(end_eof());
    log
}

// ------------------------------------------------------------------------------------------ FASTA / FASTQ

pub fn render_fasta_record(name: &[u8], description: Option<&[u8]>, sequence: &[u8]) -> String {
    format!("name={} desc={} seq#{}={}", esc(name), description.map(esc).unwrap_or_else(|| ".".into()), sequence.len(), esc(sequence))
}

fn fasta_log<R: BufRead>(src: R, o: &Opts) -> Vec<String> {
    let mut r = fasta::io::Reader::new(src);
    let mut log = Vec::new();
    let mut i = 0usize;
    match o.api {
        Api::Eager => {
            for res in r.records() {
                if i > o.cap() {
                    nonterm(&mut log, "fasta::io::reader::Records");
                    return log;
                }
                match res {
                    Ok(rec) => log.push(format!("rec[{i}]: {}", render_fasta_record(rec.name(), rec.description().map(|d| d.as_ref()), rec.sequence().as_ref()))),
                    Err(e) => {
                        log.push(end_err(&e));
                        return log;
                    }
                }
                i += 1;
            }
        }
        api => {
            let mut def = fasta::record::Definition::default();
            loop {
                if i > o.cap() {
                    nonterm(&mut log, "fasta::io::Reader::read_definition");
                    return log;
                }
                match r.read_definition(&mut def) {
                    Ok(0) => break,
                    Ok(_) => {}
                    Err(e) => {
                        log.push(end_err(&e));
                        return log;
                    }
                }
                let mut seq = Vec::new();
                let res = if api == Api::Lazy {
                    r.read_sequence(&mut seq).map(|_| ())
                } else {
                    let mut sr = r.sequence_reader();
                    let mut n_calls = 0usize;
                    loop {
                        n_calls += 1;
                        if n_calls > o.cap() {
                            nonterm(&mut log, "fasta::io::reader::sequence::Reader::fill_buf");
                            return log;
                        }
                        match sr.fill_buf() {
                            Ok(b) if b.is_empty() => break Ok(()),
                            Ok(b) => {
                                let n = b.len();
                                seq.extend_from_slice(b);
                                sr.consume(n);
                            }
                            Err(e) if e.kind() == io::ErrorKind::Interrupted => {}
                            Err(e) => break Err(e),
                        }
                    }
                };
                match res {
                    Ok(()) => log.push(format!("rec[{i}]: {}", render_fasta_record(def.name(), def.description().map(|d| d.as_ref()), &seq))),
                    Err(e) => {
                        log.push(end_err(&e));
                        return log;
                    }
                }
                i += 1;
            }
        }
    }
    log.push(end_eof());
    log
}

pub fn render_fai_record(r: &fasta::fai::Record) -> String {
    format!("name={} length={} offset={} line_bases={} line_width={}", esc(r.name()), r.length(), r.position(), r.line_base_count(), r.line_width())
}

fn fasta_indexer_log<R: BufRead>(src: R, o: &Opts) -> Vec<String> {
    let mut ix = fasta::io::Indexer::new(src);
    let mut log = Vec::new();
    let mut i = 0usize;
    loop {
        if i > o.cap() {
            nonterm(&mut log, "fasta::io::Indexer::index_record");
            return log;
        }
        match ix.index_record() {
            Ok(None) => break,
            Ok(Some(r)) => log.push(format!("rec[{i}]: {}", render_fai_record(&r))),
            Err(e) => {
                let e: io::Error = e.into();
                log.push(end_err(&e));
                return log;
            }
        }
        i += 1;
    }
    log.push(end_eof());
    log
}

pub fn render_fastq_record(r: &fastq::Record) -> String {
    format!("name={} desc={} seq={} qual={}", esc(r.name()), esc(r.description()), esc(r.sequence()), esc(r.quality_scores()))
}

fn fastq_log<R: BufRead>(src: R, o: &Opts) -> Vec<String> {
    let mut r = fastq::io::Reader::new(src);
    let mut log = Vec::new();
    let mut rec = fastq::Record::default();
    let mut i = 0usize;
    loop {
        if i > o.cap() {
            nonterm(&mut log, "fastq::io::Reader::read_record");
            return log;
        }
        if o.fresh {
            rec = Default::default();
        }
        match r.read_record(&mut rec) {
            Ok(0) => break,
            Ok(n) => log.push(format!("rec[{i}]: n={n} {}", render_fastq_record(&rec))),
            Err(e) => {
                log.push(end_err(&e));
                return log;
            }
        }
        i += 1;
    }
    log.push(end_eof());
    log
}

// ------------------------------------------------------------------------------------------ GFF / GTF / BED

pub fn render_gff_line(line: &gff::Line, lim: &Limits) -> String {
    let mut s = format!("kind={:?}", line.kind());
    if let Some(d) = line.as_directive() {
        s.push_str(&format!(" directive={} value={}", esc(d.key()), d.value().map(esc).unwrap_or_else(|| ".".into())));
    }
    if let Some(c) = line.as_comment() {
        s.push_str(&format!(" comment={}", esc(c)));
    }
    match line.as_record() {
        None => {}
        Some(Err(e)) => s.push_str(&format!(" record={}", render_err(&e))),
        Some(Ok(rec)) => {
            // inherent accessors
            let mut inh = format!(" seqid={} source={} type={}", esc(rec.reference_sequence_name()), esc(rec.source()), esc(rec.ty()));
            for (k, r) in [("start", rec.start()), ("end", rec.end())] {
                match r {
                    Ok(v) => inh.push_str(&format!(" {k}={v}")),
                    Err(e) => inh.push_str(&format!(" {k}={}", render_err(&e))),
                }
            }
            s.push_str(&inh);
            let a = rec.attributes();
            let mut own = String::new();
            let mut n_err = 0;
            let n = render::capped(&mut own, a.iter(), lim, "gff::record::Attributes::iter", |_, x| {
                if x.is_err() {
                    n_err += 1;
                }
            });
            s.push_str(&format!(" attrs_inherent#{n}/{n_err}{own}"));
            // the feature::Record view
            let view = render::render_feature_record(&rec, lim);
            s.push_str(&format!(" view[{view}]"));
            let dbg = if s.contains(NONTERM) { "skipped".to_string() } else { debug_of(&rec, lim, "gff::Record") };
            s.push_str(&format!(" debug={}", esc(dbg)));
        }
    }
    s
}

fn gff_log<R: BufRead>(src: R, o: &Opts) -> Vec<String> {
    let lim = o.limits();
    let mut r = gff::io::Reader::new(src);
    let mut log = Vec::new();
    let mut i = 0usize;
    match o.api {
        Api::Eager => {
            for res in r.line_bufs() {
                if i > o.cap() {
                    nonterm(&mut log, "gff::io::reader::LineBufs");
                    return log;
                }
                match res {
                    Ok(gff::LineBuf::Record(rec)) => log.push(format!("line[{i}]: record {}", render::render_feature_record(&rec, &lim))),
                    Ok(other) => log.push(format!("line[{i}]: {}", esc(format!("{other:?}")))),
                    Err(e) => {
                        log.push(end_err(&e));
                        return log;
                    }
                }
                i += 1;
            }
        }
        _ => {
            let mut line = gff::Line::default();
            loop {
                if i > o.cap() {
                    nonterm(&mut log, "gff::io::Reader::read_line");
                    return log;
                }
                if o.fresh {
                    line = Default::default();
                }
                match r.read_line(&mut line) {
                    Ok(0) => break,
                    Ok(n) => log.push(format!("line[{i}]: n={n} {}", render_gff_line(&line, &lim))),
                    Err(e) => {
                        log.push(end_err(&e));
                        return log;
                    }
                }
                i += 1;
            }
        }
    }
    log.push(end_eof());
    log
}

pub fn render_gtf_line(line: &gtf::Line, lim: &Limits) -> String {
    let mut s = format!("kind={:?}", line.kind());
    if let Some(c) = line.as_comment() {
        s.push_str(&format!(" comment={}", esc(c)));
    }
    match line.as_record() {
        None => {}
        Some(Err(e)) => s.push_str(&format!(" record={}", render_err(&e))),
        Some(Ok(rec)) => {
            let mut inh = format!(" seqid={} source={} type={}", esc(rec.reference_sequence_name()), esc(rec.source()), esc(rec.ty()));
            for (k, r) in [("start", rec.start()), ("end", rec.end())] {
                match r {
                    Ok(v) => inh.push_str(&format!(" {k}={v}")),
                    Err(e) => inh.push_str(&format!(" {k}={}", render_err(&e))),
                }
            }
            match rec.score() {
                None => inh.push_str(" score=."),
                Some(Ok(v)) => inh.push_str(&format!(" score={v:?}")),
                Some(Err(e)) => inh.push_str(&format!(" score={}", render_err(&e))),
            }
            match rec.strand() {
                Ok(v) => inh.push_str(&format!(" strand={v:?}")),
                Err(e) => inh.push_str(&format!(" strand={}", render_err(&e))),
            }
            match rec.phase() {
                None => inh.push_str(" phase=."),
                Some(Ok(v)) => inh.push_str(&format!(" phase={v:?}")),
                Some(Err(e)) => inh.push_str(&format!(" phase={}", render_err(&e))),
            }
            s.push_str(&inh);
            match rec.attributes() {
                Err(e) => s.push_str(&format!(" attrs={}", render_err(&e))),
                Ok(a) => {
                    s.push_str(&format!(" attrs{}=[", if a.is_empty() { "e" } else { "" }));
                    let mut keys: Vec<Vec<u8>> = Vec::new();
                    render::capped(&mut s, a.iter(), lim, "gtf::record::Attributes::iter", |o, x| {
                        match x {
                            Ok((k, v)) => {
                                o.push_str(&esc(k));
                                o.push_str("=[");
                                for e in v.iter().take(lim.cap) {
                                    o.push_str(&esc(e.as_ref()));
                                    o.push(',');
                                }
                                o.push(']');
                                if keys.len() < 64 {
                                    keys.push(k.to_vec());
                                }
                            }
                            Err(e) => o.push_str(&render_err(&e)),
                        }
                        o.push(';');
                    });
                    s.push(']');
                    for k in &keys {
                        match a.get(k) {
                            None => s.push_str("|none"),
                            Some(Ok(v)) => s.push_str(&format!("|{}", v.iter().count())),
                            Some(Err(e)) => s.push_str(&format!("|{}", render_err(&e))),
                        }
                    }
                }
            }
            // the gff::feature::Record view of a GTF record (every accessor of a record returned Ok)
            let view = render::render_feature_record(&rec, lim);
            s.push_str(&format!(" view[{view}]"));
            let dbg = if s.contains(NONTERM) { "skipped".to_string() } else { debug_of(&rec, lim, "gtf::Record") };
            s.push_str(&format!(" debug={}", esc(dbg)));
        }
    }
    s
}

fn gtf_log<R: BufRead>(src: R, o: &Opts) -> Vec<String> {
    let lim = o.limits();
    let mut r = gtf::io::Reader::new(src);
    let mut log = Vec::new();
    let mut i = 0usize;
    match o.api {
        Api::Eager => {
            for res in r.line_bufs() {
                if i > o.cap() {
                    nonterm(&mut log, "gtf::io::Reader::line_bufs");
                    return log;
                }
                match res {
                    Ok(gtf::LineBuf::Record(rec)) => log.push(format!("line[{i}]: record {}", render::render_feature_record(&rec, &lim))),
                    Ok(other) => log.push(format!("line[{i}]: {}", esc(format!("{other:?}")))),
                    Err(e) => {
                        log.push(end_err(&e));
                        return log;
                    }
                }
                i += 1;
            }
        }
        _ => {
            let mut line = gtf::Line::default();
            loop {
                if i > o.cap() {
                    nonterm(&mut log, "gtf::io::Reader::read_line");
                    return log;
                }
                if o.fresh {
                    line = Default::default();
                }
                match r.read_line(&mut line) {
                    Ok(0) => break,
                    Ok(n) => log.push(format!("line[{i}]: n={n} {}", render_gtf_line(&line, &lim))),
                    Err(e) => {
                        log.push(end_err(&e));
                        return log;
                    }
                }
                i += 1;
            }
        }
    }
    log.push(end_eof());
    log
}

fn bed_common(name: &[u8], start: io::Result<noodles_core::Position>, end: Option<io::Result<noodles_core::Position>>) -> String {
    let mut s = format!("chrom={}", esc(name));
    match start {
        Ok(v) => s.push_str(&format!(" start={v}")),
        Err(e) => s.push_str(&format!(" start={}", render_err(&e))),
    }
    match end {
        None => s.push_str(" end=."),
        Some(Ok(v)) => s.push_str(&format!(" end={v}")),
        Some(Err(e)) => s.push_str(&format!(" end={}", render_err(&e))),
    }
    s
}

fn bed_other<const N: usize>(rec: &bed::Record<N>, lim: &Limits, dbg: String) -> String {
    let of = rec.other_fields();
    let mut s = format!(" other#{}{}=[", of.len(), if of.is_empty() { "e" } else { "" });
    render::capped(&mut s, of.iter(), lim, "bed::record::OtherFields::iter", |o, x| {
        o.push_str(&esc(x));
        o.push(',');
    });
    s.push(']');
    s.push_str(&format!(" other_get={:?}/{:?}", of.get(0).map(esc), of.get(of.len()).map(esc)));
    s.push_str(&format!(" debug={}", esc(dbg)));
    s
}

fn bed3_log<R: BufRead>(src: R, o: &Opts) -> Vec<String> {
    let lim = o.limits();
    let mut r = bed::io::Reader::<3, _>::new(src);
    let mut rec = bed::Record::<3>::default();
    let mut log = Vec::new();
    let mut i = 0usize;
    loop {
        if i > o.cap() {
            nonterm(&mut log, "bed::io::Reader<3>::read_record");
            return log;
        }
        if o.fresh {
            rec = Default::default();
        }
        match r.read_record(&mut rec) {
            Ok(0) => break,
            Ok(n) => log.push(format!("rec[{i}]: n={n} {}{}", bed_common(rec.reference_sequence_name(), rec.feature_start(), rec.feature_end()), bed_other(&rec, &lim, debug_of(&rec, &lim, "bed::Record<3>")))),
            Err(e) => {
                log.push(end_err(&e));
                return log;
            }
        }
        i += 1;
    }
    log.push(end_eof());
    log
}

fn bed6_log<R: BufRead>(src: R, o: &Opts) -> Vec<String> {
    let lim = o.limits();
    let mut r = bed::io::Reader::<6, _>::new(src);
    let mut rec = bed::Record::<6>::default();
    let mut log = Vec::new();
    let mut i = 0usize;
    loop {
        if i > o.cap() {
            nonterm(&mut log, "bed::io::Reader<6>::read_record");
            return log;
        }
        if o.fresh {
            rec = Default::default();
        }
        match r.read_record(&mut rec) {
            Ok(0) => break,
            Ok(n) => {
                let mut s = bed_common(rec.reference_sequence_name(), rec.feature_start(), rec.feature_end());
                s.push_str(&format!(" name={}", rec.name().map(esc).unwrap_or_else(|| ".".into())));
                match rec.score() {
                    Ok(v) => s.push_str(&format!(" score={v}")),
                    Err(e) => s.push_str(&format!(" score={}", render_err(&e))),
                }
                match rec.strand() {
                    Ok(v) => s.push_str(&format!(" strand={v:?}")),
                    Err(e) => s.push_str(&format!(" strand={}", render_err(&e))),
                }
                log.push(format!("rec[{i}]: n={n} {s}{}", bed_other(&rec, &lim, debug_of(&rec, &lim, "bed::Record<6>"))));
            }
            Err(e) => {
                log.push(end_err(&e));
                return log;
            }
        }
        i += 1;
    }
    log.push(end_eof());
    log
}

// ------------------------------------------------------------------------------------------ indexes

pub(crate) fn index_log<I>(r: io::Result<csi::binning_index::Index<I>>, o: &Opts) -> Vec<String>
where
    I: csi::binning_index::index::reference_sequence::Index + std::fmt::Debug,
{
    match r {
        Ok(idx) => {
            let mut log = render::render_binning_index(&idx, &o.limits());
            log.push(end_eof());
            log
        }
        Err(e) => vec![end_err(&e)],
    }
}

pub fn render_crai_record(r: &cram::crai::Record) -> String {
    format!(
        "rid={:?} start={:?} span={} offset={} landmark={} slice_length={}",
        r.reference_sequence_id(),
        r.alignment_start(),
        r.alignment_span(),
        r.offset(),
        r.landmark(),
        r.slice_length()
    )
}

fn crai_log<R: Read>(src: R, o: &Opts) -> Vec<String> {
    let mut r = cram::crai::io::Reader::new(src);
    let mut log = Vec::new();
    match o.api {
        Api::Eager => match r.read_index() {
            Ok(idx) => {
                for (i, rec) in idx.iter().enumerate() {
                    log.push(format!("rec[{i}]: {}", render_crai_record(rec)));
                }
            }
            Err(e) => return vec![end_err(&e)],
        },
        _ => {
            let mut rec = cram::crai::Record::default();
            let mut i = 0usize;
            loop {
                if i > o.cap() {
                    nonterm(&mut log, "cram::crai::io::Reader::read_record");
                    return log;
                }
                if o.fresh {
                    rec = Default::default();
                }
                if o.fresh {
            rec = Default::default();
        }
        match r.read_record(&mut rec) {
                    Ok(0) => break,
                    Ok(_) => log.push(format!("rec[{i}]: {}", render_crai_record(&rec))),
                    Err(e) => {
                        log.push(end_err(&e));
                        return log;
                    }
                }
                i += 1;
            }
        }
    }
    log.push(end_eof());
    log
}
