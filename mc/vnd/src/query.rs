//! Region queries with an index (shared by C13 "truncation x indexed access" and the C15 query stages).
//!
//! `query_log(data format, data set, data bytes, index format, index bytes)` parses the index, opens ONE reader over
//! the data, reads the header and runs a fixed sequence of region queries (and `query_unmapped` where it exists) on
//! that same reader. Log lines: `<label> rec[n]: <rendered record>`, then exactly one of `<label>: done n=<count>`
//! (the iterator ended cleanly) or `<label>: Err(kind=… msg=…)`; finally `end: EOF`.

use std::{
    cell::Cell,
    io::{self, Cursor, Read, Seek},
};

use noodles_bam as bam;
use noodles_bcf as bcf;
use noodles_bgzf as bgzf;
use noodles_csi as csi;
use noodles_tabix as tabix;
use noodles_vcf as vcf;

use crate as vnd;
use crate::Format;

thread_local! {
    /// Set by the `*_over` entry points: the driver behaves like std's helpers on `ErrorKind::Interrupted` (a call
    /// or an iterator item that fails with it is tried again).
    static RETRY: Cell<bool> = const { Cell::new(false) };
}

const MAX_RETRIES: usize = 10_000;

fn retrying() -> bool {
    RETRY.with(|r| r.get())
}

fn is_interrupted(e: &io::Error) -> bool {
    e.kind() == io::ErrorKind::Interrupted
}

/// Evaluates a fallible call; while retrying is on, a result of `Err(Interrupted)` makes it evaluate again.
macro_rules! call {
    ($e:expr) => {{
        let mut tries = 0usize;
        loop {
            let r = $e;
            match r {
                Err(ref e) if retrying() && is_interrupted(e) && tries < MAX_RETRIES => tries += 1,
                other => break other,
            }
        }
    }};
}

pub fn regions_for(names: &[String]) -> Vec<String> {
    let mut v = Vec::new();
    for (i, n) in names.iter().enumerate().take(3) {
        v.push(n.clone());
        if i == 0 {
            v.push(format!("{n}:1-50"));
            v.push(format!("{n}:399-400"));
        } else {
            v.push(format!("{n}:100-200"));
        }
    }
    v.push("nosuchref".into());
    v
}

/// Drains a query iterator (capped), rendering every record; returns false when the cap was exceeded.
fn drain<T>(log: &mut Vec<String>, what: &str, cap: usize, ty: &str, it: impl Iterator<Item = io::Result<T>>, mut render: impl FnMut(&T) -> String) -> bool {
    let mut n = 0usize;
    let mut retries = 0usize;
    for r in it {
        if n > cap {
            log.push(format!("end: {}{ty}", vnd::NONTERM));
            return false;
        }
        match r {
            Ok(rec) => log.push(format!("{what} rec[{n}]: {}", render(&rec))),
            Err(e) if retrying() && is_interrupted(&e) && retries < MAX_RETRIES => {
                // the caller polls the iterator again, as std's read helpers call `read` again
                retries += 1;
                continue;
            }
            Err(e) => {
                log.push(format!("{what}: {}", vnd::render_err(&e)));
                break;
            }
        }
        n += 1;
    }
    if !matches!(log.last(), Some(l) if l.starts_with(&format!("{what}: Err("))) {
        log.push(format!("{what}: done n={n}"));
    }
    true
}

fn regions(names: &[String]) -> Vec<noodles_core::Region> {
    regions_for(names).iter().filter_map(|r| r.parse().ok()).collect()
}

fn bam_queries<S: Read + Seek, I: csi::BinningIndex>(log: &mut Vec<String>, src: S, index: &I, lim: &vnd::Limits, cap: usize) -> bool {
    let mut reader = bam::io::Reader::new(src);
    let header = match call!(reader.read_header()) {
        Ok(h) => h,
        Err(e) => {
            log.push(format!("header: {}", vnd::render_err(&e)));
            return true;
        }
    };
    let names: Vec<String> = header.reference_sequences().keys().map(|k| k.to_string()).collect();
    for region in regions(&names) {
        match call!(reader.query(&header, index, &region)) {
            Err(e) => log.push(format!("query {region}: {}", vnd::render_err(&e))),
            Ok(q) => {
                if !drain(log, &format!("query {region}"), cap, "bam::io::reader::query::Records", q.records(), |rec| vnd::render_alignment_record(&header, rec, lim)) {
                    return false;
                }
            }
        }
    }
    match call!(reader.query_unmapped(index)) {
        Err(e) => log.push(format!("unmapped: {}", vnd::render_err(&e))),
        Ok(it) => {
            if !drain(log, "unmapped", cap, "bam::io::Reader::query_unmapped", it, |rec| vnd::render_alignment_record(&header, rec, lim)) {
                return false;
            }
        }
    }
    true
}

fn sam_queries<S: Read + Seek, I: csi::BinningIndex>(log: &mut Vec<String>, src: S, index: &I, lim: &vnd::Limits, cap: usize) -> bool {
    let mut reader = noodles_sam::io::Reader::new(bgzf::io::Reader::new(src));
    let header = match call!(reader.read_header()) {
        Ok(h) => h,
        Err(e) => {
            log.push(format!("header: {}", vnd::render_err(&e)));
            return true;
        }
    };
    let names: Vec<String> = header.reference_sequences().keys().map(|k| k.to_string()).collect();
    for region in regions(&names) {
        match call!(reader.query(&header, index, &region)) {
            Err(e) => log.push(format!("query {region}: {}", vnd::render_err(&e))),
            Ok(q) => {
                if !drain(log, &format!("query {region}"), cap, "sam::io::reader::Query", q.records(), |rec| vnd::render_alignment_record(&header, rec, lim)) {
                    return false;
                }
            }
        }
    }
    match call!(reader.query_unmapped(index)) {
        Err(e) => log.push(format!("unmapped: {}", vnd::render_err(&e))),
        Ok(it) => {
            if !drain(log, "unmapped", cap, "sam::io::Reader::query_unmapped", it, |rec| vnd::render_alignment_record(&header, rec, lim)) {
                return false;
            }
        }
    }
    true
}

fn bcf_queries<S: Read + Seek, I: csi::BinningIndex>(log: &mut Vec<String>, src: S, index: &I, lim: &vnd::Limits, cap: usize) -> bool {
    let mut reader = bcf::io::Reader::new(src);
    let header = match call!(reader.read_header()) {
        Ok(h) => h,
        Err(e) => {
            log.push(format!("header: {}", vnd::render_err(&e)));
            return true;
        }
    };
    let names: Vec<String> = header.contigs().keys().map(|k| k.to_string()).collect();
    for region in regions(&names) {
        match call!(reader.query(&header, index, &region)) {
            Err(e) => log.push(format!("query {region}: {}", vnd::render_err(&e))),
            Ok(q) => {
                if !drain(log, &format!("query {region}"), cap, "bcf::io::reader::query::Records", q.records(), |rec| vnd::render_variant_record(&header, rec, lim)) {
                    return false;
                }
            }
        }
    }
    true
}

fn vcf_queries<S: Read + Seek, I: csi::BinningIndex>(log: &mut Vec<String>, src: S, index: &I, lim: &vnd::Limits, cap: usize) -> bool {
    let mut reader = vcf::io::Reader::new(bgzf::io::Reader::new(src));
    let header = match call!(reader.read_header()) {
        Ok(h) => h,
        Err(e) => {
            log.push(format!("header: {}", vnd::render_err(&e)));
            return true;
        }
    };
    let mut names: Vec<String> = header.contigs().keys().map(|k| k.to_string()).collect();
    if let Some(h) = index.header() {
        for n in h.reference_sequence_names() {
            let n = n.to_string();
            if !names.contains(&n) {
                names.push(n);
            }
        }
    }
    for region in regions(&names) {
        match call!(reader.query(&header, index, &region)) {
            Err(e) => log.push(format!("query {region}: {}", vnd::render_err(&e))),
            Ok(q) => {
                if !drain(log, &format!("query {region}"), cap, "vcf::io::reader::query::Records", q.records(), |rec| vnd::render_variant_record(&header, rec, lim)) {
                    return false;
                }
            }
        }
    }
    true
}

/// Region queries of bgzipped tab-delimited text through `csi::io::IndexedReader` (the generic tabix path).
fn indexed_text_queries<S: Read + Seek, I: csi::BinningIndex>(log: &mut Vec<String>, src: S, index: I, cap: usize) -> bool {
    use csi::io::IndexedRecord as _;
    let names: Vec<String> = index.header().map(|h| h.reference_sequence_names().iter().map(|n| n.to_string()).collect()).unwrap_or_default();
    let mut reader = csi::io::IndexedReader::new(src, index);
    for region in regions(&names) {
        match call!(reader.query(&region)) {
            Err(e) => log.push(format!("indexed query {region}: {}", vnd::render_err(&e))),
            Ok(q) => {
                if !drain(log, &format!("indexed query {region}"), cap, "csi::io::IndexedRecords", q, |rec| {
                    format!("name={} start={} end={} line={}", vnd::esc(rec.indexed_reference_sequence_name()), rec.indexed_start_position(), rec.indexed_end_position(), vnd::esc(rec.as_ref()))
                }) {
                    return false;
                }
            }
        }
    }
    true
}

fn cram_queries<S: Read + Seek>(log: &mut Vec<String>, src: S, index: &noodles_cram::crai::Index, lim: &vnd::Limits, cap: usize) -> bool {
    let repo = vnd::records::repository();
    let mut reader = noodles_cram::io::reader::Builder::default().set_reference_sequence_repository(repo).build_from_reader(src);
    let header = match call!(reader.read_header()) {
        Ok(h) => h,
        Err(e) => {
            log.push(format!("header: {}", vnd::render_err(&e)));
            return true;
        }
    };
    let names: Vec<String> = header.reference_sequences().keys().map(|k| k.to_string()).collect();
    for region in regions(&names) {
        match call!(reader.query(&header, index, &region)) {
            Err(e) => log.push(format!("query {region}: {}", vnd::render_err(&e))),
            Ok(q) => {
                if !drain(log, &format!("query {region}"), cap, "cram::io::reader::Query", q.records(), |rec| vnd::render_alignment_record(&header, rec, lim)) {
                    return false;
                }
            }
        }
    }
    match call!(reader.query_unmapped(&header, index)) {
        Err(e) => log.push(format!("unmapped: {}", vnd::render_err(&e))),
        Ok(it) => {
            if !drain(log, "unmapped", cap, "cram::io::Reader::query_unmapped", it, |rec| vnd::render_alignment_record(&header, rec, lim)) {
                return false;
            }
        }
    }
    true
}

/// Parses the index and runs region queries (and `query_unmapped` where available) of the data with it. Either
/// side may be the mutated one.
pub fn query_log(data_format: Format, data_set: &str, data: &[u8], index_format: Format, index_bytes: &[u8]) -> Vec<String> {
    query_log_src(data_format, data_set, &|| Cursor::new(data), data.len(), index_format, index_bytes)
}

/// `query_log` over an arbitrary `Read + Seek` source of the data (`mk` makes a fresh source positioned at 0; some
/// pairs open the data twice), with the driver retrying `ErrorKind::Interrupted` the way std's helpers do: the
/// contract of `Read` says the operation should be retried, so the log must equal the one over the plain source.
pub fn query_log_over<S: Read + Seek>(data_format: Format, data_set: &str, mk: &dyn Fn() -> S, data_len: usize, index_format: Format, index_bytes: &[u8]) -> Vec<String> {
    RETRY.with(|r| r.set(true));
    let log = query_log_src(data_format, data_set, mk, data_len, index_format, index_bytes);
    RETRY.with(|r| r.set(false));
    log
}

fn query_log_src<S: Read + Seek>(data_format: Format, data_set: &str, mk: &dyn Fn() -> S, data_len: usize, index_format: Format, index_bytes: &[u8]) -> Vec<String> {
    let lim = vnd::Limits::for_input(data_len + index_bytes.len());
    let cap = data_len + index_bytes.len() + 1000;
    let mut log = Vec::new();
    macro_rules! parse {
        ($e:expr) => {
            match $e {
                Ok(i) => i,
                Err(e) => return vec![vnd::end_err(&e)],
            }
        };
    }
    let done = match (data_format, index_format) {
        (Format::Bam, Format::Bai) => {
            let index = parse!(bam::bai::io::Reader::new(index_bytes).read_index());
            bam_queries(&mut log, mk(), &index, &lim, cap)
        }
        (Format::Bam, Format::Csi) => {
            let index = parse!(csi::io::Reader::new(index_bytes).read_index());
            bam_queries(&mut log, mk(), &index, &lim, cap)
        }
        (Format::SamGz, Format::Csi) => {
            let index = parse!(csi::io::Reader::new(index_bytes).read_index());
            sam_queries(&mut log, mk(), &index, &lim, cap)
        }
        (Format::Bcf, Format::Csi) => {
            let index = parse!(csi::io::Reader::new(index_bytes).read_index());
            bcf_queries(&mut log, mk(), &index, &lim, cap)
        }
        (Format::VcfGz, Format::Tbi) => {
            let index = parse!(tabix::io::Reader::new(index_bytes).read_index());
            vcf_queries(&mut log, mk(), &index, &lim, cap) && indexed_text_queries(&mut log, mk(), index, cap)
        }
        (Format::VcfGz, Format::Csi) => {
            let index = parse!(csi::io::Reader::new(index_bytes).read_index());
            vcf_queries(&mut log, mk(), &index, &lim, cap) && indexed_text_queries(&mut log, mk(), index, cap)
        }
        (Format::Fasta, Format::Fai) => {
            log.extend(fasta_query_lines(mk(), index_bytes));
            true
        }
        (Format::Cram, Format::Crai) => {
            let index = parse!(noodles_cram::crai::io::Reader::new(index_bytes).read_index());
            cram_queries(&mut log, mk(), &index, &lim, cap)
        }
        (Format::Bgzf, Format::Tbi) => {
            let index = parse!(tabix::io::Reader::new(index_bytes).read_index());
            let names: Vec<String> = csi::BinningIndex::header(&index).map(|h| h.reference_sequence_names().iter().map(|n| n.to_string()).collect()).unwrap_or_default();
            let mut ok = true;
            match data_set {
                "gff.gz" => {
                    let mut reader = noodles_gff::io::Reader::new(bgzf::io::Reader::new(mk()));
                    for region in regions(&names) {
                        match call!(reader.query(&index, &region)) {
                            Err(e) => log.push(format!("query {region}: {}", vnd::render_err(&e))),
                            Ok(q) => {
                                if !drain(&mut log, &format!("query {region}"), cap, "gff::io::Reader::query", q, |rec| vnd::render_feature_record(rec, &lim)) {
                                    ok = false;
                                    break;
                                }
                            }
                        }
                    }
                }
                "gtf.gz" => {
                    let mut reader = noodles_gtf::io::Reader::new(bgzf::io::Reader::new(mk()));
                    for region in regions(&names) {
                        match call!(reader.query(&index, &region)) {
                            Err(e) => log.push(format!("query {region}: {}", vnd::render_err(&e))),
                            Ok(q) => {
                                if !drain(&mut log, &format!("query {region}"), cap, "gtf::io::Reader::query", q, |rec| vnd::render_feature_record(rec, &lim)) {
                                    ok = false;
                                    break;
                                }
                            }
                        }
                    }
                }
                _ => {}
            }
            ok && indexed_text_queries(&mut log, mk(), index, cap)
        }
        _ => true,
    };
    if done {
        log.push(vnd::end_eof());
    }
    log
}


/// Region queries of a plain FASTA through `fasta::io::IndexedReader` with the given fai, plus `fai::Index::query`
/// itself. The regions come from the index: per name the whole sequence, its first bases, the last two positions
/// the index claims, and a range past the claimed end.
fn fasta_query_lines<S: Read + Seek>(src: S, fai_bytes: &[u8]) -> Vec<String> {
    use noodles_fasta as fasta;
    let index = match fasta::fai::io::Reader::new(fai_bytes).read_index() {
        Ok(i) => i,
        Err(e) => return vec![format!("index: {}", vnd::render_err(&e))],
    };
    let mut regions: Vec<String> = Vec::new();
    for r in index.as_ref().iter().take(3) {
        let n = String::from_utf8_lossy(r.name()).into_owned();
        let len = r.length();
        regions.push(n.clone());
        regions.push(format!("{n}:1-50"));
        if len >= 2 && len < usize::MAX as u64 {
            regions.push(format!("{n}:{}-{len}", len - 1));
        }
        regions.push(format!("{n}:{}-{}", len.saturating_add(1).min(usize::MAX as u64 - 20), len.saturating_add(10).min(usize::MAX as u64 - 10)));
    }
    regions.push("nosuchref".into());
    let mut log = Vec::new();
    let mut reader = fasta::io::IndexedReader::new(io::BufReader::new(src), index.clone());
    for r in regions {
        let Ok(region) = r.parse::<noodles_core::Region>() else { continue };
        match index.query(&region) {
            Ok(pos) => log.push(format!("fai query {region}: offset={pos}")),
            Err(e) => log.push(format!("fai query {region}: {}", vnd::render_err(&e))),
        }
        match call!(reader.query(&region)) {
            Ok(rec) => log.push(format!("fasta {region}: {}", vnd::drive::render_fasta_record(rec.name(), rec.description().map(|d| d.as_ref()), rec.sequence().as_ref()))),
            Err(e) => log.push(format!("fasta {region}: {}", vnd::render_err(&e))),
        }
    }
    log
}

/// Region queries of a bgzipped FASTA through `fasta::io::IndexedReader` over `bgzf::io::IndexedReader` (fai + gzi of
/// the complete file). One line per region: `fasta <region>: name=… seq=…` or `fasta <region>: Err(…)`.
pub fn fasta_gz_query_log(data: &[u8], fai_bytes: &[u8], gzi_bytes: &[u8]) -> Vec<String> {
    fasta_gz_query_log_src(Cursor::new(data), fai_bytes, gzi_bytes)
}

/// `fasta_gz_query_log` over an arbitrary source, retrying `Interrupted` (see `query_log_over`).
pub fn fasta_gz_query_log_over<S: Read + Seek>(src: S, fai_bytes: &[u8], gzi_bytes: &[u8]) -> Vec<String> {
    RETRY.with(|r| r.set(true));
    let log = fasta_gz_query_log_src(src, fai_bytes, gzi_bytes);
    RETRY.with(|r| r.set(false));
    log
}

fn fasta_gz_query_log_src<S: Read + Seek>(src: S, fai_bytes: &[u8], gzi_bytes: &[u8]) -> Vec<String> {
    use noodles_fasta as fasta;
    let fai = match fasta::fai::io::Reader::new(fai_bytes).read_index() {
        Ok(i) => i,
        Err(e) => return vec![vnd::end_err(&e)],
    };
    let gzi = match bgzf::gzi::io::Reader::new(gzi_bytes).read_index() {
        Ok(i) => i,
        Err(e) => return vec![vnd::end_err(&e)],
    };
    let names: Vec<String> = fai.as_ref().iter().map(|r| r.name().to_string()).collect();
    let inner = fasta::io::BufReader::Bgzf(bgzf::io::IndexedReader::new(src, gzi));
    let mut reader = fasta::io::IndexedReader::new(inner, fai);
    let mut log = Vec::new();
    let mut regions = Vec::new();
    for (i, n) in names.iter().enumerate().take(3) {
        regions.push(n.clone());
        regions.push(if i == 0 { format!("{n}:1-50") } else { format!("{n}:100-150") });
        regions.push(format!("{n}:190-200"));
    }
    for r in regions {
        let Ok(region) = r.parse::<noodles_core::Region>() else { continue };
        match call!(reader.query(&region)) {
            Ok(rec) => log.push(format!("fasta {region}: {}", vnd::drive::render_fasta_record(rec.name(), rec.description().map(|d| d.as_ref()), rec.sequence().as_ref()))),
            Err(e) => log.push(format!("fasta {region}: {}", vnd::render_err(&e))),
        }
    }
    log.push(vnd::end_eof());
    log
}
