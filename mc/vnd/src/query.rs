//! Region queries with an index (shared by C13 "truncation x indexed access" and the C15 query stages).
//!
//! `query_log(data format, data set, data bytes, index format, index bytes)` parses the index, opens ONE reader over
//! the data, reads the header and runs a fixed sequence of region queries (and `query_unmapped` where it exists) on
//! that same reader. Log lines: `<label> rec[n]: <rendered record>`, then exactly one of `<label>: done n=<count>`
//! (the iterator ended cleanly) or `<label>: Err(kind=… msg=…)`; finally `end: EOF`.

use std::io::{self, Cursor};

use noodles_bam as bam;
use noodles_bcf as bcf;
use noodles_bgzf as bgzf;
use noodles_csi as csi;
use noodles_tabix as tabix;
use noodles_vcf as vcf;

use crate as vnd;
use crate::Format;

pub fn regions_for(names: &[String]) -> Vec<String> {
    let mut v = Vec::new();
    for (i, n) in names.iter().enumerate().take(3) {
        v.push(n.clone());
        if i == 0 {
            v.push(format!("{n}:1-50"));
            v.push(format!("{n}:399-400"));
        } else {
            v.push(format!("{n}:100-200"));
        }
    }
    v.push("nosuchref".into());
    v
}

/// Drains a query iterator (capped), rendering every record; returns false when the cap was exceeded.
fn drain<T>(log: &mut Vec<String>, what: &str, cap: usize, ty: &str, it: impl Iterator<Item = io::Result<T>>, mut render: impl FnMut(&T) -> String) -> bool {
    let mut n = 0usize;
    for r in it {
        if n > cap {
            log.push(format!("end: {}{ty}", vnd::NONTERM));
            return false;
        }
        match r {
            Ok(rec) => log.push(format!("{what} rec[{n}]: {}", render(&rec))),
            Err(e) => {
                log.push(format!("{what}: {}", vnd::render_err(&e)));
                break;
            }
        }
        n += 1;
    }
    if !matches!(log.last(), Some(l) if l.starts_with(&format!("{what}: Err("))) {
        log.push(format!("{what}: done n={n}"));
    }
    true
}

fn regions(names: &[String]) -> Vec<noodles_core::Region> {
    regions_for(names).iter().filter_map(|r| r.parse().ok()).collect()
}

fn bam_queries<I: csi::BinningIndex>(log: &mut Vec<String>, data: &[u8], index: &I, lim: &vnd::Limits, cap: usize) -> bool {
    let mut reader = bam::io::Reader::new(Cursor::new(data));
    let header = match reader.read_header() {
        Ok(h) => h,
        Err(e) => {
            log.push(format!("header: {}", vnd::render_err(&e)));
            return true;
        }
    };
    let names: Vec<String> = header.reference_sequences().keys().map(|k| k.to_string()).collect();
    for region in regions(&names) {
        match reader.query(&header, index, &region) {
            Err(e) => log.push(format!("query {region}: {}", vnd::render_err(&e))),
            Ok(q) => {
                if !drain(log, &format!("query {region}"), cap, "bam::io::reader::query::Records", q.records(), |rec| vnd::render_alignment_record(&header, rec, lim)) {
                    return false;
                }
            }
        }
    }
    match reader.query_unmapped(index) {
        Err(e) => log.push(format!("unmapped: {}", vnd::render_err(&e))),
        Ok(it) => {
            if !drain(log, "unmapped", cap, "bam::io::Reader::query_unmapped", it, |rec| vnd::render_alignment_record(&header, rec, lim)) {
                return false;
            }
        }
    }
    true
}

fn sam_queries<I: csi::BinningIndex>(log: &mut Vec<String>, data: &[u8], index: &I, lim: &vnd::Limits, cap: usize) -> bool {
    let mut reader = noodles_sam::io::Reader::new(bgzf::io::Reader::new(Cursor::new(data)));
    let header = match reader.read_header() {
        Ok(h) => h,
        Err(e) => {
            log.push(format!("header: {}", vnd::render_err(&e)));
            return true;
        }
    };
    let names: Vec<String> = header.reference_sequences().keys().map(|k| k.to_string()).collect();
    for region in regions(&names) {
        match reader.query(&header, index, &region) {
            Err(e) => log.push(format!("query {region}: {}", vnd::render_err(&e))),
            Ok(q) => {
                if !drain(log, &format!("query {region}"), cap, "sam::io::reader::Query", q.records(), |rec| vnd::render_alignment_record(&header, rec, lim)) {
                    return false;
                }
            }
        }
    }
    match reader.query_unmapped(index) {
        Err(e) => log.push(format!("unmapped: {}", vnd::render_err(&e))),
        Ok(it) => {
            if !drain(log, "unmapped", cap, "sam::io::Reader::query_unmapped", it, |rec| vnd::render_alignment_record(&header, rec, lim)) {
                return false;
            }
        }
    }
    true
}

fn bcf_queries<I: csi::BinningIndex>(log: &mut Vec<String>, data: &[u8], index: &I, lim: &vnd::Limits, cap: usize) -> bool {
    let mut reader = bcf::io::Reader::new(Cursor::new(data));
    let header = match reader.read_header() {
        Ok(h) => h,
        Err(e) => {
            log.push(format!("header: {}", vnd::render_err(&e)));
            return true;
        }
    };
    let names: Vec<String> = header.contigs().keys().map(|k| k.to_string()).collect();
    for region in regions(&names) {
        match reader.query(&header, index, &region) {
            Err(e) => log.push(format!("query {region}: {}", vnd::render_err(&e))),
            Ok(q) => {
                if !drain(log, &format!("query {region}"), cap, "bcf::io::reader::query::Records", q.records(), |rec| vnd::render_variant_record(&header, rec, lim)) {
                    return false;
                }
            }
        }
    }
    true
}

fn vcf_queries<I: csi::BinningIndex>(log: &mut Vec<String>, data: &[u8], index: &I, lim: &vnd::Limits, cap: usize) -> bool {
    let mut reader = vcf::io::Reader::new(bgzf::io::Reader::new(Cursor::new(data)));
    let header = match reader.read_header() {
        Ok(h) => h,
        Err(e) => {
            log.push(format!("header: {}", vnd::render_err(&e)));
            return true;
        }
    };
    let mut names: Vec<String> = header.contigs().keys().map(|k| k.to_string()).collect();
    if let Some(h) = index.header() {
        for n in h.reference_sequence_names() {
            let n = n.to_string();
            if !names.contains(&n) {
                names.push(n);
            }
        }
    }
    for region in regions(&names) {
        match reader.query(&header, index, &region) {
            Err(e) => log.push(format!("query {region}: {}", vnd::render_err(&e))),
            Ok(q) => {
                if !drain(log, &format!("query {region}"), cap, "vcf::io::reader::query::Records", q.records(), |rec| vnd::render_variant_record(&header, rec, lim)) {
                    return false;
                }
            }
        }
    }
    true
}

/// Region queries of bgzipped tab-delimited text through `csi::io::IndexedReader` (the generic tabix path).
fn indexed_text_queries<I: csi::BinningIndex>(log: &mut Vec<String>, data: &[u8], index: I, cap: usize) -> bool {
    use csi::io::IndexedRecord as _;
    let names: Vec<String> = index.header().map(|h| h.reference_sequence_names().iter().map(|n| n.to_string()).collect()).unwrap_or_default();
    let mut reader = csi::io::IndexedReader::new(Cursor::new(data), index);
    for region in regions(&names) {
        match reader.query(&region) {
            Err(e) => log.push(format!("indexed query {region}: {}", vnd::render_err(&e))),
            Ok(q) => {
                if !drain(log, &format!("indexed query {region}"), cap, "csi::io::IndexedRecords", q, |rec| {
                    format!("name={} start={} end={} line={}", vnd::esc(rec.indexed_reference_sequence_name()), rec.indexed_start_position(), rec.indexed_end_position(), vnd::esc(rec.as_ref()))
                }) {
                    return false;
                }
            }
        }
    }
    true
}

fn cram_queries(log: &mut Vec<String>, data: &[u8], index: &noodles_cram::crai::Index, lim: &vnd::Limits, cap: usize) -> bool {
    let repo = vnd::records::repository();
    let mut reader = noodles_cram::io::reader::Builder::default().set_reference_sequence_repository(repo).build_from_reader(Cursor::new(data));
    let header = match reader.read_header() {
        Ok(h) => h,
        Err(e) => {
            log.push(format!("header: {}", vnd::render_err(&e)));
            return true;
        }
    };
    let names: Vec<String> = header.reference_sequences().keys().map(|k| k.to_string()).collect();
    for region in regions(&names) {
        match reader.query(&header, index, &region) {
            Err(e) => log.push(format!("query {region}: {}", vnd::render_err(&e))),
            Ok(q) => {
                if !drain(log, &format!("query {region}"), cap, "cram::io::reader::Query", q.records(), |rec| vnd::render_alignment_record(&header, rec, lim)) {
                    return false;
                }
            }
        }
    }
    match reader.query_unmapped(&header, index) {
        Err(e) => log.push(format!("unmapped: {}", vnd::render_err(&e))),
        Ok(it) => {
            if !drain(log, "unmapped", cap, "cram::io::Reader::query_unmapped", it, |rec| vnd::render_alignment_record(&header, rec, lim)) {
                return false;
            }
        }
    }
    true
}

/// Parses the index and runs region queries (and `query_unmapped` where available) of the data with it. Either
/// side may be the mutated one.
pub fn query_log(data_format: Format, data_set: &str, data: &[u8], index_format: Format, index_bytes: &[u8]) -> Vec<String> {
    let lim = vnd::Limits::for_input(data.len() + index_bytes.len());
    let cap = data.len() + index_bytes.len() + 1000;
    let mut log = Vec::new();
    macro_rules! parse {
        ($e:expr) => {
            match $e {
                Ok(i) => i,
                Err(e) => return vec![vnd::end_err(&e)],
            }
        };
    }
    let done = match (data_format, index_format) {
        (Format::Bam, Format::Bai) => {
            let index = parse!(bam::bai::io::Reader::new(index_bytes).read_index());
            bam_queries(&mut log, data, &index, &lim, cap)
        }
        (Format::Bam, Format::Csi) => {
            let index = parse!(csi::io::Reader::new(index_bytes).read_index());
            bam_queries(&mut log, data, &index, &lim, cap)
        }
        (Format::SamGz, Format::Csi) => {
            let index = parse!(csi::io::Reader::new(index_bytes).read_index());
            sam_queries(&mut log, data, &index, &lim, cap)
        }
        (Format::Bcf, Format::Csi) => {
            let index = parse!(csi::io::Reader::new(index_bytes).read_index());
            bcf_queries(&mut log, data, &index, &lim, cap)
        }
        (Format::VcfGz, Format::Tbi) => {
            let index = parse!(tabix::io::Reader::new(index_bytes).read_index());
            vcf_queries(&mut log, data, &index, &lim, cap) && indexed_text_queries(&mut log, data, index, cap)
        }
        (Format::VcfGz, Format::Csi) => {
            let index = parse!(csi::io::Reader::new(index_bytes).read_index());
            vcf_queries(&mut log, data, &index, &lim, cap) && indexed_text_queries(&mut log, data, index, cap)
        }
        (Format::Fasta, Format::Fai) => {
            log.extend(fasta_query_lines(data, index_bytes));
            true
        }
        (Format::Cram, Format::Crai) => {
            let index = parse!(noodles_cram::crai::io::Reader::new(index_bytes).read_index());
            cram_queries(&mut log, data, &index, &lim, cap)
        }
        (Format::Bgzf, Format::Tbi) => {
            let index = parse!(tabix::io::Reader::new(index_bytes).read_index());
            let names: Vec<String> = csi::BinningIndex::header(&index).map(|h| h.reference_sequence_names().iter().map(|n| n.to_string()).collect()).unwrap_or_default();
            let mut ok = true;
            match data_set {
                "gff.gz" => {
                    let mut reader = noodles_gff::io::Reader::new(bgzf::io::Reader::new(Cursor::new(data)));
                    for region in regions(&names) {
                        match reader.query(&index, &region) {
                            Err(e) => log.push(format!("query {region}: {}", vnd::render_err(&e))),
                            Ok(q) => {
                                if !drain(&mut log, &format!("query {region}"), cap, "gff::io::Reader::query", q, |rec| vnd::render_feature_record(rec, &lim)) {
                                    ok = false;
                                    break;
                                }
                            }
                        }
                    }
                }
                "gtf.gz" => {
                    let mut reader = noodles_gtf::io::Reader::new(bgzf::io::Reader::new(Cursor::new(data)));
                    for region in regions(&names) {
                        match reader.query(&index, &region) {
                            Err(e) => log.push(format!("query {region}: {}", vnd::render_err(&e))),
                            Ok(q) => {
                                if !drain(&mut log, &format!("query {region}"), cap, "gtf::io::Reader::query", q, |rec| vnd::render_feature_record(rec, &lim)) {
                                    ok = false;
                                    break;
                                }
                            }
                        }
                    }
                }
                _ => {}
            }
            ok && indexed_text_queries(&mut log, data, index, cap)
        }
        _ => true,
    };
    if done {
        log.push(vnd::end_eof());
    }
    log
}


/// Region queries of a plain FASTA through `fasta::io::IndexedReader` with the given fai, plus `fai::Index::query`
/// itself. The regions come from the index: per name the whole sequence, its first bases, the last two positions
/// the index claims, and a range past the claimed end.
fn fasta_query_lines(data: &[u8], fai_bytes: &[u8]) -> Vec<String> {
    use noodles_fasta as fasta;
    let index = match fasta::fai::io::Reader::new(fai_bytes).read_index() {
        Ok(i) => i,
        Err(e) => return vec![format!("index: {}", vnd::render_err(&e))],
    };
    let mut regions: Vec<String> = Vec::new();
    for r in index.as_ref().iter().take(3) {
        let n = String::from_utf8_lossy(r.name()).into_owned();
        let len = r.length();
        regions.push(n.clone());
        regions.push(format!("{n}:1-50"));
        if len >= 2 && len < usize::MAX as u64 {
            regions.push(format!("{n}:{}-{len}", len - 1));
        }
        regions.push(format!("{n}:{}-{}", len.saturating_add(1).min(usize::MAX as u64 - 20), len.saturating_add(10).min(usize::MAX as u64 - 10)));
    }
    regions.push("nosuchref".into());
    let mut log = Vec::new();
    let mut reader = fasta::io::IndexedReader::new(Cursor::new(data), index.clone());
    for r in regions {
        let Ok(region) = r.parse::<noodles_core::Region>() else { continue };
        match index.query(&region) {
            Ok(pos) => log.push(format!("fai query {region}: offset={pos}")),
            Err(e) => log.push(format!("fai query {region}: {}", vnd::render_err(&e))),
        }
        match reader.query(&region) {
            Ok(rec) => log.push(format!("fasta {region}: {}", vnd::drive::render_fasta_record(rec.name(), rec.description().map(|d| d.as_ref()), rec.sequence().as_ref()))),
            Err(e) => log.push(format!("fasta {region}: {}", vnd::render_err(&e))),
        }
    }
    log
}

/// Region queries of a bgzipped FASTA through `fasta::io::IndexedReader` over `bgzf::io::IndexedReader` (fai + gzi of
/// the complete file). One line per region: `fasta <region>: name=… seq=…` or `fasta <region>: Err(…)`.
pub fn fasta_gz_query_log(data: &[u8], fai_bytes: &[u8], gzi_bytes: &[u8]) -> Vec<String> {
    use noodles_fasta as fasta;
    let fai = match fasta::fai::io::Reader::new(fai_bytes).read_index() {
        Ok(i) => i,
        Err(e) => return vec![vnd::end_err(&e)],
    };
    let gzi = match bgzf::gzi::io::Reader::new(gzi_bytes).read_index() {
        Ok(i) => i,
        Err(e) => return vec![vnd::end_err(&e)],
    };
    let names: Vec<String> = fai.as_ref().iter().map(|r| r.name().to_string()).collect();
    let inner = fasta::io::BufReader::Bgzf(bgzf::io::IndexedReader::new(Cursor::new(data), gzi));
    let mut reader = fasta::io::IndexedReader::new(inner, fai);
    let mut log = Vec::new();
    let mut regions = Vec::new();
    for (i, n) in names.iter().enumerate().take(3) {
        regions.push(n.clone());
        regions.push(if i == 0 { format!("{n}:1-50") } else { format!("{n}:100-150") });
        regions.push(format!("{n}:190-200"));
    }
    for r in regions {
        let Ok(region) = r.parse::<noodles_core::Region>() else { continue };
        match reader.query(&region) {
            Ok(rec) => log.push(format!("fasta {region}: {}", vnd::drive::render_fasta_record(rec.name(), rec.description().map(|d| d.as_ref()), rec.sequence().as_ref()))),
            Err(e) => log.push(format!("fasta {region}: {}", vnd::render_err(&e))),
        }
    }
    log.push(vnd::end_eof());
    log
}
