//! Independent structural walks (written from the format specifications; no noodles code) that locate
//! boundaries and length / count / offset fields in corpus documents.

use crate::{Enc, Field};

pub fn le_u16(b: &[u8], p: usize) -> Option<usize> {
    b.get(p..p + 2).map(|s| u16::from_le_bytes(s.try_into().unwrap()) as usize)
}
pub fn le_u32(b: &[u8], p: usize) -> Option<usize> {
    b.get(p..p + 4).map(|s| u32::from_le_bytes(s.try_into().unwrap()) as usize)
}
pub fn le_i32(b: &[u8], p: usize) -> Option<i64> {
    b.get(p..p + 4).map(|s| i32::from_le_bytes(s.try_into().unwrap()) as i64)
}
pub fn le_u64(b: &[u8], p: usize) -> Option<u64> {
    b.get(p..p + 8).map(|s| u64::from_le_bytes(s.try_into().unwrap()))
}

#[derive(Default, Debug, Clone)]
pub struct Walk {
    pub boundaries: Vec<usize>,
    pub fields: Vec<Field>,
    /// Ends of the items that follow the header (records / lines / containers).
    pub record_ends: Vec<usize>,
    pub header_end: usize,
    /// Set when the walk could not follow the document to its end (corpus build treats it as an error).
    pub error: Option<String>,
}

impl Walk {
    fn b(&mut self, p: usize) {
        self.boundaries.push(p);
    }
    fn f(&mut self, offset: usize, width: usize, kind: &'static str) {
        self.fields.push(Field { offset, width, kind, enc: Enc::Le, extra: Vec::new() });
    }
    fn fe(&mut self, offset: usize, width: usize, kind: &'static str, enc: Enc) {
        self.fields.push(Field { offset, width, kind, enc, extra: Vec::new() });
    }
    pub fn finish(mut self, len: usize) -> Self {
        self.boundaries.retain(|&p| p <= len);
        self.boundaries.sort_unstable();
        self.boundaries.dedup();
        self.record_ends.sort_unstable();
        self.record_ends.dedup();
        self
    }
    fn fail(mut self, len: usize, msg: impl Into<String>) -> Self {
        self.error = Some(msg.into());
        self.finish(len)
    }
}

// --------------------------------------------------------------------------------------- BGZF

/// Outer BGZF geometry (members found with `vmc::oracle::bgzf::walk`).
pub fn bgzf_outer(bytes: &[u8]) -> (Walk, Vec<vmc::oracle::bgzf::Member>) {
    let mut w = Walk::default();
    let members = match vmc::oracle::bgzf::walk(bytes) {
        Ok(m) => m,
        Err(e) => return (w.fail(bytes.len(), e), Vec::new()),
    };
    for m in &members {
        let o = m.offset;
        w.b(o);
        w.b(o + 12); // fixed gzip header
        w.b(o + 18); // BGZF extra field
        w.b(o + m.size - 8); // end of CDATA
        w.b(o + m.size - 4);
        w.b(o + m.size);
        w.record_ends.push(o + m.size);
        w.f(o + 10, 2, "bgzf.xlen");
        w.f(o + 14, 2, "bgzf.slen");
        w.f(o + 16, 2, "bgzf.bsize");
        w.f(o + m.size - 8, 4, "bgzf.crc32");
        w.f(o + m.size - 4, 4, "bgzf.isize");
    }
    (w.finish(bytes.len()), members)
}

// --------------------------------------------------------------------------------------- BAM

fn bam_aux(w: &mut Walk, b: &[u8], mut p: usize, end: usize) -> Result<(), String> {
    while p < end {
        if p + 3 > end {
            return Err(format!("aux field header at {p} crosses record end {end}"));
        }
        let ty = b[p + 2];
        p += 3;
        let n = match ty {
            b'A' | b'c' | b'C' => 1,
            b's' | b'S' => 2,
            b'i' | b'I' | b'f' => 4,
            b'Z' | b'H' => {
                let z = b[p..end].iter().position(|&c| c == 0).ok_or("unterminated aux string")?;
                z + 1
            }
            b'B' => {
                let sub = b[p];
                let count = le_u32(b, p + 1).ok_or("aux array count")?;
                w.f(p, 1, "bam.aux.array_subtype");
                w.f(p + 1, 4, "bam.aux.array_count");
                let es = match sub {
                    b'c' | b'C' => 1,
                    b's' | b'S' => 2,
                    b'i' | b'I' | b'f' => 4,
                    _ => return Err(format!("aux array subtype {sub}")),
                };
                // counts for which the array ends exactly at, or 1-2 bytes / elements around, the record end
                let remaining = end.saturating_sub(p + 5);
                let mut extra = Vec::new();
                for d in -2i64..=2 {
                    let bytes = remaining as i64 + d;
                    if bytes >= 0 {
                        extra.push((bytes as u64) / es as u64);
                        extra.push((bytes as u64).div_ceil(es as u64));
                    }
                }
                extra.sort_unstable();
                extra.dedup();
                if let Some(f) = w.fields.last_mut() {
                    f.extra = extra;
                }
                5 + es * count
            }
            _ => return Err(format!("aux type {ty}")),
        };
        w.f(p - 1, 1, "bam.aux.type");
        p += n;
        w.b(p);
    }
    if p != end {
        return Err(format!("aux walk ended at {p}, record ends at {end}"));
    }
    Ok(())
}

/// Walks an uncompressed BAM stream.
pub fn bam(b: &[u8]) -> Walk {
    let mut w = Walk::default();
    let len = b.len();
    if b.get(..4) != Some(b"BAM\x01") {
        return w.fail(len, "BAM magic");
    }
    w.b(4);
    let Some(l_text) = le_u32(b, 4) else { return w.fail(len, "l_text") };
    w.f(4, 4, "bam.l_text");
    w.b(8);
    let mut p = 8 + l_text;
    w.b(p);
    let Some(n_ref) = le_u32(b, p) else { return w.fail(len, "n_ref") };
    w.f(p, 4, "bam.n_ref");
    p += 4;
    w.b(p);
    for _ in 0..n_ref {
        let Some(l_name) = le_u32(b, p) else { return w.fail(len, "l_name") };
        w.f(p, 4, "bam.ref.l_name");
        p += 4 + l_name;
        w.b(p);
        if le_u32(b, p).is_none() {
            return w.fail(len, "l_ref");
        }
        w.f(p, 4, "bam.ref.l_ref");
        p += 4;
        w.b(p);
    }
    w.header_end = p;
    while p < len {
        let Some(bs) = le_u32(b, p) else { return w.fail(len, "block_size") };
        let end = p + 4 + bs;
        if end > len || bs < 32 {
            return w.fail(len, format!("record at {p}: block_size {bs}"));
        }
        w.f(p, 4, "bam.block_size");
        let r = p + 4;
        w.b(r);
        w.f(r, 4, "bam.ref_id");
        w.f(r + 4, 4, "bam.pos");
        w.f(r + 8, 1, "bam.l_read_name");
        w.f(r + 10, 2, "bam.bin");
        w.f(r + 12, 2, "bam.n_cigar_op");
        w.f(r + 14, 2, "bam.flag");
        w.f(r + 16, 4, "bam.l_seq");
        w.f(r + 20, 4, "bam.next_ref_id");
        w.f(r + 24, 4, "bam.next_pos");
        let l_read_name = b[r + 8] as usize;
        let n_cigar = le_u16(b, r + 12).unwrap();
        let l_seq = le_u32(b, r + 16).unwrap();
        {
            // layout-aware values: the fixed part (… + packed bases + qualities) ends exactly at the block end or
            // 1-2 bytes before / after it
            let fixed = |n: usize, c: usize, l: usize| 32 + n + 4 * c + l.div_ceil(2) + l;
            let near = |x: usize| (x as i64 - bs as i64).abs() <= 2;
            let base = w.fields.len() - 9;
            let mut ex_bs = Vec::new();
            for d in -2i64..=2 {
                let v = fixed(l_read_name, n_cigar, l_seq) as i64 + d;
                if v >= 0 {
                    ex_bs.push(v as u64);
                }
            }
            let ex_name: Vec<u64> = (0..=255usize).filter(|&n| near(fixed(n, n_cigar, l_seq))).map(|n| n as u64).collect();
            let ex_cig: Vec<u64> = (0..=(bs / 4 + 2).min(65535)).filter(|&c| near(fixed(l_read_name, c, l_seq))).map(|c| c as u64).collect();
            let ex_seq: Vec<u64> = (0..=bs + 4).filter(|&l| near(fixed(l_read_name, n_cigar, l))).map(|l| l as u64).collect();
            // fields were pushed in the order: block_size, ref_id, pos, l_read_name, bin, n_cigar_op, flag, l_seq, …
            for (i, ex) in [(base - 1, ex_bs), (base + 2, ex_name), (base + 4, ex_cig), (base + 6, ex_seq)] {
                if let Some(f) = w.fields.get_mut(i) {
                    f.extra = ex;
                }
            }
        }
        let mut q = r + 32;
        w.b(q);
        q += l_read_name;
        w.b(q);
        q += 4 * n_cigar;
        w.b(q);
        q += l_seq.div_ceil(2);
        w.b(q);
        q += l_seq;
        w.b(q);
        if q > end {
            return w.fail(len, format!("record at {p}: fixed fields overrun block_size"));
        }
        if let Err(e) = bam_aux(&mut w, b, q, end) {
            return w.fail(len, format!("record at {p}: {e}"));
        }
        w.b(end);
        w.record_ends.push(end);
        p = end;
    }
    w.finish(len)
}

// --------------------------------------------------------------------------------------- BCF

/// Size of a typed value at `p`; records the descriptor as a field. Returns the offset after it.
fn bcf_typed(w: &mut Walk, b: &[u8], p: usize, kind: &'static str) -> Result<usize, String> {
    let d = *b.get(p).ok_or("typed descriptor past end")?;
    w.f(p, 1, kind);
    let ty = d & 0x0f;
    let mut n = (d >> 4) as usize;
    let mut q = p + 1;
    if n == 15 {
        // length follows as a typed integer
        let d2 = *b.get(q).ok_or("typed length past end")?;
        w.f(q, 1, "bcf.typed.len_descriptor");
        let t2 = d2 & 0x0f;
        q += 1;
        n = match t2 {
            1 => {
                w.f(q, 1, "bcf.typed.len");
                let v = *b.get(q).ok_or("len")? as usize;
                q += 1;
                v
            }
            2 => {
                w.f(q, 2, "bcf.typed.len");
                let v = le_u16(b, q).ok_or("len")?;
                q += 2;
                v
            }
            3 => {
                w.f(q, 4, "bcf.typed.len");
                let v = le_u32(b, q).ok_or("len")?;
                q += 4;
                v
            }
            _ => return Err(format!("typed length of type {t2}")),
        };
    }
    let es = match ty {
        0 => 0,
        1 | 7 => 1,
        2 => 2,
        3 | 5 => 4,
        _ => return Err(format!("typed value of type {ty}")),
    };
    let end = q + es * n;
    if end > b.len() {
        return Err("typed value past end".into());
    }
    Ok(end)
}

/// Walks an uncompressed BCF stream.
pub fn bcf(b: &[u8]) -> Walk {
    let mut w = Walk::default();
    let len = b.len();
    if b.get(..5) != Some(b"BCF\x02\x02") {
        return w.fail(len, "BCF magic");
    }
    w.b(3);
    w.b(5);
    let Some(l_text) = le_u32(b, 5) else { return w.fail(len, "l_text") };
    w.f(5, 4, "bcf.l_text");
    w.b(9);
    let mut p = 9 + l_text;
    w.b(p);
    w.header_end = p;
    while p < len {
        let (Some(l_shared), Some(l_indiv)) = (le_u32(b, p), le_u32(b, p + 4)) else {
            return w.fail(len, "l_shared/l_indiv");
        };
        w.f(p, 4, "bcf.l_shared");
        w.f(p + 4, 4, "bcf.l_indiv");
        let s = p + 8;
        let shared_end = s + l_shared;
        let end = shared_end + l_indiv;
        if end > len || l_shared < 24 {
            return w.fail(len, format!("record at {p}: sizes"));
        }
        w.b(s);
        w.f(s, 4, "bcf.chrom");
        w.f(s + 4, 4, "bcf.pos");
        w.f(s + 8, 4, "bcf.rlen");
        w.f(s + 16, 2, "bcf.n_info");
        w.f(s + 18, 2, "bcf.n_allele");
        w.f(s + 20, 3, "bcf.n_sample");
        w.f(s + 23, 1, "bcf.n_fmt");
        let n_info = le_u16(b, s + 16).unwrap();
        let n_allele = le_u16(b, s + 18).unwrap();
        let n_fmt = b[s + 23] as usize;
        let n_sample = le_u32(b, s + 20).unwrap() & 0x00ff_ffff;
        let mut q = s + 24;
        w.b(q);
        let r: Result<(), String> = (|| {
            q = bcf_typed(&mut w, b, q, "bcf.id.descriptor")?;
            w.b(q);
            for _ in 0..n_allele {
                q = bcf_typed(&mut w, b, q, "bcf.allele.descriptor")?;
                w.b(q);
            }
            q = bcf_typed(&mut w, b, q, "bcf.filter.descriptor")?;
            w.b(q);
            for _ in 0..n_info {
                q = bcf_typed(&mut w, b, q, "bcf.info.key_descriptor")?;
                q = bcf_typed(&mut w, b, q, "bcf.info.value_descriptor")?;
                w.b(q);
            }
            if q != shared_end {
                return Err(format!("shared walk ended at {q}, l_shared says {shared_end}"));
            }
            for _ in 0..n_fmt {
                q = bcf_typed(&mut w, b, q, "bcf.format.key_descriptor")?;
                // per-sample vectors: descriptor gives the per-sample length
                let d = *b.get(q).ok_or("format descriptor")?;
                let save = w.fields.len();
                let after_one = bcf_typed(&mut w, b, q, "bcf.format.value_descriptor")?;
                let _ = d;
                // header bytes of the typed value
                let hdr = w.fields[save..].iter().map(|f| f.width).sum::<usize>();
                let one = after_one - q - hdr;
                q = q + hdr + one * n_sample;
                if q > b.len() {
                    return Err("format values past end".into());
                }
                w.b(q);
            }
            if q != end {
                return Err(format!("indiv walk ended at {q}, l_indiv says {end}"));
            }
            Ok(())
        })();
        if let Err(e) = r {
            return w.fail(len, format!("record at {p}: {e}"));
        }
        w.b(end);
        w.record_ends.push(end);
        p = end;
    }
    w.finish(len)
}

// --------------------------------------------------------------------------------------- CRAM

/// Decodes an ITF8 at `p`: (value, width).
pub fn itf8(b: &[u8], p: usize) -> Option<(i32, usize)> {
    let b0 = *b.get(p)? as u32;
    let g = |i: usize| b.get(p + i).map(|&x| x as u32);
    Some(if b0 & 0x80 == 0 {
        (b0 as i32, 1)
    } else if b0 & 0x40 == 0 {
        ((((b0 & 0x7f) << 8) | g(1)?) as i32, 2)
    } else if b0 & 0x20 == 0 {
        ((((b0 & 0x3f) << 16) | (g(1)? << 8) | g(2)?) as i32, 3)
    } else if b0 & 0x10 == 0 {
        ((((b0 & 0x1f) << 24) | (g(1)? << 16) | (g(2)? << 8) | g(3)?) as i32, 4)
    } else {
        ((((b0 & 0x0f) << 28) | (g(1)? << 20) | (g(2)? << 12) | (g(3)? << 4) | (g(4)? & 0x0f)) as i32, 5)
    })
}

pub fn itf8_encode(v: i32) -> Vec<u8> {
    let n = v as u32;
    if n >> 7 == 0 {
        vec![n as u8]
    } else if n >> 14 == 0 {
        vec![(n >> 8) as u8 | 0x80, n as u8]
    } else if n >> 21 == 0 {
        vec![(n >> 16) as u8 | 0xc0, (n >> 8) as u8, n as u8]
    } else if n >> 28 == 0 {
        vec![(n >> 24) as u8 | 0xe0, (n >> 16) as u8, (n >> 8) as u8, n as u8]
    } else {
        vec![
            (n >> 28) as u8 | 0xf0,
            (n >> 20) as u8,
            (n >> 12) as u8,
            (n >> 4) as u8,
            (n & 0x0f) as u8,
        ]
    }
}

/// Width of an LTF8 at `p`.
pub fn ltf8_width(b: &[u8], p: usize) -> Option<usize> {
    let b0 = *b.get(p)?;
    let w = b0.leading_ones() as usize + 1;
    if p + w.min(9) <= b.len() { Some(w.min(9)) } else { None }
}

#[derive(Clone, Debug)]
pub struct CramBlock {
    pub start: usize,
    /// Offset of the block data.
    pub data: usize,
    /// Offset of the CRC32 (end of data).
    pub crc: usize,
    pub method: u8,
    pub content_type: u8,
}

#[derive(Clone, Debug)]
pub struct CramContainer {
    pub start: usize,
    /// Offset of the header CRC32.
    pub header_crc: usize,
    /// First byte after the header (= start of the blocks).
    pub body: usize,
    pub end: usize,
    pub n_records: i32,
    pub blocks: Vec<CramBlock>,
    pub is_eof: bool,
}

fn cram_encoding(w: &mut Walk, b: &[u8], mut p: usize, end: usize) -> Option<usize> {
    // encoding: id itf8, parameter length itf8, parameters
    let (_, n) = itf8(b, p)?;
    w.fe(p, n, "cram.encoding.id", Enc::Itf8);
    p += n;
    let (l, n) = itf8(b, p)?;
    w.fe(p, n, "cram.encoding.args_len", Enc::Itf8);
    p += n;
    let q = p + l as usize;
    if l < 0 || q > end {
        return None;
    }
    // first argument (external: block content id; byte array len: nested; others: counts)
    if l > 0 {
        if let Some((_, n)) = itf8(b, p) {
            if p + n <= q {
                w.fe(p, n, "cram.encoding.arg0", Enc::Itf8);
            }
        }
    }
    Some(q)
}

/// Light walk over a raw compression header (preservation map, data series encodings, tag encodings).
fn cram_compression_header(w: &mut Walk, b: &[u8], start: usize, end: usize) -> Option<()> {
    let mut p = start;
    // preservation map
    let (sz, n) = itf8(b, p)?;
    w.fe(p, n, "cram.preservation_map.size", Enc::Itf8);
    p += n;
    let map_end = p + sz as usize;
    if let Some((_, n)) = itf8(b, p) {
        w.fe(p, n, "cram.preservation_map.count", Enc::Itf8);
    }
    w.b(map_end);
    p = map_end;
    // data series encodings
    let (sz, n) = itf8(b, p)?;
    w.fe(p, n, "cram.data_series_encodings.size", Enc::Itf8);
    p += n;
    let map_end = p + sz as usize;
    let (count, n) = itf8(b, p)?;
    w.fe(p, n, "cram.data_series_encodings.count", Enc::Itf8);
    p += n;
    for _ in 0..count {
        p += 2; // key
        p = cram_encoding(w, b, p, end.min(map_end))?;
        w.b(p);
    }
    w.b(map_end);
    p = map_end;
    // tag encodings
    let (sz, n) = itf8(b, p)?;
    w.fe(p, n, "cram.tag_encodings.size", Enc::Itf8);
    p += n;
    let map_end = p + sz as usize;
    let (count, n) = itf8(b, p)?;
    w.fe(p, n, "cram.tag_encodings.count", Enc::Itf8);
    p += n;
    for _ in 0..count {
        let (_, n) = itf8(b, p)?;
        w.fe(p, n, "cram.tag_encodings.key", Enc::Itf8);
        p += n;
        p = cram_encoding(w, b, p, end.min(map_end))?;
        w.b(p);
    }
    Some(())
}

/// Light walk over a raw slice header.
fn cram_slice_header(w: &mut Walk, b: &[u8], start: usize, end: usize) -> Option<()> {
    let mut p = start;
    for kind in ["cram.slice.ref_id", "cram.slice.start", "cram.slice.span", "cram.slice.n_records"] {
        let (_, n) = itf8(b, p)?;
        w.fe(p, n, kind, Enc::Itf8);
        p += n;
    }
    let n = ltf8_width(b, p)?;
    w.fe(p, n, "cram.slice.record_counter", Enc::Ltf8);
    p += n;
    let (_, n) = itf8(b, p)?;
    w.fe(p, n, "cram.slice.n_blocks", Enc::Itf8);
    p += n;
    let (count, n) = itf8(b, p)?;
    w.fe(p, n, "cram.slice.n_content_ids", Enc::Itf8);
    p += n;
    for _ in 0..count {
        let (_, n) = itf8(b, p)?;
        w.fe(p, n, "cram.slice.content_id", Enc::Itf8);
        p += n;
    }
    let (_, n) = itf8(b, p)?;
    w.fe(p, n, "cram.slice.embedded_ref_id", Enc::Itf8);
    p += n;
    let _ = end;
    Some(())
}

/// Walks a CRAM 3.x file: file definition, containers, block headers.
pub fn cram(b: &[u8]) -> (Walk, Vec<CramContainer>) {
    let mut w = Walk::default();
    let mut cs = Vec::new();
    let len = b.len();
    if b.get(..4) != Some(b"CRAM") || len < 26 {
        return (w.fail(len, "CRAM magic"), cs);
    }
    w.b(4);
    w.b(6);
    w.b(26);
    w.header_end = 26;
    let mut p = 26;
    let mut k = 0;
    while p < len {
        let start = p;
        let Some(length) = le_i32(b, p) else { return (w.fail(len, "container length"), cs) };
        w.f(p, 4, "cram.container.length");
        p += 4;
        macro_rules! it {
            ($kind:expr) => {{
                let Some((v, n)) = itf8(b, p) else { return (w.fail(len, $kind), cs) };
                w.fe(p, n, $kind, Enc::Itf8);
                p += n;
                v
            }};
        }
        macro_rules! lt {
            ($kind:expr) => {{
                let Some(n) = ltf8_width(b, p) else { return (w.fail(len, $kind), cs) };
                w.fe(p, n, $kind, Enc::Ltf8);
                p += n;
            }};
        }
        it!("cram.container.ref_id");
        it!("cram.container.start");
        it!("cram.container.span");
        let n_records = it!("cram.container.n_records");
        lt!("cram.container.record_counter");
        lt!("cram.container.bases");
        let n_blocks = it!("cram.container.n_blocks");
        let n_landmarks = it!("cram.container.n_landmarks");
        for _ in 0..n_landmarks {
            it!("cram.container.landmark");
        }
        let header_crc = p;
        w.f(p, 4, "cram.container.crc32");
        p += 4;
        let body = p;
        w.b(header_crc);
        w.b(body);
        let end = body + length as usize;
        if length < 0 || end > len {
            return (w.fail(len, format!("container at {start}: length {length}")), cs);
        }
        let mut blocks = Vec::new();
        while p < end {
            let bstart = p;
            if p + 2 > end {
                return (w.fail(len, "block header"), cs);
            }
            let method = b[p];
            let content_type = b[p + 1];
            w.f(p, 1, "cram.block.method");
            w.f(p + 1, 1, "cram.block.content_type");
            p += 2;
            it!("cram.block.content_id");
            let csize = it!("cram.block.compressed_size");
            it!("cram.block.uncompressed_size");
            let data = p;
            let crc = data + csize as usize;
            if csize < 0 || crc + 4 > end {
                return (w.fail(len, format!("block at {bstart}: size {csize}")), cs);
            }
            w.b(data);
            w.b(crc);
            w.f(crc, 4, "cram.block.crc32");
            if method == 0 && content_type == 1 && k > 0 {
                let _ = cram_compression_header(&mut w, b, data, crc);
            }
            if method == 0 && content_type == 2 {
                let _ = cram_slice_header(&mut w, b, data, crc);
            }
            p = crc + 4;
            w.b(p);
            blocks.push(CramBlock { start: bstart, data, crc, method, content_type });
        }
        let _ = n_blocks;
        w.b(end);
        w.record_ends.push(end);
        let is_eof = n_records == 0 && end == len && k > 0 && length == 15;
        cs.push(CramContainer { start, header_crc, body, end, n_records, blocks, is_eof });
        p = end;
        k += 1;
    }
    (w.finish(len), cs)
}

// --------------------------------------------------------------------------------------- indexes

fn bins(w: &mut Walk, b: &[u8], mut p: usize, csi: bool, pfx: [&'static str; 4]) -> Option<usize> {
    let n_bin = le_u32(b, p)?;
    w.f(p, 4, pfx[0]);
    p += 4;
    for _ in 0..n_bin {
        le_u32(b, p)?;
        w.f(p, 4, pfx[1]);
        p += 4;
        if csi {
            le_u64(b, p)?;
            w.f(p, 8, pfx[3]);
            p += 8;
        }
        let n_chunk = le_u32(b, p)?;
        w.f(p, 4, pfx[2]);
        p += 4;
        w.b(p);
        for _ in 0..n_chunk {
            le_u64(b, p + 8)?;
            p += 16;
            w.b(p);
        }
    }
    Some(p)
}

fn intervals(w: &mut Walk, b: &[u8], mut p: usize, kind: &'static str) -> Option<usize> {
    let n = le_u32(b, p)?;
    w.f(p, 4, kind);
    p += 4;
    w.b(p);
    le_u64(b, (p + 8 * n).checked_sub(8)?).or(if n == 0 { Some(0) } else { None })?;
    p += 8 * n;
    w.b(p);
    Some(p)
}

/// BAI. `header_end` is set to the offset of the optional trailing `n_no_coor` (or the length).
pub fn bai(b: &[u8]) -> Walk {
    let mut w = Walk::default();
    let len = b.len();
    if b.get(..4) != Some(b"BAI\x01") {
        return w.fail(len, "BAI magic");
    }
    w.b(4);
    let Some(n_ref) = le_u32(b, 4) else { return w.fail(len, "n_ref") };
    w.f(4, 4, "bai.n_ref");
    let mut p = 8;
    w.b(p);
    for _ in 0..n_ref {
        let Some(q) = bins(&mut w, b, p, false, ["bai.n_bin", "bai.bin", "bai.n_chunk", ""]) else {
            return w.fail(len, "bins");
        };
        let Some(q) = intervals(&mut w, b, q, "bai.n_intv") else { return w.fail(len, "intervals") };
        p = q;
        w.record_ends.push(p);
    }
    w.header_end = p;
    if p + 8 == len {
        w.f(p, 8, "bai.n_no_coor");
        p += 8;
    }
    if p != len {
        return w.fail(len, format!("BAI walk ended at {p} of {len}"));
    }
    w.finish(len)
}

/// Uncompressed CSI stream.
pub fn csi(b: &[u8]) -> Walk {
    let mut w = Walk::default();
    let len = b.len();
    if b.get(..4) != Some(b"CSI\x01") {
        return w.fail(len, "CSI magic");
    }
    w.b(4);
    w.f(4, 4, "csi.min_shift");
    w.f(8, 4, "csi.depth");
    let Some(l_aux) = le_u32(b, 12) else { return w.fail(len, "l_aux") };
    w.f(12, 4, "csi.l_aux");
    w.b(16);
    if l_aux >= 28 {
        // tabix-style header in aux
        for (i, k) in ["csi.aux.format", "csi.aux.col_seq", "csi.aux.col_beg", "csi.aux.col_end", "csi.aux.meta", "csi.aux.skip", "csi.aux.l_nm"].iter().enumerate() {
            w.f(16 + 4 * i, 4, k);
        }
    }
    let mut p = 16 + l_aux;
    w.b(p);
    let Some(n_ref) = le_u32(b, p) else { return w.fail(len, "n_ref") };
    w.f(p, 4, "csi.n_ref");
    p += 4;
    w.b(p);
    for _ in 0..n_ref {
        let Some(q) = bins(&mut w, b, p, true, ["csi.n_bin", "csi.bin", "csi.n_chunk", "csi.loffset"]) else {
            return w.fail(len, "bins");
        };
        p = q;
        w.record_ends.push(p);
    }
    w.header_end = p;
    if p + 8 == len {
        w.f(p, 8, "csi.n_no_coor");
        p += 8;
    }
    if p != len {
        return w.fail(len, format!("CSI walk ended at {p} of {len}"));
    }
    w.finish(len)
}

/// Uncompressed tabix stream.
pub fn tbi(b: &[u8]) -> Walk {
    let mut w = Walk::default();
    let len = b.len();
    if b.get(..4) != Some(b"TBI\x01") {
        return w.fail(len, "TBI magic");
    }
    w.b(4);
    let Some(n_ref) = le_u32(b, 4) else { return w.fail(len, "n_ref") };
    w.f(4, 4, "tbi.n_ref");
    for (i, k) in ["tbi.format", "tbi.col_seq", "tbi.col_beg", "tbi.col_end", "tbi.meta", "tbi.skip", "tbi.l_nm"].iter().enumerate() {
        w.f(8 + 4 * i, 4, k);
    }
    let Some(l_nm) = le_u32(b, 32) else { return w.fail(len, "l_nm") };
    w.b(36);
    let mut p = 36 + l_nm;
    w.b(p);
    for _ in 0..n_ref {
        let Some(q) = bins(&mut w, b, p, false, ["tbi.n_bin", "tbi.bin", "tbi.n_chunk", ""]) else {
            return w.fail(len, "bins");
        };
        let Some(q) = intervals(&mut w, b, q, "tbi.n_intv") else { return w.fail(len, "intervals") };
        p = q;
        w.record_ends.push(p);
    }
    w.header_end = p;
    if p + 8 == len {
        w.f(p, 8, "tbi.n_no_coor");
        p += 8;
    }
    if p != len {
        return w.fail(len, format!("TBI walk ended at {p} of {len}"));
    }
    w.finish(len)
}

pub fn gzi(b: &[u8]) -> Walk {
    let mut w = Walk::default();
    let len = b.len();
    let Some(n) = le_u64(b, 0) else { return w.fail(len, "gzi count") };
    w.f(0, 8, "gzi.n");
    w.b(8);
    let mut p = 8;
    for _ in 0..n {
        if le_u64(b, p + 8).is_none() {
            return w.fail(len, "gzi entry");
        }
        w.f(p, 8, "gzi.compressed_offset");
        w.f(p + 8, 8, "gzi.uncompressed_offset");
        p += 16;
        w.b(p);
        w.record_ends.push(p);
    }
    w.header_end = 8;
    if p != len {
        return w.fail(len, format!("gzi walk ended at {p} of {len}"));
    }
    w.finish(len)
}

// --------------------------------------------------------------------------------------- text

/// Line ends and field (tab / given separators) ends; with `ints`, decimal runs in tab-separated columns
/// become `Enc::Text` fields.
pub fn text(b: &[u8], seps: &[u8], ints_kind: Option<&'static str>) -> Walk {
    let mut w = Walk::default();
    let mut line_start = 0;
    let mut field_start = 0;
    for (i, &c) in b.iter().enumerate() {
        let is_nl = c == b'\n';
        if is_nl || seps.contains(&c) {
            w.b(i);
            w.b(i + 1);
            if let Some(kind) = ints_kind {
                let f = &b[field_start..i];
                let f = f.strip_suffix(b"\r").unwrap_or(f);
                if !f.is_empty() && f.iter().all(|c| c.is_ascii_digit()) {
                    w.fe(field_start, f.len(), kind, Enc::Text);
                }
            }
            field_start = i + 1;
        }
        if c == b'\r' {
            w.b(i);
        }
        if is_nl {
            w.record_ends.push(i + 1);
            line_start = i + 1;
        }
    }
    if line_start < b.len() {
        w.record_ends.push(b.len());
    }
    w.finish(b.len())
}
