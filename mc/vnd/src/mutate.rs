//! Mutation helpers: re-sealing of checksums so that a corruption reaches the decoder.
//!
//! * BGZF: payload mutations are applied to the uncompressed stream; the affected members are rebuilt with
//!   `vmc::oracle::bgzf::make_block` (miniz_oxide + crc32fast), all other members are kept byte for byte.
//! * CRAM: container-header and block CRC32s are recomputed by a tolerant re-walk of the mutated file.
//! * gzip (crai): the single member is rebuilt.

use std::sync::Arc;

use crate::{Doc, Enc, Field, walk};

pub fn crc32(b: &[u8]) -> u32 {
    let mut h = crc32fast::Hasher::new();
    h.update(b);
    h.finalize()
}

// ------------------------------------------------------------------------------------------ gzip

/// Parses a single-member gzip file (RFC 1952); returns (payload, offset of the deflate stream).
pub fn gunzip(b: &[u8]) -> Result<(Vec<u8>, usize), String> {
    if b.len() < 18 || b[0] != 0x1f || b[1] != 0x8b || b[2] != 8 {
        return Err("not a gzip member".into());
    }
    let flg = b[3];
    let mut p = 10;
    if flg & 4 != 0 {
        let xlen = walk::le_u16(b, p).ok_or("xlen")?;
        p += 2 + xlen;
    }
    if flg & 8 != 0 {
        p += b[p..].iter().position(|&c| c == 0).ok_or("fname")? + 1;
    }
    if flg & 16 != 0 {
        p += b[p..].iter().position(|&c| c == 0).ok_or("fcomment")? + 1;
    }
    if flg & 2 != 0 {
        p += 2;
    }
    if p + 8 > b.len() {
        return Err("gzip header overruns".into());
    }
    let isize = walk::le_u32(b, b.len() - 4).unwrap();
    let (out, used) = vmc::oracle::bgzf::inflate_raw(&b[p..b.len() - 8], isize.max(1 << 16))?;
    if p + used + 8 != b.len() {
        return Err(format!("gzip: deflate stream uses {used} bytes, trailer expected at {}", b.len() - 8));
    }
    if out.len() != isize || crc32(&out) != walk::le_u32(b, b.len() - 8).unwrap() as u32 {
        return Err("gzip: ISIZE / CRC32 mismatch".into());
    }
    Ok((out, p))
}

pub fn gzip(payload: &[u8]) -> Vec<u8> {
    let mut out = vec![0x1f, 0x8b, 8, 0, 0, 0, 0, 0, 0, 0xff];
    out.extend(miniz_oxide::deflate::compress_to_vec(payload, 6));
    out.extend_from_slice(&crc32(payload).to_le_bytes());
    out.extend_from_slice(&(payload.len() as u32).to_le_bytes());
    out
}

// ------------------------------------------------------------------------------------------ BGZF

/// A BGZF document prepared for payload mutation.
pub struct BgzfDoc {
    pub bytes: Arc<Vec<u8>>,
    /// (file offset, size, uncompressed start, uncompressed length)
    pub members: Vec<(usize, usize, usize, usize)>,
    pub inner: Arc<Vec<u8>>,
}

impl BgzfDoc {
    pub fn new(doc: &Doc) -> Self {
        let (_, ms) = walk::bgzf_outer(&doc.bytes);
        let mut members = Vec::new();
        let mut u = 0;
        for m in &ms {
            members.push((m.offset, m.size, u, m.data.len()));
            u += m.data.len();
        }
        let inner = doc.inner.as_ref().map(|i| i.bytes.clone()).unwrap_or_default();
        Self { bytes: doc.bytes.clone(), members, inner }
    }

    /// Index of the member that holds uncompressed offset `upos`.
    pub fn member_of(&self, upos: usize) -> Option<usize> {
        self.members.iter().position(|&(_, _, s, l)| upos >= s && upos < s + l)
    }

    /// The file with `inner[upos..upos + new.len()]` replaced (same length) and the touched members re-made.
    pub fn patched(&self, upos: usize, new: &[u8]) -> Vec<u8> {
        let end = (upos + new.len()).min(self.inner.len());
        let mut out = Vec::with_capacity(self.bytes.len() + 64);
        for &(off, size, s, l) in &self.members {
            if l > 0 && upos < s + l && end > s {
                let mut data = self.inner[s..s + l].to_vec();
                let a = upos.max(s);
                let b = end.min(s + l);
                data[a - s..b - s].copy_from_slice(&new[a - upos..b - upos]);
                out.extend(vmc::oracle::bgzf::make_block(&data, 1));
            } else {
                out.extend_from_slice(&self.bytes[off..off + size]);
            }
        }
        out
    }

    /// The file rebuilt around a different uncompressed stream with the same member split points (the last
    /// data member absorbs any length change). Used for length-changing mutations.
    pub fn rebuilt(&self, inner: &[u8]) -> Vec<u8> {
        let mut out = Vec::new();
        let last_data = self.members.iter().rposition(|m| m.3 > 0);
        for (i, &(off, size, s, l)) in self.members.iter().enumerate() {
            if l == 0 {
                out.extend_from_slice(&self.bytes[off..off + size]);
                continue;
            }
            let a = s.min(inner.len());
            let b = if Some(i) == last_data { inner.len() } else { (s + l).min(inner.len()) };
            for c in inner[a..b].chunks(65280) {
                out.extend(vmc::oracle::bgzf::make_block(c, 1));
            }
        }
        out
    }
}

// ------------------------------------------------------------------------------------------ CRAM

/// Recomputes every container-header and block CRC32 that a sequential walk of `b` can still locate.
/// Stops silently at the first structural inconsistency (the remaining bytes are left as they are).
pub fn reseal_cram(b: &mut [u8]) {
    let len = b.len();
    let mut p = 26;
    while p + 4 <= len {
        let start = p;
        let Some(length) = walk::le_i32(b, p) else { return };
        p += 4;
        // ref id, start, span, n_records
        for _ in 0..4 {
            let Some((_, n)) = walk::itf8(b, p) else { return };
            p += n;
        }
        for _ in 0..2 {
            let Some(n) = walk::ltf8_width(b, p) else { return };
            p += n;
        }
        let Some((_, n)) = walk::itf8(b, p) else { return };
        p += n;
        let Some((n_landmarks, n)) = walk::itf8(b, p) else { return };
        p += n;
        if !(0..=4096).contains(&n_landmarks) {
            return;
        }
        for _ in 0..n_landmarks {
            let Some((_, n)) = walk::itf8(b, p) else { return };
            p += n;
        }
        if p + 4 > len {
            return;
        }
        let c = crc32(&b[start..p]);
        b[p..p + 4].copy_from_slice(&c.to_le_bytes());
        p += 4;
        if length < 0 {
            return;
        }
        let end = p.saturating_add(length as usize).min(len);
        while p < end {
            let bstart = p;
            if p + 2 > end {
                break;
            }
            p += 2;
            let Some((_, n)) = walk::itf8(b, p) else { return };
            p += n;
            let Some((csize, n)) = walk::itf8(b, p) else { return };
            p += n;
            let Some((_, n)) = walk::itf8(b, p) else { return };
            p += n;
            if csize < 0 {
                return;
            }
            let crc_at = p.saturating_add(csize as usize);
            if crc_at + 4 > len {
                return;
            }
            let c = crc32(&b[bstart..crc_at]);
            b[crc_at..crc_at + 4].copy_from_slice(&c.to_le_bytes());
            p = crc_at + 4;
        }
        p = end.max(p);
    }
}

// ------------------------------------------------------------------------------------------ fields

pub fn ltf8_encode(v: u64) -> Vec<u8> {
    if v >> 7 == 0 {
        vec![v as u8]
    } else if v >> 14 == 0 {
        vec![(v >> 8) as u8 | 0x80, v as u8]
    } else if v >> 21 == 0 {
        vec![(v >> 16) as u8 | 0xc0, (v >> 8) as u8, v as u8]
    } else if v >> 28 == 0 {
        vec![(v >> 24) as u8 | 0xe0, (v >> 16) as u8, (v >> 8) as u8, v as u8]
    } else if v >> 35 == 0 {
        vec![(v >> 32) as u8 | 0xf0, (v >> 24) as u8, (v >> 16) as u8, (v >> 8) as u8, v as u8]
    } else {
        let mut out = vec![0xff];
        out.extend_from_slice(&v.to_be_bytes());
        out
    }
}

/// Current value of a located field.
pub fn field_value(b: &[u8], f: &Field) -> Option<u64> {
    match f.enc {
        Enc::Le => {
            let s = b.get(f.offset..f.offset + f.width)?;
            let mut v = 0u64;
            for (i, &x) in s.iter().enumerate() {
                v |= (x as u64) << (8 * i);
            }
            Some(v)
        }
        Enc::Itf8 => walk::itf8(b, f.offset).map(|(v, _)| v as u32 as u64),
        Enc::Ltf8 => {
            let w = walk::ltf8_width(b, f.offset)?;
            let b0 = b[f.offset] as u64;
            if w == 9 {
                return Some(u64::from_be_bytes(b[f.offset + 1..f.offset + 9].try_into().ok()?));
            }
            let mut v = b0 & (0xff >> w);
            for i in 1..w {
                v = (v << 8) | b[f.offset + i] as u64;
            }
            Some(v)
        }
        Enc::Text => std::str::from_utf8(b.get(f.offset..f.offset + f.width)?).ok()?.parse().ok(),
    }
}

/// Half-width of the dense window of values tried around the true value of a field.
pub const DENSE: u64 = 8;
/// Upper bound of the number of values `field_values` returns (12 boundary values, <= 10 layout-aware, 14 dense).
pub const MAX_FIELD_VALUES: usize = 40;

/// The structured mutation values for a field: {0, 1, v-1, v+1, 0x7f, 0x80, 0xffff, 2^31-1, 2^31, 2^32-1, 2^16, 2^24}
/// as far as the field's width allows (8-byte and text fields additionally get 2^63 and 2^64-1), without the
/// current value, deduplicated, in this order.
pub fn field_values(b: &[u8], f: &Field) -> Vec<u64> {
    let v = field_value(b, f);
    let max: u64 = match f.enc {
        Enc::Le if f.width < 8 => (1u64 << (8 * f.width)) - 1,
        Enc::Itf8 => u32::MAX as u64,
        _ => u64::MAX,
    };
    let mut c: Vec<u64> = vec![0, 1];
    if let Some(v) = v {
        c.push(v.wrapping_sub(1) & max);
        c.push(v.wrapping_add(1) & max);
    }
    c.extend_from_slice(&[0x7f, 0x80, 0xffff, (1 << 31) - 1, 1 << 31, u32::MAX as u64, 1 << 16, 1 << 24]);
    if max == u64::MAX {
        c.extend_from_slice(&[1 << 63, u64::MAX]);
    }
    // BCF typed descriptors: the long forms ("length follows as a typed integer") of every type; the byte after
    // the descriptor is then read as the length's descriptor
    if f.kind.contains("descriptor") && f.width == 1 {
        c.extend_from_slice(&[0xf0, 0xf1, 0xf2, 0xf3, 0xf5, 0xf7]);
    }
    // layout-aware values from the structural walk, then a dense window around the true value, so that "exactly
    // one byte / element short or long" boundaries are hit deterministically
    c.extend_from_slice(&f.extra);
    if let Some(v) = v {
        for d in 2..=DENSE {
            // (no wrap-around: v-1 above already gives the maximum for v = 0, and every value next to the maximum
            // of a count field costs a drive of up to 2^24 items)
            if d <= v {
                c.push(v - d);
            }
            if v.checked_add(d).map(|x| x <= max).unwrap_or(false) {
                c.push(v + d);
            }
        }
    }
    let mut out = Vec::new();
    for x in c {
        if x <= max && Some(x) != v && !out.contains(&x) && out.len() < MAX_FIELD_VALUES {
            out.push(x);
        }
    }
    out
}

/// Encoded bytes of `value` for the field (LE keeps the width; ITF8/LTF8/text may change it).
pub fn field_encode(f: &Field, value: u64) -> Vec<u8> {
    match f.enc {
        Enc::Le => value.to_le_bytes()[..f.width].to_vec(),
        Enc::Itf8 => walk::itf8_encode(value as u32 as i32),
        Enc::Ltf8 => ltf8_encode(value),
        Enc::Text => value.to_string().into_bytes(),
    }
}

/// `b` with the field replaced by `value` (no re-sealing).
pub fn splice_field(b: &[u8], f: &Field, value: u64) -> Vec<u8> {
    let enc = field_encode(f, value);
    let mut out = Vec::with_capacity(b.len() + 8);
    out.extend_from_slice(&b[..f.offset]);
    out.extend_from_slice(&enc);
    out.extend_from_slice(&b[f.offset + f.width..]);
    out
}
