//! Drivers for the public "raw sub-reader" adapters: `sam|vcf::io::Reader::header_reader()`,
//! `bam::io::Reader::header_reader()` → `raw_sam_header_reader()` (+ `read_reference_sequences`),
//! `bcf::io::Reader::header_reader()` → `raw_vcf_header_reader()`, `cram::io::Reader::header_reader()` →
//! `container_reader()` → `raw_sam_header_reader()`.
//!
//! The raw header is pulled through `io::Read::read` with a fixed destination size, `read_to_end`, or the `BufRead`
//! side; an `Interrupted` is retried like std callers do (by contract no bytes were read). After the adapter is
//! exhausted and dropped the records are read with the ordinary reader API. Log: `raw-header: …`, (`refs: n=…`),
//! `rec[i]: …`, `end: …` — the record lines are those of `read_log(.., Api::Eager, vpos = false)`.

use std::io::{self, BufRead, Read};

use noodles_bam as bam;
use noodles_bcf as bcf;
use noodles_bgzf as bgzf;
use noodles_cram as cram;
use noodles_sam as sam;
use noodles_vcf as vcf;

use crate::{
    Doc, Format, Opts,
    render::{self, end_eof, end_err, esc},
    walk,
};

#[derive(Clone, Copy, Debug, PartialEq, Eq, Hash)]
pub enum How {
    /// `Read::read` with a destination of this size, until `Ok(0)`.
    Read(usize),
    ReadToEnd,
    /// `fill_buf` / `consume` until an empty slice.
    FillBuf,
}

/// The header used to render the records that follow (obtained by an ordinary `read_header` of the document).
pub enum RefHeader {
    Sam(sam::Header),
    Vcf(vcf::Header),
}

pub fn has_adapter(d: &Doc) -> bool {
    matches!(d.format, Format::Sam | Format::SamGz | Format::Vcf | Format::VcfGz | Format::Bam | Format::Bcf | Format::Cram)
}

pub fn reference_header(d: &Doc) -> io::Result<RefHeader> {
    let b = &d.bytes[..];
    Ok(match d.format {
        Format::Sam => RefHeader::Sam(sam::io::Reader::new(b).read_header()?),
        Format::SamGz => RefHeader::Sam(sam::io::Reader::new(bgzf::io::Reader::new(b)).read_header()?),
        Format::Bam if d.raw => RefHeader::Sam(bam::io::Reader::from(b).read_header()?),
        Format::Bam => RefHeader::Sam(bam::io::Reader::new(b).read_header()?),
        Format::Cram => RefHeader::Sam(cram::io::Reader::new(b).read_header()?),
        Format::Vcf => RefHeader::Vcf(vcf::io::Reader::new(b).read_header()?),
        Format::VcfGz => RefHeader::Vcf(vcf::io::Reader::new(bgzf::io::Reader::new(b)).read_header()?),
        Format::Bcf if d.raw => RefHeader::Vcf(bcf::io::Reader::from(b).read_header()?),
        Format::Bcf => RefHeader::Vcf(bcf::io::Reader::new(b).read_header()?),
        _ => return Err(io::Error::new(io::ErrorKind::InvalidInput, "no adapter")),
    })
}

/// The header text of the document, found by an independent structural parse (not through noodles).
pub fn expected_header_text(d: &Doc) -> Option<Vec<u8>> {
    let stream: &[u8] = match (&d.inner, d.raw) {
        (Some(i), _) if d.format.is_bgzf() => &i.bytes,
        _ => &d.bytes,
    };
    let prefix_lines = |marker: u8| -> Vec<u8> {
        let mut p = 0;
        while p < stream.len() && stream[p] == marker {
            p += stream[p..].iter().position(|&c| c == b'\n').map(|n| n + 1).unwrap_or(stream.len() - p);
        }
        stream[..p].to_vec()
    };
    match d.format {
        Format::Sam | Format::SamGz => Some(prefix_lines(b'@')),
        Format::Vcf | Format::VcfGz => Some(prefix_lines(b'#')),
        Format::Bam => {
            let l = walk::le_u32(stream, 4)?;
            let t = stream.get(8..8 + l)?;
            Some(t[..t.iter().position(|&c| c == 0).unwrap_or(t.len())].to_vec())
        }
        Format::Bcf => {
            let l = walk::le_u32(stream, 5)?;
            let t = stream.get(9..9 + l)?;
            Some(t[..t.iter().position(|&c| c == 0).unwrap_or(t.len())].to_vec())
        }
        Format::Cram => {
            // first block of the header container, if stored raw: i32 length + text
            let (_, cs) = walk::cram(&d.bytes);
            let b = cs.first()?.blocks.first()?;
            if b.method != 0 {
                return None;
            }
            let l = walk::le_u32(&d.bytes, b.data)?;
            d.bytes.get(b.data + 4..b.data + 4 + l).map(|t| t.to_vec())
        }
        _ => None,
    }
}

fn pull<A: BufRead>(a: &mut A, how: How, cap: usize) -> io::Result<Vec<u8>> {
    let mut out = Vec::new();
    let mut calls = 0usize;
    match how {
        How::ReadToEnd => {
            a.read_to_end(&mut out)?;
        }
        How::Read(n) => {
            let mut buf = vec![0u8; n.max(1)];
            loop {
                calls += 1;
                if calls > cap {
                    return Err(io::Error::other("non-termination adapter=read"));
                }
                match a.read(&mut buf) {
                    Ok(0) => break,
                    Ok(k) => out.extend_from_slice(&buf[..k]),
                    // by contract no bytes were read: retry
                    Err(e) if e.kind() == io::ErrorKind::Interrupted => {}
                    Err(e) => return Err(e),
                }
            }
        }
        How::FillBuf => loop {
            calls += 1;
            if calls > cap {
                return Err(io::Error::other("non-termination adapter=fill_buf"));
            }
            match a.fill_buf() {
                Ok(b) if b.is_empty() => break,
                Ok(b) => {
                    let k = b.len();
                    out.extend_from_slice(b);
                    a.consume(k);
                }
                Err(e) if e.kind() == io::ErrorKind::Interrupted => {}
                Err(e) => return Err(e),
            }
        },
    }
    Ok(out)
}

pub fn raw_line(raw: &[u8]) -> String {
    format!("raw-header: len={} text={}", raw.len(), esc(raw))
}

macro_rules! try_log {
    ($log:expr, $e:expr) => {
        match $e {
            Ok(v) => v,
            Err(e) => {
                $log.push(end_err(&e));
                return $log;
            }
        }
    };
}

fn aln_records<F: FnMut(&mut sam::alignment::RecordBuf) -> io::Result<usize>>(log: &mut Vec<String>, h: &sam::Header, o: &Opts, key: &str, mut next: F) {
    let lim = o.limits();
    let mut rec = sam::alignment::RecordBuf::default();
    let mut i = 0usize;
    loop {
        if i > o.cap() {
            log.push(format!("end: {}adapter-records", render::NONTERM));
            return;
        }
        match next(&mut rec) {
            Ok(0) => break,
            Ok(n) => log.push(format!("rec[{i}]: {key}={n} {}", render::render_alignment_record(h, &rec, &lim))),
            Err(e) => {
                log.push(end_err(&e));
                return;
            }
        }
        i += 1;
    }
    log.push(end_eof());
}

fn var_records<F: FnMut(&mut vcf::variant::RecordBuf) -> io::Result<usize>>(log: &mut Vec<String>, h: &vcf::Header, o: &Opts, mut next: F) {
    let lim = o.limits();
    let mut rec = vcf::variant::RecordBuf::default();
    let mut i = 0usize;
    loop {
        if i > o.cap() {
            log.push(format!("end: {}adapter-records", render::NONTERM));
            return;
        }
        match next(&mut rec) {
            Ok(0) => break,
            Ok(n) => log.push(format!("rec[{i}]: n={n} {}", render::render_variant_record(h, &rec, &lim))),
            Err(e) => {
                log.push(end_err(&e));
                return;
            }
        }
        i += 1;
    }
    log.push(end_eof());
}

/// Reads the raw header through the adapter, then the records through the ordinary API.
pub fn adapter_log<R: BufRead>(format: Format, raw_stream: bool, src: R, o: &Opts, how: How, header: &RefHeader) -> Vec<String> {
    let mut log = Vec::new();
    let cap = o.cap() * 4;
    match (format, header) {
        (Format::Sam, RefHeader::Sam(h)) => {
            let mut r = sam::io::Reader::new(src);
            let raw = {
                let mut a = r.header_reader();
                try_log!(log, pull(&mut a, how, cap))
            };
            log.push(raw_line(&raw));
            aln_records(&mut log, h, o, "n", |rec| r.read_record_buf(h, rec));
        }
        (Format::SamGz, RefHeader::Sam(h)) => {
            let mut r = sam::io::Reader::new(bgzf::io::Reader::new(src));
            let raw = {
                let mut a = r.header_reader();
                try_log!(log, pull(&mut a, how, cap))
            };
            log.push(raw_line(&raw));
            aln_records(&mut log, h, o, "n", |rec| r.read_record_buf(h, rec));
        }
        (Format::Vcf, RefHeader::Vcf(h)) => {
            let mut r = vcf::io::Reader::new(src);
            let raw = {
                let mut a = r.header_reader();
                try_log!(log, pull(&mut a, how, cap))
            };
            log.push(raw_line(&raw));
            var_records(&mut log, h, o, |rec| r.read_record_buf(h, rec));
        }
        (Format::VcfGz, RefHeader::Vcf(h)) => {
            let mut r = vcf::io::Reader::new(bgzf::io::Reader::new(src));
            let raw = {
                let mut a = r.header_reader();
                try_log!(log, pull(&mut a, how, cap))
            };
            log.push(raw_line(&raw));
            var_records(&mut log, h, o, |rec| r.read_record_buf(h, rec));
        }
        (Format::Bam, RefHeader::Sam(h)) => {
            fn go<X: Read>(mut r: bam::io::Reader<X>, log: &mut Vec<String>, h: &sam::Header, o: &Opts, how: How, cap: usize) {
                let refs = {
                    let mut hr = r.header_reader();
                    if let Err(e) = hr.read_magic_number() {
                        log.push(end_err(&e));
                        return;
                    }
                    let raw = {
                        let mut a = match hr.raw_sam_header_reader() {
                            Ok(a) => a,
                            Err(e) => {
                                log.push(end_err(&e));
                                return;
                            }
                        };
                        let raw = match pull(&mut a, how, cap) {
                            Ok(x) => x,
                            Err(e) => {
                                log.push(end_err(&e));
                                return;
                            }
                        };
                        if let Err(e) = a.discard_to_end() {
                            log.push(end_err(&e));
                            return;
                        }
                        raw
                    };
                    log.push(raw_line(&raw));
                    match hr.read_reference_sequences() {
                        Ok(x) => x,
                        Err(e) => {
                            log.push(end_err(&e));
                            return;
                        }
                    }
                };
                log.push(format!("refs: n={} [{}]", refs.len(), refs.keys().map(|k| esc(k)).collect::<Vec<_>>().join(",")));
                aln_records(log, h, o, "bs", |rec| r.read_record_buf(h, rec));
            }
            if raw_stream {
                go(bam::io::Reader::from(src), &mut log, h, o, how, cap);
            } else {
                go(bam::io::Reader::new(src), &mut log, h, o, how, cap);
            }
        }
        (Format::Bcf, RefHeader::Vcf(h)) => {
            fn go<X: Read>(mut r: bcf::io::Reader<X>, log: &mut Vec<String>, h: &vcf::Header, o: &Opts, how: How, cap: usize) {
                {
                    let mut hr = r.header_reader();
                    if let Err(e) = hr.read_magic_number().and_then(|_| hr.read_format_version().map(|_| ())) {
                        log.push(end_err(&e));
                        return;
                    }
                    let mut a = match hr.raw_vcf_header_reader() {
                        Ok(a) => a,
                        Err(e) => {
                            log.push(end_err(&e));
                            return;
                        }
                    };
                    let raw = match pull(&mut a, how, cap) {
                        Ok(x) => x,
                        Err(e) => {
                            log.push(end_err(&e));
                            return;
                        }
                    };
                    if let Err(e) = a.discard_to_end() {
                        log.push(end_err(&e));
                        return;
                    }
                    log.push(raw_line(&raw));
                }
                var_records(log, h, o, |rec| r.read_record_buf(h, rec));
            }
            if raw_stream {
                go(bcf::io::Reader::from(src), &mut log, h, o, how, cap);
            } else {
                go(bcf::io::Reader::new(src), &mut log, h, o, how, cap);
            }
        }
        (Format::Cram, RefHeader::Sam(h)) => {
            let mut r = cram::io::reader::Builder::default().set_reference_sequence_repository(crate::records::repository()).build_from_reader(src);
            {
                let mut hr = r.header_reader();
                try_log!(log, hr.read_magic_number().map(|_| ()));
                try_log!(log, hr.read_format_version().map(|_| ()));
                try_log!(log, hr.read_file_id().map(|_| ()));
                let mut c = try_log!(log, hr.container_reader());
                let raw = {
                    let mut a = try_log!(log, c.raw_sam_header_reader());
                    let raw = try_log!(log, pull(&mut a, how, cap));
                    try_log!(log, a.discard_to_end());
                    raw
                };
                try_log!(log, c.discard_to_end());
                log.push(raw_line(&raw));
            }
            let lim = o.limits();
            let mut i = 0usize;
            for res in r.records(h) {
                if i > o.cap() {
                    log.push(format!("end: {}adapter-records", render::NONTERM));
                    return log;
                }
                match res {
                    Ok(rec) => log.push(format!("rec[{i}]: {}", render::render_alignment_record(h, &rec, &lim))),
                    Err(e) => {
                        log.push(end_err(&e));
                        return log;
                    }
                }
                i += 1;
            }
            log.push(end_eof());
        }
        _ => log.push("end: Err(kind=InvalidInput msg=no adapter for this format)".into()),
    }
    log
}
