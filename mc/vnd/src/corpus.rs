//! The corpus: small documents of every format, generated at run time by the synchronous noodles
//! writers from the current tree (nothing is checked in as a binary), with structural boundary tables.

use std::{
    io::{self, Write},
    num::NonZero,
    sync::{Arc, OnceLock},
};

use noodles_bam as bam;
use noodles_bcf as bcf;
use noodles_bed as bed;
use noodles_bgzf as bgzf;
use noodles_cram as cram;
use noodles_csi as csi;
use noodles_fasta as fasta;
use noodles_fastq as fastq;
use noodles_gff as gff;
use noodles_gtf as gtf;
use noodles_sam::{self as sam, alignment::io::Write as _};
use noodles_tabix as tabix;
use noodles_vcf::{self as vcf, variant::io::Write as _};

use crate::{
    Doc, Format, Inner,
    records::{self, AlnSet, VarSet},
    walk::{self, Walk},
};

fn fail(what: &str, e: impl std::fmt::Display) -> ! {
    vmc::machinery(format!("corpus: {what}: {e}"))
}

fn ok<T>(what: &str, r: io::Result<T>) -> T {
    match r {
        Ok(v) => v,
        Err(e) => fail(what, e),
    }
}

// ------------------------------------------------------------------------------------ doc builder

fn doc_from_walk(format: Format, name: String, set: &str, bytes: Vec<u8>, w: Walk, inner: Option<Inner>, big: bool) -> Doc {
    if let Some(e) = &w.error {
        fail(&format!("{name}: structural walk"), e);
    }
    Doc {
        format,
        name,
        bytes: Arc::new(bytes),
        boundaries: Arc::new(w.boundaries),
        fields: w.fields,
        inner: inner.map(Arc::new),
        big,
        index_of: None,
        set: set.to_string(),
        item_ends: Arc::new(w.record_ends),
        header_end: w.header_end,
        raw: false,
        equiv_of: None,
    }
}

fn inner_from(w: Walk, bytes: Vec<u8>, member_starts: Vec<usize>, name: &str) -> Inner {
    if let Some(e) = &w.error {
        fail(&format!("{name}: inner structural walk"), e);
    }
    Inner {
        bytes: Arc::new(bytes),
        boundaries: Arc::new(w.boundaries),
        record_ends: Arc::new(w.record_ends),
        header_end: w.header_end,
        fields: w.fields,
        member_starts: Arc::new(member_starts),
    }
}

/// Builds a `Doc` for any format from its bytes (runs the matching structural walk).
pub fn make_doc(format: Format, name: impl Into<String>, set: &str, bytes: Vec<u8>, big: bool) -> Doc {
    let name = name.into();
    if format.is_bgzf() {
        let (outer, members) = walk::bgzf_outer(&bytes);
        let mut un = Vec::new();
        let mut starts = Vec::new();
        for m in &members {
            starts.push(un.len());
            un.extend_from_slice(&m.data);
        }
        let iw = match format {
            Format::Bam => walk::bam(&un),
            Format::Bcf => walk::bcf(&un),
            Format::Csi => walk::csi(&un),
            Format::Tbi => walk::tbi(&un),
            Format::SamGz | Format::VcfGz => walk::text(&un, b"\t", None),
            _ => {
                let mut w = Walk::default();
                // raw payload: boundaries at member data ends
                for (i, m) in members.iter().enumerate() {
                    w.boundaries.push(starts[i] + m.data.len());
                }
                w.finish(un.len())
            }
        };
        let inner = inner_from(iw, un, starts, &name);
        return doc_from_walk(format, name, set, bytes, outer, Some(inner), big);
    }
    match format {
        Format::Cram => {
            let (w, _) = walk::cram(&bytes);
            doc_from_walk(format, name, set, bytes, w, None, big)
        }
        Format::Bai => {
            let w = walk::bai(&bytes);
            doc_from_walk(format, name, set, bytes, w, None, big)
        }
        Format::Gzi => {
            let w = walk::gzi(&bytes);
            doc_from_walk(format, name, set, bytes, w, None, big)
        }
        Format::Crai => {
            let (text, _) = match crate::mutate::gunzip(&bytes) {
                Ok(t) => t,
                Err(e) => fail(&format!("{name}: gunzip"), e),
            };
            let iw = walk::text(&text, b"\t", Some("crai.int"));
            let inner = inner_from(iw, text, vec![0], &name);
            let mut w = Walk::default();
            w.boundaries = vec![10, bytes.len() - 8, bytes.len() - 4, bytes.len()];
            w.fields.push(crate::Field { offset: bytes.len() - 8, width: 4, kind: "gz.crc32", enc: crate::Enc::Le, extra: Vec::new() });
            w.fields.push(crate::Field { offset: bytes.len() - 4, width: 4, kind: "gz.isize", enc: crate::Enc::Le, extra: Vec::new() });
            let w = w.finish(bytes.len());
            doc_from_walk(format, name, set, bytes, w, Some(inner), big)
        }
        Format::Fai => {
            let w = walk::text(&bytes, b"\t", Some("fai.int"));
            doc_from_walk(format, name, set, bytes, w, None, big)
        }
        Format::Gff | Format::Gtf => {
            let w = walk::text(&bytes, b"\t;", None);
            doc_from_walk(format, name, set, bytes, w, None, big)
        }
        _ => {
            let w = walk::text(&bytes, b"\t", None);
            doc_from_walk(format, name, set, bytes, w, None, big)
        }
    }
}

// ------------------------------------------------------------------------------------ writers

fn bgzf_payload_doc(payload: &[u8], flush_at: &[usize], level: Option<u8>) -> Vec<u8> {
    let mut b = bgzf::io::writer::Builder::default();
    if let Some(l) = level {
        b = b.set_compression_level(bgzf::io::writer::CompressionLevel::new(l).expect("level"));
    }
    let mut w = b.build_from_writer(Vec::new());
    let mut prev = 0;
    for &f in flush_at {
        ok("bgzf write", w.write_all(&payload[prev..f]));
        ok("bgzf flush", w.flush());
        prev = f;
    }
    ok("bgzf write", w.write_all(&payload[prev..]));
    ok("bgzf finish", w.finish())
}

fn write_bam(set: &AlnSet, flush_every: usize) -> Vec<u8> {
    let mut w = bam::io::Writer::from(bgzf::io::Writer::new(Vec::new()));
    ok("bam header", w.write_header(&set.header));
    ok("bam flush", w.get_mut().flush());
    for (i, r) in set.records.iter().enumerate() {
        ok("bam record", w.write_alignment_record(&set.header, r));
        if (i + 1) % flush_every == 0 {
            ok("bam flush", w.get_mut().flush());
        }
    }
    ok("bam finish", w.into_inner().finish())
}

fn write_sam<W: Write>(sink: W, set: &AlnSet, mut after: impl FnMut(&mut W, usize) -> io::Result<()>) -> W {
    let mut w = sam::io::Writer::new(sink);
    ok("sam header", w.write_header(&set.header));
    ok("sam flush", after(w.get_mut(), 0));
    for (i, r) in set.records.iter().enumerate() {
        ok("sam record", w.write_alignment_record(&set.header, r));
        ok("sam flush", after(w.get_mut(), i + 1));
    }
    w.into_inner()
}

fn write_sam_plain(set: &AlnSet) -> Vec<u8> {
    write_sam(Vec::new(), set, |_, _| Ok(()))
}

fn write_sam_gz(set: &AlnSet, flush_every: usize) -> Vec<u8> {
    let w = write_sam(bgzf::io::Writer::new(Vec::new()), set, |w, i| {
        if flush_every > 0 && i % flush_every == 0 { w.flush() } else { Ok(()) }
    });
    ok("sam.gz finish", w.finish())
}

fn write_cram(set: &AlnSet, records_per_slice: usize) -> Vec<u8> {
    let mut w = cram::io::writer::Builder::default()
        .set_reference_sequence_repository(records::repository())
        .build_from_writer(Vec::new());
    w.verif_set_layout(records_per_slice, 1);
    ok("cram header", w.write_header(&set.header));
    for r in &set.records {
        ok("cram record", w.write_alignment_record(&set.header, r));
    }
    ok("cram finish", w.try_finish(&set.header));
    w.into_inner()
}

fn write_vcf<W: Write>(sink: W, set: &VarSet, mut after: impl FnMut(&mut W, usize) -> io::Result<()>) -> W {
    let mut w = vcf::io::Writer::new(sink);
    ok("vcf header", w.write_header(&set.header));
    ok("vcf flush", after(w.get_mut(), 0));
    for (i, r) in set.records.iter().enumerate() {
        ok("vcf record", w.write_variant_record(&set.header, r));
        ok("vcf flush", after(w.get_mut(), i + 1));
    }
    w.into_inner()
}

fn write_vcf_gz(set: &VarSet, flush_every: usize) -> Vec<u8> {
    let w = write_vcf(bgzf::io::Writer::new(Vec::new()), set, |w, i| {
        if flush_every > 0 && i % flush_every == 0 { w.flush() } else { Ok(()) }
    });
    ok("vcf.gz finish", w.finish())
}

fn write_bcf(set: &VarSet, flush_every: usize) -> Vec<u8> {
    let mut w = bcf::io::Writer::from(bgzf::io::Writer::new(Vec::new()));
    ok("bcf header", w.write_header(&set.header));
    ok("bcf flush", w.get_mut().flush());
    for (i, r) in set.records.iter().enumerate() {
        ok("bcf record", w.write_variant_record(&set.header, r));
        if (i + 1) % flush_every == 0 {
            ok("bcf flush", w.get_mut().flush());
        }
    }
    ok("bcf finish", w.into_inner().finish())
}

fn write_fasta(line: usize, crlf: bool) -> Vec<u8> {
    let mut w = fasta::io::writer::Builder::default()
        .set_line_base_count(NonZero::new(line).unwrap())
        .build_from_writer(Vec::new());
    for r in records::reference_records() {
        ok("fasta record", w.write_record(&r));
    }
    let b = w.into_inner();
    if crlf { to_crlf(&b) } else { b }
}

fn to_crlf(b: &[u8]) -> Vec<u8> {
    let mut out = Vec::with_capacity(b.len() + b.len() / 20);
    for &c in b {
        if c == b'\n' {
            out.push(b'\r');
        }
        out.push(c);
    }
    out
}

fn write_fastq(variant: usize) -> Vec<u8> {
    let mut w = fastq::io::Writer::new(Vec::new());
    let recs: Vec<(&str, &str, &str, &str)> = match variant {
        0 => vec![("r0", "", "ACGT", "IIII"), ("r1", "", "GGNNCCTT", "!#5I~@+A"), ("r2", "", "A", "9")],
        _ => vec![
            ("r0/1", "first read", "ACGTACGTAC", "IIIIIIIIII"),
            ("r0/2", "LN:10 x=@y", "TTGGCCAATT", "@@@@++++!!"),
            ("r1", "", "N", "!"),
            ("r2", "d", "ACGTNNNNACGTACGTTTGA", "ABCDEFGHIJKLMNOPQRST"),
        ],
    };
    for (n, d, s, q) in recs {
        let r = fastq::Record::new(fastq::record::Definition::new(n, d), s, q);
        ok("fastq record", w.write_record(&r));
    }
    w.into_inner()
}

const GFF_TEXT: [&str; 2] = [
    "##gff-version 3\n\
     ##sequence-region sq0 1 400\n\
     #a comment\n\
     sq0\tvnd\tgene\t10\t90\t.\t+\t.\tID=gene0;Name=g%3B0;Note=a%2Cb,c\n\
     sq0\tvnd\tmRNA\t10\t90\t0.5\t+\t.\tID=mrna0;Parent=gene0\n\
     sq0\tvnd\tCDS\t10\t50\t.\t+\t0\tID=cds0;Parent=mrna0,mrna1;Dbxref=X:1,Y:2\n\
     sq1\t.\tregion\t1\t300\t.\t.\t.\tID=r1\n\
     sq1\tsrc\texon\t5\t25\t0.001\t-\t2\tID=e%3D1;Alias=%25 x\n",
    "##gff-version 3\n\
     sq0\tvnd\tgene\t1\t2\t.\t?\t.\tID=g\n\
     ###\n\
     sq2\tvnd\tCDS\t100\t200\t12\t-\t1\tID=c1;Parent=g;Target=t 1 5 +\n",
];

fn write_gff(i: usize) -> Vec<u8> {
    let mut r = gff::io::Reader::new(GFF_TEXT[i].as_bytes());
    let mut w = gff::io::Writer::new(Vec::new());
    for line in r.line_bufs() {
        let line = ok("gff parse", line);
        ok("gff write", w.write_line(&line));
    }
    w.into_inner()
}

const GTF_TEXT: [&str; 2] = [
    "#a comment\n\
     sq0\tvnd\tgene\t10\t90\t.\t+\t.\tgene_id \"g0\";\n\
     sq0\tvnd\ttranscript\t10\t90\t0.5\t+\t.\tgene_id \"g0\"; transcript_id \"t0\";\n\
     sq0\tvnd\texon\t10\t50\t.\t-\t0\tgene_id \"g0\"; transcript_id \"t0\"; exon_number \"1\"; note \"a b\";\n",
    "sq1\tsrc\tCDS\t5\t25\t12\t-\t2\tgene_id \"g1\"; transcript_id \"t1\"; tag \"x\"; tag \"y\";\n\
     sq2\t.\tstop_codon\t100\t102\t.\t.\t.\tgene_id \"g2\"; transcript_id \"\";\n",
];

fn write_gtf(i: usize) -> Vec<u8> {
    let mut r = gtf::io::Reader::new(GTF_TEXT[i].as_bytes());
    let mut w = gtf::io::Writer::new(Vec::new());
    for line in r.line_bufs() {
        let line = ok("gtf parse", line);
        ok("gtf write", w.write_line(&line));
    }
    w.into_inner()
}

const BED3_TEXT: &str = "sq0\t0\t10\nsq0\t5\t25\nsq1\t299\t300\n";
const BED6_TEXT: &str = "sq0\t5\t25\tname0\t500\t+\nsq0\t7\t9\t.\t0\t.\nsq1\t100\t200\tn 2\t1000\t-\n";
const BED12_TEXT: &str = "sq0\t10\t100\tfeat\t0\t-\t10\t100\t255,0,0\t2\t10,20\t0,70\nsq1\t0\t50\tf2\t9\t+\t0\t50\t0\t1\t50\t0\n";

fn write_bed(kind: usize) -> Vec<u8> {
    macro_rules! go {
        ($n:literal, $text:expr) => {{
            let mut r = bed::io::Reader::<$n, _>::new($text.as_bytes());
            let mut w = bed::io::Writer::<$n, _>::new(Vec::new());
            let mut rec = bed::Record::<$n>::default();
            while ok("bed parse", r.read_record(&mut rec)) != 0 {
                ok("bed write", w.write_record(&rec));
            }
            w.into_inner()
        }};
    }
    match kind {
        3 => go!(3, BED3_TEXT),
        6 => go!(6, BED6_TEXT),
        _ => go!(6, BED12_TEXT),
    }
}

// ------------------------------------------------------------------------------------ indexes

fn with_temp<T>(bytes: &[u8], f: impl FnOnce(&std::path::Path) -> T) -> T {
    let mut t = ok("tempfile", tempfile::NamedTempFile::new());
    ok("tempfile write", t.write_all(bytes));
    ok("tempfile flush", t.flush());
    f(t.path())
}


/// A by-path producer (`sam::fs::index`, …) that failed on a corpus document although the SAME uncompressed
/// stream, re-blocked as a single BGZF member, is accepted by the same producer: the outcome depends on how the
/// bytes are delivered (member layout = `fill_buf` windows). Recorded for C12; the index document is left out.
#[derive(Clone, Debug)]
pub struct ByPathFailure {
    pub producer: String,
    pub doc: String,
    pub error: String,
}

static BY_PATH_FAILURES: std::sync::Mutex<Vec<ByPathFailure>> = std::sync::Mutex::new(Vec::new());

/// By-path producer failures recorded while the corpus was built (empty on a tree where C12 holds).
pub fn by_path_failures() -> Vec<ByPathFailure> {
    BY_PATH_FAILURES.lock().unwrap().clone()
}

/// Runs a by-path producer on a BGZF corpus document. `Err` is a machinery error (the corpus is made of valid
/// documents) unless the differential above shows that the failure is one of delivery.
fn by_path<T>(producer: &str, d: &Doc, f: impl Fn(&std::path::Path) -> io::Result<T>) -> Option<T> {
    match with_temp(&d.bytes, |p| f(p)) {
        Ok(v) => Some(v),
        Err(e) => {
            let Some(inner) = d.inner.as_ref() else { fail(&format!("{producer} {}", d.name), e) };
            let one = bgzip_at(&inner.bytes, &[]);
            match with_temp(&one, |p| f(p)) {
                Ok(_) => {
                    let mut g = BY_PATH_FAILURES.lock().unwrap();
                    if !g.iter().any(|x| x.producer == producer && x.doc == d.name) {
                        g.push(ByPathFailure { producer: producer.into(), doc: d.name.clone(), error: e.to_string() });
                    }
                    None
                }
                Err(_) => fail(&format!("{producer} {}", d.name), e),
            }
        }
    }
}

fn bai_for(doc: &Doc) -> Option<Vec<u8>> {
    let idx = with_temp(&doc.bytes, |p| bam::fs::index(p));
    let idx = ok(&format!("bam::fs::index {}", doc.name), idx);
    let mut w = bam::bai::io::Writer::new(Vec::new());
    ok("bai write", w.write_index(&idx));
    Some(w.into_inner())
}

fn csi_bytes(idx: &csi::Index) -> Vec<u8> {
    let mut w = csi::io::Writer::new(Vec::new());
    ok("csi write", w.write_index(idx));
    ok("csi finish", w.into_inner().finish())
}

fn tbi_for(doc: &Doc) -> Vec<u8> {
    let idx = with_temp(&doc.bytes, |p| vcf::fs::index(p));
    let idx = ok(&format!("vcf::fs::index {}", doc.name), idx);
    let mut w = tabix::io::Writer::new(Vec::new());
    ok("tbi write", w.write_index(&idx));
    ok("tbi finish", w.into_inner().finish())
}

fn gzi_for(doc: &Doc) -> Vec<u8> {
    let inner = doc.inner.as_ref().unwrap();
    let (_, members) = walk::bgzf_outer(&doc.bytes);
    let mut entries = Vec::new();
    for (i, m) in members.iter().enumerate() {
        if i > 0 {
            entries.push((m.offset as u64, inner.member_starts[i] as u64));
        }
    }
    let idx = bgzf::gzi::Index::from(entries);
    let mut w = bgzf::gzi::io::Writer::new(Vec::new());
    ok("gzi write", w.write_index(&idx));
    w.into_inner()
}

fn fai_for(doc: &Doc) -> Vec<u8> {
    let mut ix = fasta::io::Indexer::new(&doc.bytes[..]);
    let mut recs = Vec::new();
    loop {
        match ix.index_record() {
            Ok(Some(r)) => recs.push(r),
            Ok(None) => break,
            Err(e) => fail(&format!("fasta indexer {}", doc.name), e),
        }
    }
    let idx = fasta::fai::Index::from(recs);
    let mut w = fasta::fai::io::Writer::new(Vec::new());
    ok("fai write", w.write_index(&idx));
    w.into_inner()
}

fn crai_for(doc: &Doc) -> Option<Vec<u8>> {
    let bytes = doc.bytes.clone();
    // cram::fs::index panics on multi-reference slices (D3a); such documents get no crai.
    let r = vmc::catch(move || with_temp(&bytes, |p| cram::fs::index(p)));
    let idx = match r {
        Ok(Ok(i)) => i,
        Ok(Err(e)) => fail(&format!("cram::fs::index {}", doc.name), e),
        Err(_) => return None,
    };
    let mut w = cram::crai::io::Writer::new(Vec::new());
    ok("crai write", w.write_index(&idx));
    Some(ok("crai finish", w.finish()))
}

// ------------------------------------------------------------------------------------ corpus

fn build(thorough: bool) -> Vec<Doc> {
    let mut docs: Vec<Doc> = Vec::new();
    let t = thorough;

    // BGZF
    let text = vmc::oracle::bgzf::payload(vmc::oracle::bgzf::Payload::Text, 0, 1500);
    let rnd = vmc::oracle::bgzf::payload(vmc::oracle::bgzf::Payload::Random, 7, 700);
    docs.push(make_doc(Format::Bgzf, "bgzf-text-4blocks", "text", bgzf_payload_doc(&text, &[400, 800, 1200], None), false));
    docs.push(make_doc(Format::Bgzf, "bgzf-random-2blocks", "random", bgzf_payload_doc(&rnd, &[1], None), false));
    docs.push(make_doc(Format::Bgzf, "bgzf-empty", "empty", bgzf_payload_doc(&[], &[], None), false));
    if t {
        docs.push(make_doc(Format::Bgzf, "bgzf-text-1block", "text", bgzf_payload_doc(&text[..300], &[], None), false));
        docs.push(make_doc(Format::Bgzf, "bgzf-text-level0", "text", bgzf_payload_doc(&text[..600], &[200, 201], Some(0)), false));
        docs.push(make_doc(Format::Bgzf, "bgzf-random-level9", "random", bgzf_payload_doc(&rnd, &[350], Some(9)), false));
    }
    let big = vmc::oracle::bgzf::payload(vmc::oracle::bgzf::Payload::Text, 0, 150_000);
    docs.push(make_doc(Format::Bgzf, "bgzf-big", "text", bgzf_payload_doc(&big, &[], None), true));

    // alignment formats
    let aln: Vec<AlnSet> = records::ALN_SETS
        .iter()
        .map(|n| ok(&format!("alignment set {n}"), records::aln_set(n)))
        .collect();
    let a = |n: &str| aln.iter().find(|s| s.name == n).unwrap();
    let q_aln: &[(&str, usize)] = &[("mapped", 2), ("full", 3), ("empty", 1)];
    let t_aln: &[(&str, usize)] = &[("mapped", 2), ("full", 3), ("empty", 1), ("paired", 1), ("unmapped", 2), ("full", 1)];
    for (s, f) in if t { t_aln } else { q_aln } {
        docs.push(make_doc(Format::Bam, format!("bam-{s}-f{f}"), s, write_bam(a(s), *f), false));
    }
    for (s, f) in if t { t_aln } else { q_aln } {
        docs.push(make_doc(Format::SamGz, format!("samgz-{s}-f{f}"), s, write_sam_gz(a(s), *f), false));
    }
    let q_sam: &[&str] = &["mapped", "full", "empty"];
    let t_sam: &[&str] = &["mapped", "full", "empty", "paired", "unmapped"];
    for s in if t { t_sam } else { q_sam } {
        docs.push(make_doc(Format::Sam, format!("sam-{s}"), s, write_sam_plain(a(s)), false));
    }
    {
        docs.push(make_doc(Format::Sam, "sam-full-crlf", "full", to_crlf(&write_sam_plain(a("full"))), false));
    }
    let q_cram: &[(&str, usize)] = &[("mapped", 3), ("full", 3), ("paired", 3)];
    let t_cram: &[(&str, usize)] = &[("mapped", 3), ("full", 3), ("paired", 3), ("empty", 2), ("mapped", 2), ("full", 2)];
    for (s, rps) in if t { t_cram } else { q_cram } {
        docs.push(make_doc(Format::Cram, format!("cram-{s}-rps{rps}"), s, write_cram(a(s), *rps), false));
    }
    {
        let text = records::big_sam_text();
        let mut r = sam::io::Reader::new(text.as_bytes());
        let header = ok("big sam header", r.read_header());
        let recs = ok("big sam records", r.record_bufs(&header).collect::<io::Result<Vec<_>>>());
        let set = AlnSet { name: "big", header, records: recs, cram_ok: true };
        docs.push(make_doc(Format::SamGz, "samgz-big", "big", write_sam_gz(&set, 0), true));
    }

    // variant formats
    let var: Vec<VarSet> = records::VAR_SETS
        .iter()
        .map(|n| ok(&format!("variant set {n}"), records::var_set(n)))
        .collect();
    let v = |n: &str| var.iter().find(|s| s.name == n).unwrap();
    let q_var: &[(&str, usize)] = &[("sites", 2), ("two-samples", 1), ("empty", 1)];
    let t_var: &[(&str, usize)] = &[("sites", 2), ("two-samples", 1), ("empty", 1), ("one-sample", 1), ("sites", 1), ("two-samples", 3)];
    for (s, f) in if t { t_var } else { q_var } {
        docs.push(make_doc(Format::Bcf, format!("bcf-{s}-f{f}"), s, write_bcf(v(s), *f), false));
    }
    for (s, f) in if t { t_var } else { q_var } {
        docs.push(make_doc(Format::VcfGz, format!("vcfgz-{s}-f{f}"), s, write_vcf_gz(v(s), *f), false));
    }
    let q_vcf: &[&str] = &["sites", "two-samples", "empty"];
    let t_vcf: &[&str] = &["sites", "two-samples", "empty", "one-sample"];
    for s in if t { t_vcf } else { q_vcf } {
        docs.push(make_doc(Format::Vcf, format!("vcf-{s}"), s, write_vcf(Vec::new(), v(s), |_, _| Ok(())), false));
    }
    {
        docs.push(make_doc(Format::Vcf, "vcf-two-samples-crlf", "two-samples", to_crlf(&write_vcf(Vec::new(), v("two-samples"), |_, _| Ok(()))), false));
    }
    {
        let text = records::big_vcf_text();
        let mut r = vcf::io::Reader::new(text.as_bytes());
        let header = ok("big vcf header", r.read_header());
        let recs = ok("big vcf records", r.record_bufs(&header).collect::<io::Result<Vec<_>>>());
        let set = VarSet { name: "big", header, records: recs };
        docs.push(make_doc(Format::VcfGz, "vcfgz-big", "big", write_vcf_gz(&set, 0), true));
    }

    // FASTA (reader and indexer), FASTQ
    let q_fa: &[(usize, bool)] = &[(60, false), (13, true)];
    let t_fa: &[(usize, bool)] = &[(60, false), (13, true), (1000, false), (1, false), (50, true)];
    for fmt in [Format::Fasta, Format::FastaIndexer] {
        for (line, crlf) in if t { t_fa } else { q_fa } {
            let name = format!("{}-w{line}{}", if fmt == Format::Fasta { "fasta" } else { "fastaidx" }, if *crlf { "-crlf" } else { "" });
            docs.push(make_doc(fmt, name, "refs", write_fasta(*line, *crlf), false));
        }
    }
    docs.push(make_doc(Format::Fastq, "fastq-simple", "simple", write_fastq(0), false));
    docs.push(make_doc(Format::Fastq, "fastq-desc", "desc", write_fastq(1), false));
    docs.push(make_doc(Format::Fastq, "fastq-desc-crlf", "desc", to_crlf(&write_fastq(1)), false));
    if t {
        docs.push(make_doc(Format::Fastq, "fastq-empty", "empty", Vec::new(), false));
    }

    // GFF3, GTF, BED
    docs.push(make_doc(Format::Gff, "gff-directives-escapes", "gff0", write_gff(0), false));
    docs.push(make_doc(Format::Gff, "gff-resolution", "gff1", write_gff(1), false));
    {
        docs.push(make_doc(Format::Gff, "gff-directives-escapes-crlf", "gff0", to_crlf(&write_gff(0)), false));
    }
    docs.push(make_doc(Format::Gtf, "gtf-basic", "gtf0", write_gtf(0), false));
    docs.push(make_doc(Format::Gtf, "gtf-repeated-keys", "gtf1", write_gtf(1), false));
    {
        docs.push(make_doc(Format::Gtf, "gtf-basic-crlf", "gtf0", to_crlf(&write_gtf(0)), false));
    }
    docs.push(make_doc(Format::Bed, "bed3", "bed3", write_bed(3), false));
    docs.push(make_doc(Format::Bed, "bed6", "bed6", write_bed(6), false));
    docs.push(make_doc(Format::Bed, "bed12", "bed12", write_bed(12), false));

    // indexes, built by the noodles indexers for the corpus documents and written by the index writers
    let mut idx_docs = Vec::new();
    for d in &docs {
        if d.big || d.set == "empty" && !t {
            continue;
        }
        let mut push = |format: Format, tag: &str, bytes: Vec<u8>| {
            let mut nd = make_doc(format, format!("{tag}-of-{}", d.name), &d.set, bytes, false);
            nd.index_of = Some(d.name.clone());
            idx_docs.push(nd);
        };
        match d.format {
            Format::Bam => {
                if let Some(b) = bai_for(d) {
                    push(Format::Bai, "bai", b);
                }
            }
            Format::Bcf => {
                let idx = with_temp(&d.bytes, |p| bcf::fs::index(p));
                push(Format::Csi, "csi", csi_bytes(&ok(&format!("bcf::fs::index {}", d.name), idx)));
            }
            Format::SamGz if t => {
                if let Some(idx) = by_path("sam::fs::index", d, |p| sam::fs::index(p)) {
                    push(Format::Csi, "csi", csi_bytes(&idx));
                }
            }
            Format::VcfGz => push(Format::Tbi, "tbi", tbi_for(d)),
            Format::Bgzf => push(Format::Gzi, "gzi", gzi_for(d)),
            Format::Fasta => push(Format::Fai, "fai", fai_for(d)),
            Format::Cram => {
                if let Some(b) = crai_for(d) {
                    push(Format::Crai, "crai", b);
                }
            }
            _ => {}
        }
    }
    // one gzi for the big BGZF file as well (it is tiny)
    if let Some(d) = docs.iter().find(|d| d.name == "bgzf-big") {
        let mut nd = make_doc(Format::Gzi, "gzi-of-bgzf-big", "text", gzi_for(d), false);
        nd.index_of = Some(d.name.clone());
        idx_docs.push(nd);
    }
    docs.extend(idx_docs);
    docs
}

static QUICK: OnceLock<Vec<Doc>> = OnceLock::new();
static THOROUGH: OnceLock<Vec<Doc>> = OnceLock::new();

/// The corpus of the given tier (built once per process; documents share their byte buffers).
pub fn corpus(thorough: bool) -> Vec<Doc> {
    let cell = if thorough { &THOROUGH } else { &QUICK };
    cell.get_or_init(|| build(thorough)).clone()
}

/// Looks a document up by name.
pub fn find<'a>(docs: &'a [Doc], name: &str) -> Option<&'a Doc> {
    docs.iter().find(|d| d.name == name)
}

// ------------------------------------------------------------------------------------ extra documents

/// Builds a `Doc` for an uncompressed BAM / BCF record stream (read with `Reader::from`).
pub fn make_raw_doc(format: Format, name: impl Into<String>, set: &str, bytes: Vec<u8>) -> Doc {
    let name = name.into();
    let w = match format {
        Format::Bam => walk::bam(&bytes),
        Format::Bcf => walk::bcf(&bytes),
        _ => fail(&name, "raw documents are BAM or BCF"),
    };
    let mut d = doc_from_walk(format, name, set, bytes, w, None, false);
    d.raw = true;
    d
}

/// Compresses `stream` with the noodles BGZF writer, flushing at the given uncompressed offsets.
fn bgzip_at(stream: &[u8], flush_at: &[usize]) -> Vec<u8> {
    let mut w = bgzf::io::Writer::new(Vec::new());
    let mut prev = 0;
    for &f in flush_at {
        if f > prev && f <= stream.len() {
            ok("bgzf write", w.write_all(&stream[prev..f]));
            ok("bgzf flush", w.flush());
            prev = f;
        }
    }
    ok("bgzf write", w.write_all(&stream[prev..]));
    ok("bgzf finish", w.finish())
}

/// An uncompressed BAM stream whose `l_text` covers `pad` NUL bytes after the header text (legal; neither
/// noodles nor htslib write it). Returns (stream, offset of the first padding byte).
fn bam_padded(stream: &[u8], pad: usize) -> (Vec<u8>, usize) {
    let l_text = walk::le_u32(stream, 4).unwrap();
    let mut out = stream[..4].to_vec();
    out.extend_from_slice(&((l_text + pad) as u32).to_le_bytes());
    out.extend_from_slice(&stream[8..8 + l_text]);
    let at = out.len();
    out.resize(at + pad, 0);
    out.extend_from_slice(&stream[8 + l_text..]);
    (out, at)
}

/// An uncompressed BCF stream whose `l_text` covers `pad` additional NUL bytes after the NUL terminator.
fn bcf_padded(stream: &[u8], pad: usize) -> (Vec<u8>, usize) {
    let l_text = walk::le_u32(stream, 5).unwrap();
    let mut out = stream[..5].to_vec();
    out.extend_from_slice(&((l_text + pad) as u32).to_le_bytes());
    out.extend_from_slice(&stream[9..9 + l_text]);
    let at = out.len();
    out.resize(at + pad, 0);
    out.extend_from_slice(&stream[9 + l_text..]);
    (out, at)
}

fn text_tabix(data: &[u8], kind: &str) -> Vec<u8> {
    use csi::binning_index::index::{header::Builder, reference_sequence::bin::Chunk};
    use std::io::BufRead;
    let mut r = bgzf::io::Reader::new(data);
    let mut ix = tabix::index::Indexer::default();
    ix.set_header(if kind == "bed.gz" { Builder::bed().build() } else { Builder::gff().build() });
    let mut line = String::new();
    let mut start = r.virtual_position();
    loop {
        line.clear();
        if ok("read_line", r.read_line(&mut line)) == 0 {
            break;
        }
        let end = r.virtual_position();
        let t = line.trim_end();
        if !t.starts_with('#') && !t.is_empty() {
            let f: Vec<&str> = t.split('\t').collect();
            let (name, s, e) = if kind == "bed.gz" { (f[0], f[1].parse::<usize>().unwrap() + 1, f[2].parse::<usize>().unwrap()) } else { (f[0], f[3].parse().unwrap(), f[4].parse().unwrap()) };
            let (s, e) = (noodles_core::Position::new(s).unwrap(), noodles_core::Position::new(e).unwrap());
            ok("tabix add_record", ix.add_record(name, s, e, Chunk::new(start, end)));
        }
        start = end;
    }
    let mut w = tabix::io::Writer::new(Vec::new());
    ok("tbi write", w.write_index(&ix.build()));
    ok("tbi finish", w.into_inner().finish())
}

fn line_ends(text: &[u8]) -> Vec<usize> {
    text.iter().enumerate().filter(|(_, c)| **c == b'\n').map(|(i, _)| i + 1).collect()
}

fn build_extra(thorough: bool) -> Vec<Doc> {
    let base = corpus(thorough);
    let get = |n: &str| match find(&base, n) {
        Some(d) => d.clone(),
        None => fail("extra documents", format!("corpus document {n} not found")),
    };
    let mut out: Vec<Doc> = Vec::new();

    // ---- BAM / BCF whose l_text covers NUL padding
    let bam = get("bam-mapped-f2");
    let bi = bam.inner.as_ref().unwrap();
    let rec_flush: Vec<usize> = std::iter::once(bi.header_end).chain(bi.record_ends.iter().copied().skip(1).step_by(2)).collect();
    let mut pads: Vec<usize> = vec![1, 64, 300];
    if thorough {
        pads.push(9000);
    }
    for &pad in &pads {
        let (s, at) = bam_padded(&bi.bytes, pad);
        let shift = |v: &[usize]| v.iter().map(|x| x + pad).collect::<Vec<_>>();
        let mut d = make_raw_doc(Format::Bam, format!("bamraw-padded{pad}"), "mapped", s.clone());
        d.equiv_of = Some(bam.name.clone());
        out.push(d);
        if pad <= 300 {
            // header in one block
            let mut d = make_doc(Format::Bam, format!("bam-padded{pad}"), "mapped", bgzip_at(&s, &shift(&rec_flush)), false);
            d.equiv_of = Some(bam.name.clone());
            out.push(d);
        }
        if pad >= 64 {
            // a BGZF block boundary inside the padding
            let mut fl = vec![at + pad / 3];
            fl.extend(shift(&rec_flush));
            let mut d = make_doc(Format::Bam, format!("bam-padded{pad}-split"), "mapped", bgzip_at(&s, &fl), false);
            d.equiv_of = Some(bam.name.clone());
            out.push(d);
        }
    }
    {
        // the complete stream without any padding, uncompressed (the reader API takes any Read)
        let mut d = make_raw_doc(Format::Bam, "bamraw-mapped", "mapped", bi.bytes.to_vec());
        d.equiv_of = Some(bam.name.clone());
        out.push(d);
    }
    let bcf = get("bcf-sites-f2");
    let ci = bcf.inner.as_ref().unwrap();
    let crec_flush: Vec<usize> = std::iter::once(ci.header_end).chain(ci.record_ends.iter().copied().skip(1).step_by(2)).collect();
    for &pad in &[1usize, 64] {
        let (s, at) = bcf_padded(&ci.bytes, pad);
        let shift = |v: &[usize]| v.iter().map(|x| x + pad).collect::<Vec<_>>();
        let mut d = make_raw_doc(Format::Bcf, format!("bcfraw-padded{pad}"), "sites", s.clone());
        d.equiv_of = Some(bcf.name.clone());
        out.push(d);
        let mut fl = if pad >= 64 { vec![at + pad / 3] } else { Vec::new() };
        fl.extend(shift(&crec_flush));
        let mut d = make_doc(Format::Bcf, format!("bcf-padded{pad}{}", if pad >= 64 { "-split" } else { "" }), "sites", bgzip_at(&s, &fl), false);
        d.equiv_of = Some(bcf.name.clone());
        out.push(d);
    }
    {
        let mut d = make_raw_doc(Format::Bcf, "bcfraw-sites", "sites", ci.bytes.to_vec());
        d.equiv_of = Some(bcf.name.clone());
        out.push(d);
    }

    // ---- indexes without the optional n_no_coor tail
    let bai = get("bai-of-bam-mapped-f2");
    if bai.header_end + 8 == bai.bytes.len() {
        let mut d = make_doc(Format::Bai, "bai-no-n_no_coor", "mapped", bai.bytes[..bai.header_end].to_vec(), false);
        d.index_of = bai.index_of.clone();
        out.push(d);
    }
    for n in ["csi-of-bcf-sites-f2", "tbi-of-vcfgz-sites-f2"] {
        let d0 = get(n);
        let i0 = d0.inner.as_ref().unwrap();
        if i0.header_end + 8 == i0.bytes.len() {
            let mut d = make_doc(d0.format, format!("{}-no-n_no_coor", d0.format.name()), &d0.set, bgzip_at(&i0.bytes[..i0.header_end], &[]), false);
            d.index_of = d0.index_of.clone();
            out.push(d);
        }
    }

    // ---- BGZF with an empty member in the middle, and a file without the EOF marker
    {
        let text = vmc::oracle::bgzf::payload(vmc::oracle::bgzf::Payload::Text, 0, 700);
        let (f, _) = vmc::oracle::bgzf::make_file(&[text[..300].to_vec(), Vec::new(), text[300..].to_vec()], true, 6);
        out.push(make_doc(Format::Bgzf, "bgzf-empty-member-inside", "text", f, false));
        let (f, _) = vmc::oracle::bgzf::make_file(&[text[..300].to_vec(), text[300..].to_vec()], false, 6);
        out.push(make_doc(Format::Bgzf, "bgzf-no-eof-marker", "text", f, false));
    }

    // ---- BGZF with empty members at the start, between two concatenated files, and doubled at the end
    {
        let eof = vmc::oracle::bgzf::EOF.to_vec();
        let text = vmc::oracle::bgzf::payload(vmc::oracle::bgzf::Payload::Text, 0, 700);
        let a = vmc::oracle::bgzf::make_block(&text[..300], 6);
        let b = vmc::oracle::bgzf::make_block(&text[300..], 6);
        out.push(make_doc(Format::Bgzf, "bgzf-empty-first", "text", [eof.clone(), a.clone(), b.clone(), eof.clone()].concat(), false));
        out.push(make_doc(Format::Bgzf, "bgzf-concatenated-files", "text", [a.clone(), eof.clone(), b.clone(), eof.clone()].concat(), false));
        out.push(make_doc(Format::Bgzf, "bgzf-double-eof", "text", [a.clone(), b.clone(), eof.clone(), eof.clone()].concat(), false));
        // the members of noodles-written files with EOF markers (empty members) at the start, between all members and
        // doubled at the end: the same uncompressed stream, a legal BGZF file
        for n in ["bam-mapped-f2", "bcf-sites-f2", "vcfgz-sites-f2", "samgz-mapped-f2", "bgzf-big"] {
            let d0 = get(n);
            let mut f = eof.clone();
            let mut prev = 0;
            for &e in d0.item_ends.iter() {
                f.extend_from_slice(&d0.bytes[prev..e]);
                f.extend_from_slice(&eof);
                prev = e;
            }
            let mut d = make_doc(d0.format, format!("{n}-empty-members"), &d0.set, f, d0.big);
            d.equiv_of = Some(d0.name.clone());
            out.push(d);
        }
    }

    // ---- engineered lengths: little-endian length prefixes whose low bytes are zero (a reader that decodes a
    //      zero-padded partial prefix sees 0 = "end of file")
    {
        // BCF: l_shared = 256, 512 (thorough: 65536), l_indiv = 256
        let l_of = |recs: &[(usize, usize)]| -> (Vec<u8>, Vec<(usize, usize)>) {
            let set = ok("engineered vcf", records::parse_vcf(&records::eng_vcf_text(recs)));
            let file = write_bcf(&set, 1);
            let d = make_doc(Format::Bcf, "tmp", "engineered", file.clone(), false);
            let i = d.inner.as_ref().unwrap();
            let mut ls = Vec::new();
            let mut p = i.header_end;
            for &e in i.record_ends.iter() {
                ls.push((walk::le_u32(&i.bytes, p).unwrap(), walk::le_u32(&i.bytes, p + 4).unwrap()));
                p = e;
            }
            (file, ls)
        };
        let find_xs = |target: usize| -> Option<usize> {
            let (_, l0) = l_of(&[(20, 0)]);
            let guess = (20 + target).checked_sub(l0[0].0)?;
            (guess.saturating_sub(6)..=guess + 6).find(|&l| l > 0 && l_of(&[(l, 0)]).1[0].0 == target)
        };
        let find_xt = |target: usize| -> Option<usize> {
            let (_, l0) = l_of(&[(0, 20)]);
            let guess = (20 + target).checked_sub(l0[0].1)?;
            (guess.saturating_sub(6)..=guess + 6).find(|&l| l > 0 && l_of(&[(0, l)]).1[0].1 == target)
        };
        let mut recs: Vec<(usize, usize)> = vec![(3, 0)];
        let mut tags = Vec::new();
        for t in [256usize, 512] {
            if let Some(l) = find_xs(t) {
                recs.push((l, 0));
                tags.push(format!("l_shared={t}"));
            }
        }
        if let Some(l) = find_xt(256) {
            recs.push((0, l));
            tags.push("l_indiv=256".into());
        }
        recs.push((5, 3));
        if tags.len() == 3 {
            let (file, _) = l_of(&recs);
            out.push(make_doc(Format::Bcf, "eng-bcf-lengths-256-512", "engineered", file, false));
        } else {
            fail("engineered BCF lengths", format!("only found {tags:?}"));
        }
        if thorough {
            if let Some(l) = find_xs(65536) {
                let (file, _) = l_of(&[(3, 0), (l, 0), (4, 2)]);
                out.push(make_doc(Format::Bcf, "eng-bcf-l_shared-65536", "engineered", file, false));
            }
        }
        // BAM: block_size = 256, 512
        let bs_of = |lens: &[usize]| -> (Vec<u8>, Vec<usize>) {
            let set = ok("engineered sam", records::parse_sam(&records::eng_sam_text(lens)));
            let file = write_bam(&set, 1);
            let d = make_doc(Format::Bam, "tmp", "engineered", file.clone(), false);
            let i = d.inner.as_ref().unwrap();
            let mut v = Vec::new();
            let mut p = i.header_end;
            for &e in i.record_ends.iter() {
                v.push(walk::le_u32(&i.bytes, p).unwrap());
                p = e;
            }
            (file, v)
        };
        let b0 = bs_of(&[20]).1[0];
        let mut lens = vec![3usize];
        for t in [256usize, 512] {
            let l = 20 + t - b0;
            if bs_of(&[l]).1[0] != t {
                fail("engineered BAM block_size", format!("{t} not reached with aux length {l}"));
            }
            lens.push(l);
        }
        lens.push(7);
        out.push(make_doc(Format::Bam, "eng-bam-block_size-256-512", "engineered", bs_of(&lens).0, false));

        // index tails: n_no_coor = 256 (low byte zero)
        let bai = get("bai-of-bam-mapped-f2");
        if bai.header_end + 8 == bai.bytes.len() {
            let mut b = bai.bytes.to_vec();
            b[bai.header_end..].copy_from_slice(&256u64.to_le_bytes());
            let mut d = make_doc(Format::Bai, "eng-bai-n_no_coor-256", "engineered", b, false);
            d.index_of = bai.index_of.clone();
            out.push(d);
        }
        for n in ["csi-of-bcf-sites-f2", "tbi-of-vcfgz-sites-f2"] {
            let d0 = get(n);
            let i0 = d0.inner.as_ref().unwrap();
            if i0.header_end + 8 == i0.bytes.len() {
                let mut b = i0.bytes.to_vec();
                b[i0.header_end..].copy_from_slice(&256u64.to_le_bytes());
                let mut d = make_doc(d0.format, format!("eng-{}-n_no_coor-256", d0.format.name()), "engineered", bgzip_at(&b, &[]), false);
                d.index_of = d0.index_of.clone();
                out.push(d);
            }
        }

        // CRAM: a data container whose length is a multiple of 256 (searched over the length of an aux string)
        let mut found = None;
        for l in 1..(if thorough { 3000 } else { 1200 }) {
            let text = format!(
                "@HD\tVN:1.6\tSO:coordinate\n@SQ\tSN:sq0\tLN:400\nc0\t0\tsq0\t1\t60\t8M\t*\t0\t0\tACGTACGT\tIIIIIIII\tXZ:Z:{}\nc1\t0\tsq0\t20\t60\t4M\t*\t0\t0\tACGT\tIIII\n",
                {
                    let mut x: u32 = 7;
                    (0..l)
                        .map(|_| {
                            x = x.wrapping_mul(1_664_525).wrapping_add(1_013_904_223);
                            (b'!' + ((x >> 24) % 90) as u8) as char
                        })
                        .filter(|c| *c != '@')
                        .collect::<String>()
                }
            );
            let set = ok("engineered cram sam", records::parse_sam(&text));
            let file = write_cram(&set, 1);
            let (_, cs) = walk::cram(&file);
            if cs.iter().skip(1).any(|c| !c.is_eof && (c.end - c.body) % 256 == 0 && c.end > c.body) {
                found = Some(file);
                break;
            }
        }
        if let Some(file) = found {
            out.push(make_doc(Format::Cram, "eng-cram-container-length-x256", "engineered", file, false));
        }
    }

    // ---- single records larger than a BGZF block (read_exact of such a record takes the BGZF reader's
    //      direct-to-caller-buffer path), between small records; `big` documents
    {
        // the direct path needs >= 64 KiB still to be read at a block boundary, i.e. a record of more than two blocks
        let lens: &[usize] = if thorough { &[100_000, 200_000] } else { &[100_000] };
        for &n in lens {
            let set = ok("big-record sam", records::parse_sam(&records::big_record_sam_text(&[n])));
            let file = write_bam(&set, 1000);
            let d = make_doc(Format::Bam, format!("big-bam-read-{n}"), "big-record", file, true);
            let mut r = make_raw_doc(Format::Bam, format!("big-bamraw-read-{n}"), "big-record", d.inner.as_ref().unwrap().bytes.to_vec());
            r.big = true;
            r.equiv_of = Some(d.name.clone());
            out.push(d);
            out.push(r);
        }
        // SAM.gz lines > 64 KiB (35 000 bases + qualities) and > 128 KiB (70 000)
        for &n in (if thorough { &[35_000usize, 70_000][..] } else { &[35_000usize][..] }) {
            let set = ok("big-line sam", records::parse_sam(&records::big_record_sam_text(&[n])));
            out.push(make_doc(Format::SamGz, format!("big-samgz-line-{n}"), "big-record", write_sam_gz(&set, 0), true));
        }
        // BCF record / VCF.gz line > 64 KiB (> 128 KiB in thorough)
        for &n in (if thorough { &[70_000usize, 140_000][..] } else { &[140_000usize][..] }) {
            let set = ok("big-record vcf", records::parse_vcf(&records::big_record_vcf_text(&[n])));
            let d = make_doc(Format::Bcf, format!("big-bcf-record-{n}"), "big-record", write_bcf(&set, 1000), true);
            let mut r = make_raw_doc(Format::Bcf, format!("big-bcfraw-record-{n}"), "big-record", d.inner.as_ref().unwrap().bytes.to_vec());
            r.big = true;
            r.equiv_of = Some(d.name.clone());
            out.push(d);
            out.push(r);
            out.push(make_doc(Format::VcfGz, format!("big-vcfgz-line-{n}"), "big-record", write_vcf_gz(&set, 0), true));
        }
        // FASTQ / FASTA with a line > 64 KiB: plain, and as BGZF payload
        {
            let seq = records::filler(70_000, 3).into_bytes().iter().map(|b| b"ACGT"[(*b as usize) % 4]).collect::<Vec<u8>>();
            let qual = records::filler(70_000, 4).into_bytes();
            let mut w = fastq::io::Writer::new(Vec::new());
            for (n, sq, q) in [("r0", &b"ACGT"[..], &b"IIII"[..]), ("long", &seq[..], &qual[..]), ("r2", &b"GG"[..], &b"II"[..])] {
                ok("fastq record", w.write_record(&fastq::Record::new(fastq::record::Definition::new(n, ""), sq, q)));
            }
            let fq = w.into_inner();
            out.push(make_doc(Format::Fastq, "big-fastq-longline", "big-record", fq.clone(), true));
            out.push(make_doc(Format::Bgzf, "big-bgzf-fastq-longline", "big-record", bgzf_payload_doc(&fq, &[], None), true));
            let mut w = fasta::io::writer::Builder::default().set_line_base_count(NonZero::new(100_000).unwrap()).build_from_writer(Vec::new());
            for (n, sq) in [("sq0", &b"ACGT"[..]), ("long", &seq[..]), ("sq2", &b"GG"[..])] {
                ok("fasta record", w.write_record(&fasta::Record::new(fasta::record::Definition::new(n, None), fasta::record::Sequence::from(sq.to_vec()))));
            }
            out.push(make_doc(Format::Fasta, "big-fasta-longline", "big-record", w.into_inner(), true));
        }
    }

    // ---- record orders that alternate rich and minimal records (reused record buffers must keep nothing)
    {
        let set = ok("reuse sam", records::parse_sam(&records::reuse_sam_text()));
        out.push(make_doc(Format::Sam, "reuse-sam", "reuse", write_sam_plain(&set), false));
        out.push(make_doc(Format::Bam, "reuse-bam", "reuse", write_bam(&set, 2), false));
        let set = ok("reuse vcf", records::parse_vcf(&records::reuse_vcf_text()));
        out.push(make_doc(Format::Vcf, "reuse-vcf", "reuse", write_vcf(Vec::new(), &set, |_, _| Ok(())), false));
        out.push(make_doc(Format::Bcf, "reuse-bcf", "reuse", write_bcf(&set, 2), false));
    }

    // ---- text without a final newline
    for n in ["sam-mapped", "vcf-sites", "fasta-w60", "fastq-simple", "gff-directives-escapes", "gtf-basic", "bed3", "fai-of-fasta-w60"] {
        let d0 = get(n);
        let mut b = d0.bytes.to_vec();
        if b.last() == Some(&b'\n') {
            b.pop();
            out.push(make_doc(d0.format, format!("{n}-no-final-newline"), &d0.set, b, false));
        }
    }

    // ---- bgzipped, tabix-indexed GFF3 / GTF / BED (data = Format::Bgzf, `set` names the text format)
    for (name, kind, text) in [("gffgz", "gff.gz", write_gff(0)), ("gtfgz", "gtf.gz", write_gtf(0)), ("bedgz", "bed.gz", write_bed(6))] {
        let ends = line_ends(&text);
        let fl: Vec<usize> = ends.iter().copied().skip(1).step_by(2).collect();
        let data = bgzip_at(&text, &fl);
        let tbi = text_tabix(&data, kind);
        let mut d = make_doc(Format::Bgzf, format!("{name}-indexed"), kind, data, false);
        // the uncompressed stream is text: give it line / field boundaries
        if let Some(inner) = d.inner.as_mut() {
            let iw = walk::text(&text, b"\t;", None);
            let i = Arc::make_mut(inner);
            i.boundaries = Arc::new(iw.boundaries);
            i.record_ends = Arc::new(iw.record_ends);
        }
        let mut t = make_doc(Format::Tbi, format!("tbi-of-{name}-indexed"), kind, tbi, false);
        t.index_of = Some(d.name.clone());
        out.push(d);
        out.push(t);
    }

    // ---- bgzipped FASTA with fai + gzi (data = Format::Bgzf, set "fasta.gz"; the fai document points to it, the gzi
    //      document is named gzi-of-fastagz-indexed)
    {
        let fa = get("fasta-w60");
        let fl: Vec<usize> = (1..fa.bytes.len() / 250).map(|i| i * 250).collect();
        let data = bgzip_at(&fa.bytes, &fl);
        let mut d = make_doc(Format::Bgzf, "fastagz-indexed", "fasta.gz", data, false);
        if let Some(inner) = d.inner.as_mut() {
            let iw = walk::text(&fa.bytes, b"\t", None);
            let i = Arc::make_mut(inner);
            i.boundaries = Arc::new(iw.boundaries);
            i.record_ends = Arc::new(iw.record_ends);
        }
        let mut f = make_doc(Format::Fai, "fai-of-fastagz-indexed", "fasta.gz", fai_for(&fa), false);
        f.index_of = Some(d.name.clone());
        let g = make_doc(Format::Gzi, "gzi-of-fastagz-indexed", "fasta.gz", gzi_for(&d), false);
        out.push(d);
        out.push(f);
        out.push(g);
    }

    // ---- indexed documents whose BGZF members end at fixed byte distances (records and lines span members), with
    //      the index the noodles indexer builds for that layout
    for (n, step) in [("bam-mapped-f2", 101usize), ("bcf-sites-f2", 89), ("vcfgz-sites-f2", 83), ("samgz-mapped-f2", 97)] {
        let d0 = get(n);
        let i0 = d0.inner.as_ref().unwrap();
        let flush: Vec<usize> = (1..).map(|j| j * step).take_while(|&p| p < i0.bytes.len()).collect();
        let name = format!("{}-split", n.rsplit_once('-').unwrap().0);
        let mut d = make_doc(d0.format, name.clone(), &d0.set, bgzip_at(&i0.bytes, &flush), false);
        d.equiv_of = Some(d0.name.clone());
        let (ifmt, ibytes) = match d0.format {
            Format::Bam => (Format::Bai, bai_for(&d).expect("bai of a split BAM")),
            Format::Bcf => (Format::Csi, csi_bytes(&ok("bcf::fs::index", with_temp(&d.bytes, |p| bcf::fs::index(p))))),
            Format::VcfGz => (Format::Tbi, tbi_for(&d)),
            _ => (Format::Csi, csi_bytes(&ok("sam::fs::index", with_temp(&d.bytes, |p| sam::fs::index(p))))),
        };
        let mut x = make_doc(ifmt, format!("{}-of-{name}", ifmt.name()), &d0.set, ibytes, false);
        x.index_of = Some(name);
        out.push(d);
        out.push(x);
    }

    // ---- VCF / BCF whose header lines carry explicit IDX fields (as bcftools writes them; noodles writes none).
    //      The indices are the implicit ones (PASS = 0, then FILTER / INFO / FORMAT IDs in file order; contigs in
    //      order), so the records stay valid.
    {
        let with_idx = |text: &[u8]| -> Vec<u8> {
            let mut out = Vec::new();
            let mut ids: Vec<Vec<u8>> = vec![b"PASS".to_vec()];
            let mut contigs = 0usize;
            for line in text.split_inclusive(|&c| c == b'\n') {
                let kind = [&b"##FILTER=<ID="[..], b"##INFO=<ID=", b"##FORMAT=<ID=", b"##contig=<ID="].into_iter().find(|p| line.starts_with(p));
                let body_end = line.iter().rposition(|&c| c == b'>');
                match (kind, body_end) {
                    (Some(p), Some(e)) => {
                        let id: Vec<u8> = line[p.len()..].iter().copied().take_while(|&c| c != b',' && c != b'>').collect();
                        let k = if p.starts_with(b"##contig") {
                            contigs += 1;
                            contigs - 1
                        } else if let Some(k) = ids.iter().position(|x| *x == id) {
                            k
                        } else {
                            ids.push(id);
                            ids.len() - 1
                        };
                        out.extend_from_slice(&line[..e]);
                        out.extend_from_slice(format!(",IDX={k}").as_bytes());
                        out.extend_from_slice(&line[e..]);
                    }
                    _ => out.extend_from_slice(line),
                }
            }
            out
        };
        let v = get("vcf-sites");
        out.push(make_doc(Format::Vcf, "vcf-sites-idx", "sites", with_idx(&v.bytes), false));
        let b = get("bcf-sites-f2");
        let bi = b.inner.as_ref().unwrap();
        let l_text = walk::le_u32(&bi.bytes, 5).unwrap();
        let text = &bi.bytes[9..9 + l_text];
        let nul = text.iter().position(|&c| c == 0).unwrap_or(text.len());
        let mut t = with_idx(&text[..nul]);
        t.push(0);
        let mut stream = bi.bytes[..5].to_vec();
        stream.extend_from_slice(&(t.len() as u32).to_le_bytes());
        stream.extend_from_slice(&t);
        let hdr_end = stream.len();
        stream.extend_from_slice(&bi.bytes[9 + l_text..]);
        out.push(make_doc(Format::Bcf, "bcf-sites-idx", "sites", bgzip_at(&stream, &[hdr_end]), false));
    }

    // ---- CRLF twins of the text documents whose last column is read by a different path than in the corpus's CRLF
    //      documents (SAM without optional fields, VCF without samples, BED, FASTQ, second GFF / GTF documents)
    {
        let mut names: Vec<String> = ["sam-mapped", "vcf-sites", "bed3", "bed6", "bed12", "gff-resolution", "gtf-repeated-keys"].iter().map(|s| s.to_string()).collect();
        if let Some(f) = base.iter().find(|d| d.format == Format::Fastq && !d.big && !d.bytes.contains(&b'\r')) {
            names.push(f.name.clone());
        }
        for n in names {
            let Some(d0) = find(&base, &n) else { continue };
            if d0.bytes.contains(&b'\r') || find(&base, &format!("{n}-crlf")).is_some() {
                continue;
            }
            let mut t = Vec::with_capacity(d0.bytes.len() + 64);
            for &c in d0.bytes.iter() {
                if c == b'\n' {
                    t.push(b'\r');
                }
                t.push(c);
            }
            out.push(make_doc(d0.format, format!("{n}-crlf"), &d0.set, t, false));
        }
    }

    // ---- CSI of a bgzipped SAM (the quick corpus has none)
    if find(&base, "csi-of-samgz-mapped-f2").is_none() {
        let d0 = get("samgz-mapped-f2");
        if let Some(idx) = by_path("sam::fs::index", &d0, |p| sam::fs::index(p)) {
            let mut d = make_doc(Format::Csi, "csi-of-samgz-mapped-f2", "mapped", csi_bytes(&idx), false);
            d.index_of = Some(d0.name.clone());
            out.push(d);
        }
    }
    out
}

static QUICK_EXTRA: OnceLock<Vec<Doc>> = OnceLock::new();
static THOROUGH_EXTRA: OnceLock<Vec<Doc>> = OnceLock::new();

/// Additional documents that are **not** part of [`corpus`] (so that users of `corpus` are unaffected):
/// hand-built legal layouts noodles does not write itself (BAM / BCF whose `l_text` covers NUL padding, also
/// with a BGZF block boundary inside the padding, and as uncompressed streams; indexes without the optional
/// `n_no_coor`; BGZF with an empty member / without EOF marker; text without a final newline) and bgzipped,
/// tabix-indexed GFF3 / GTF / BED for the query stages.
pub fn extra(thorough: bool) -> Vec<Doc> {
    let cell = if thorough { &THOROUGH_EXTRA } else { &QUICK_EXTRA };
    cell.get_or_init(|| build_extra(thorough)).clone()
}
