//! Shared noodles-dependent harness code (corpus, drivers).
