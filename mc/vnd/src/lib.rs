//! Shared noodles-dependent harness code: corpus (written by the sync noodles writers at run time),
//! result-log drivers over the sync readers, render functions, mutation helpers.
//!
//! Public API used by C12, C13, C15 (and C16): [`Format`], [`Doc`], [`Field`], [`corpus`], [`read_log`],
//! [`read_log_bufread`], [`Opts`], the `render_*` functions in [`render`].

pub mod adapter;
pub mod adrive;
pub mod corpus;
pub mod drive;
pub mod mutate;
pub mod query;
pub mod records;
pub mod render;
pub mod walk;

use std::{fmt, sync::Arc};

pub use corpus::{by_path_failures, corpus, extra, ByPathFailure};
pub use drive::{Api, BgzfRead, Opts, read_log, read_log_bufread};
pub use render::*;

/// A format (reader entry point) exercised by the environment checks.
#[derive(Clone, Copy, Debug, PartialEq, Eq, Hash, PartialOrd, Ord)]
pub enum Format {
    Bgzf,
    Bam,
    Bcf,
    Cram,
    Sam,
    SamGz,
    Vcf,
    VcfGz,
    Fasta,
    FastaIndexer,
    Fastq,
    Gff,
    Gtf,
    Bed,
    Bai,
    Csi,
    Tbi,
    Gzi,
    Fai,
    Crai,
}

impl Format {
    pub const ALL: [Format; 20] = [
        Format::Bgzf,
        Format::Bam,
        Format::Bcf,
        Format::Cram,
        Format::Sam,
        Format::SamGz,
        Format::Vcf,
        Format::VcfGz,
        Format::Fasta,
        Format::FastaIndexer,
        Format::Fastq,
        Format::Gff,
        Format::Gtf,
        Format::Bed,
        Format::Bai,
        Format::Csi,
        Format::Tbi,
        Format::Gzi,
        Format::Fai,
        Format::Crai,
    ];

    pub fn name(self) -> &'static str {
        match self {
            Format::Bgzf => "bgzf",
            Format::Bam => "bam",
            Format::Bcf => "bcf",
            Format::Cram => "cram",
            Format::Sam => "sam",
            Format::SamGz => "sam.gz",
            Format::Vcf => "vcf",
            Format::VcfGz => "vcf.gz",
            Format::Fasta => "fasta",
            Format::FastaIndexer => "fasta-indexer",
            Format::Fastq => "fastq",
            Format::Gff => "gff",
            Format::Gtf => "gtf",
            Format::Bed => "bed",
            Format::Bai => "bai",
            Format::Csi => "csi",
            Format::Tbi => "tbi",
            Format::Gzi => "gzi",
            Format::Fai => "fai",
            Format::Crai => "crai",
        }
    }

    /// The file is a sequence of BGZF members (payload mutations go through the uncompressed stream).
    pub fn is_bgzf(self) -> bool {
        matches!(
            self,
            Format::Bgzf | Format::Bam | Format::Bcf | Format::SamGz | Format::VcfGz | Format::Csi | Format::Tbi
        )
    }

    pub fn is_index(self) -> bool {
        matches!(
            self,
            Format::Bai | Format::Csi | Format::Tbi | Format::Gzi | Format::Fai | Format::Crai
        )
    }

    /// Plain line-based text (as delivered to the reader).
    pub fn is_text(self) -> bool {
        matches!(
            self,
            Format::Sam
                | Format::Vcf
                | Format::Fasta
                | Format::FastaIndexer
                | Format::Fastq
                | Format::Gff
                | Format::Gtf
                | Format::Bed
                | Format::Fai
        )
    }

    /// The sync noodles reader for this format needs a `BufRead`.
    pub fn needs_bufread(self) -> bool {
        matches!(
            self,
            Format::Sam
                | Format::Vcf
                | Format::Fasta
                | Format::FastaIndexer
                | Format::Fastq
                | Format::Gff
                | Format::Gtf
                | Format::Bed
                | Format::Fai
        )
    }
}

impl fmt::Display for Format {
    fn fmt(&self, f: &mut fmt::Formatter<'_>) -> fmt::Result {
        f.write_str(self.name())
    }
}

/// A located length / count / offset / id field for structured mutation.
#[derive(Clone, Debug, PartialEq, Eq)]
pub struct Field {
    /// Byte offset in the stream the field list belongs to (`Doc::bytes` or `Inner::bytes`).
    pub offset: usize,
    /// Width in bytes. For `itf8` / `ltf8` / `text-int` kinds this is the encoded width in the document.
    pub width: usize,
    /// Kind name, e.g. `bam.block_size`, `bgzf.bsize`, `bai.n_bin`, `cram.container.length`.
    pub kind: &'static str,
    /// Integer encoding of the field.
    pub enc: Enc,
    /// Layout-aware mutation values computed by the structural walk: values of this field for which the
    /// enclosing record / block is exactly 0, 1 or 2 bytes too short or too long.
    pub extra: Vec<u64>,
}

#[derive(Clone, Copy, Debug, PartialEq, Eq)]
pub enum Enc {
    /// Little-endian fixed width (1, 2, 4, 8).
    Le,
    /// CRAM ITF8.
    Itf8,
    /// CRAM LTF8.
    Ltf8,
    /// ASCII decimal.
    Text,
}

/// The uncompressed stream carried by a BGZF document (BAM, BCF, SAM.gz, VCF.gz, CSI, tabix, BGZF).
#[derive(Clone, Debug, Default)]
pub struct Inner {
    pub bytes: Arc<Vec<u8>>,
    /// Structural boundaries (record / line / field-group ends) in uncompressed coordinates, sorted.
    pub boundaries: Arc<Vec<usize>>,
    /// Record (or line) end offsets only: `record_ends[i]` = end of item `i` after the header, sorted.
    pub record_ends: Arc<Vec<usize>>,
    /// End of the header in uncompressed coordinates.
    pub header_end: usize,
    pub fields: Vec<Field>,
    /// Uncompressed start offset of every BGZF member (same order as the members).
    pub member_starts: Arc<Vec<usize>>,
}

/// One corpus document.
#[derive(Clone, Debug)]
pub struct Doc {
    pub format: Format,
    pub name: String,
    pub bytes: Arc<Vec<u8>>,
    /// Structural boundary offsets in `bytes` (block / container / record / line / field ends), sorted.
    pub boundaries: Arc<Vec<usize>>,
    /// Located length / count / offset fields in `bytes`.
    pub fields: Vec<Field>,
    /// For BGZF-based documents: the uncompressed stream with its own boundaries and fields.
    pub inner: Option<Arc<Inner>>,
    /// One of the > 64 KiB documents (expensive sweeps use a reduced offset set, stated as such).
    pub big: bool,
    /// Name of the corpus document this index was built for (index documents only).
    pub index_of: Option<String>,
    /// Name of the record set the document was written from.
    pub set: String,
    /// Ends (offsets in `bytes`) of the top-level units after the header: BGZF members, CRAM containers,
    /// lines of text documents, per-reference sections / entries of binary indexes.
    pub item_ends: Arc<Vec<usize>>,
    /// End of the fixed header part in `bytes` where the walk knows one (CRAM file definition; for BAI /
    /// CSI / tabix the offset of the optional trailing `n_no_coor`).
    pub header_end: usize,
    /// The bytes are an uncompressed BAM / BCF record stream (read with `Reader::from`, `Opts::raw`).
    pub raw: bool,
    /// Hand-built legal layout that noodles does not write itself: name of the noodles-written corpus document
    /// with the same content (its log, virtual positions aside, is the expected log).
    pub equiv_of: Option<String>,
}

impl Doc {
    pub fn len(&self) -> usize {
        self.bytes.len()
    }
    pub fn is_empty(&self) -> bool {
        self.bytes.is_empty()
    }
}
