//! The ASYNC readers driven over in-memory bytes, one API per format, with the log conventions of `drive`
//! (`header: …`, `rec[i]: …` / `line[i]: …`, `end: EOF | Err(..)`): used by C13 (complete cut sweep per async reader)
//! and C15 (hostile input through the async readers, documents and indexes).
//!
//! Format -> API: BAM / SAM / SAM.gz / VCF / VCF.gz `read_record_buf`; BCF `read_record` (lazy record, every accessor
//! through the variant-record trait); CRAM `records(&header)`; FASTA `read_definition` + `read_sequence`; FASTQ
//! `read_record`; GFF `read_line`; BAI / CSI / tabix / gzi / fai / crai `read_index`.
//! The futures run on a per-thread tokio current-thread runtime (the async BGZF reader inflates with
//! `spawn_blocking`); an in-memory source is always ready, so poll schedules are not a dimension here (C16's).

use std::{cell::RefCell, future::Future, io};

use futures::StreamExt;
use noodles_bam as bam;
use noodles_bcf as bcf;
use noodles_bgzf as bgzf;
use noodles_cram as cram;
use noodles_csi as csi;
use noodles_fasta as fasta;
use noodles_fastq as fastq;
use noodles_gff as gff;
use noodles_sam as sam;
use noodles_tabix as tabix;
use noodles_vcf as vcf;

use crate::{
    Format, Opts,
    drive::{index_log, nonterm, render_crai_record, render_fai_record, render_fasta_record, render_fastq_record, render_gff_line},
    end_eof, end_err, render, render_err, render_vpos,
};

/// Formats that have an async reader driven here.
pub fn has_async(format: Format) -> bool {
    matches!(
        format,
        Format::Bam
            | Format::Bcf
            | Format::Cram
            | Format::Sam
            | Format::SamGz
            | Format::Vcf
            | Format::VcfGz
            | Format::Fasta
            | Format::Fastq
            | Format::Gff
            | Format::Bai
            | Format::Csi
            | Format::Tbi
            | Format::Gzi
            | Format::Fai
            | Format::Crai
    )
}

/// Runs a future to completion on this thread's tokio current-thread runtime.
pub fn block_on<F: Future>(f: F) -> F::Output {
    thread_local! {
        static RT: RefCell<Option<tokio::runtime::Runtime>> = const { RefCell::new(None) };
    }
    RT.with(|rt| {
        let mut rt = rt.borrow_mut();
        let rt = rt.get_or_insert_with(|| tokio::runtime::Builder::new_current_thread().max_blocking_threads(2).build().expect("tokio current-thread runtime"));
        rt.block_on(f)
    })
}

/// The async reader of `format` over `bytes` (`None`: the format has no async reader). `opts.raw` is ignored (the
/// async BAM / BCF readers are driven over BGZF).
pub fn read_log_async(format: Format, bytes: &[u8], opts: &Opts) -> Option<Vec<String>> {
    if !has_async(format) || opts.raw {
        return None;
    }
    Some(block_on(drive(format, bytes, opts)))
}

macro_rules! header {
    ($r:ident, $render:path) => {
        match $r.read_header().await {
            Ok(h) => h,
            Err(e) => return vec![end_err(&e)],
        }
    };
}

/// `loop { read into rec; 0 => break }` with the cap and the terminal line.
macro_rules! record_loop {
    ($log:ident, $o:ident, $what:expr, $read:expr, $line:expr) => {{
        let mut i = 0usize;
        loop {
            if i > $o.cap() {
                nonterm(&mut $log, $what);
                return $log;
            }
            match $read.await {
                Ok(0) => break,
                Ok(n) => {
                    let line: String = $line(i, n);
                    $log.push(line);
                }
                Err(e) => {
                    $log.push(end_err(&e));
                    return $log;
                }
            }
            i += 1;
        }
        $log.push(end_eof());
        $log
    }};
}

async fn drive(format: Format, bytes: &[u8], o: &Opts) -> Vec<String> {
    let lim = o.limits();
    let mut log: Vec<String> = Vec::new();
    match format {
        Format::Bam => {
            let mut r = bam::r#async::io::Reader::new(bytes);
            let header = header!(r, render_sam_header);
            log.push(render::render_sam_header(&header));
            let mut rec = sam::alignment::RecordBuf::default();
            record_loop!(log, o, "bam::async::io::Reader::read_record_buf", r.read_record_buf(&header, &mut rec), |i, n| format!("rec[{i}]: bs={n} {}", render::render_alignment_record(&header, &rec, &lim)))
        }
        Format::Sam | Format::SamGz => {
            if format == Format::SamGz {
                let mut r = sam::r#async::io::Reader::new(bgzf::r#async::io::Reader::new(bytes));
                let header = header!(r, render_sam_header);
                log.push(render::render_sam_header(&header));
                let mut rec = sam::alignment::RecordBuf::default();
                record_loop!(log, o, "sam::async::io::Reader::read_record_buf", r.read_record_buf(&header, &mut rec), |i, n| format!("rec[{i}]: n={n} {}", render::render_alignment_record(&header, &rec, &lim)))
            } else {
                let mut r = sam::r#async::io::Reader::new(bytes);
                let header = header!(r, render_sam_header);
                log.push(render::render_sam_header(&header));
                let mut rec = sam::alignment::RecordBuf::default();
                record_loop!(log, o, "sam::async::io::Reader::read_record_buf", r.read_record_buf(&header, &mut rec), |i, n| format!("rec[{i}]: n={n} {}", render::render_alignment_record(&header, &rec, &lim)))
            }
        }
        Format::Vcf | Format::VcfGz => {
            if format == Format::VcfGz {
                let mut r = vcf::r#async::io::Reader::new(bgzf::r#async::io::Reader::new(bytes));
                let header = header!(r, render_vcf_header);
                log.push(render::render_vcf_header(&header));
                let mut rec = vcf::variant::RecordBuf::default();
                record_loop!(log, o, "vcf::async::io::Reader::read_record_buf", r.read_record_buf(&header, &mut rec), |i, n| format!("rec[{i}]: n={n} {}", render::render_variant_record(&header, &rec, &lim)))
            } else {
                let mut r = vcf::r#async::io::Reader::new(bytes);
                let header = header!(r, render_vcf_header);
                log.push(render::render_vcf_header(&header));
                let mut rec = vcf::variant::RecordBuf::default();
                record_loop!(log, o, "vcf::async::io::Reader::read_record_buf", r.read_record_buf(&header, &mut rec), |i, n| format!("rec[{i}]: n={n} {}", render::render_variant_record(&header, &rec, &lim)))
            }
        }
        Format::Bcf => {
            let mut r = bcf::r#async::io::Reader::new(bytes);
            let header = header!(r, render_vcf_header);
            log.push(render::render_vcf_header(&header));
            let mut rec = bcf::Record::default();
            record_loop!(log, o, "bcf::async::io::Reader::read_record", r.read_record(&mut rec), |i, n| format!("rec[{i}]: n={n} {}", render::render_variant_record(&header, &rec, &lim)))
        }
        Format::Cram => {
            let repo = crate::records::repository();
            let mut r = cram::r#async::io::reader::Builder::default().set_reference_sequence_repository(repo).build_from_reader(io::Cursor::new(bytes));
            let header = header!(r, render_sam_header);
            log.push(render::render_sam_header(&header));
            let mut i = 0usize;
            {
                let mut records = std::pin::pin!(r.records(&header));
                while let Some(res) = records.next().await {
                    if i > o.cap() {
                        nonterm(&mut log, "cram::async::io::Reader::records");
                        return log;
                    }
                    match res {
                        Ok(rec) => log.push(format!("rec[{i}]: {}", render::render_alignment_record(&header, &rec, &lim))),
                        Err(e) => {
                            log.push(end_err(&e));
                            return log;
                        }
                    }
                    i += 1;
                }
            }
            log.push(end_eof());
            log
        }
        Format::Fasta => {
            let mut r = fasta::r#async::io::Reader::new(bytes);
            let mut def = fasta::record::Definition::default();
            let mut i = 0usize;
            loop {
                if i > o.cap() {
                    nonterm(&mut log, "fasta::async::io::Reader::read_definition");
                    return log;
                }
                match r.read_definition(&mut def).await {
                    Ok(0) => break,
                    Ok(_) => {}
                    Err(e) => {
                        log.push(end_err(&e));
                        return log;
                    }
                }
                let mut seq = Vec::new();
                if let Err(e) = r.read_sequence(&mut seq).await {
                    log.push(end_err(&e));
                    return log;
                }
                log.push(format!("rec[{i}]: {}", render_fasta_record(def.name(), def.description().map(|d| d.as_ref()), &seq)));
                i += 1;
            }
            log.push(end_eof());
            log
        }
        Format::Fastq => {
            let mut r = fastq::r#async::io::Reader::new(bytes);
            let mut rec = fastq::Record::default();
            record_loop!(log, o, "fastq::async::io::Reader::read_record", r.read_record(&mut rec), |i, n| format!("rec[{i}]: n={n} {}", render_fastq_record(&rec)))
        }
        Format::Gff => {
            let mut r = gff::r#async::io::Reader::new(bytes);
            let mut line = gff::Line::default();
            record_loop!(log, o, "gff::async::io::Reader::read_line", r.read_line(&mut line), |i, n| format!("line[{i}]: n={n} {}", render_gff_line(&line, &lim)))
        }
        Format::Bai => index_log(bam::bai::r#async::io::Reader::new(bytes).read_index().await, o),
        Format::Csi => index_log(csi::r#async::io::Reader::new(bytes).read_index().await, o),
        Format::Tbi => index_log(tabix::r#async::io::Reader::new(bytes).read_index().await, o),
        Format::Gzi => match bgzf::gzi::r#async::io::Reader::new(bytes).read_index().await {
            Ok(idx) => {
                let mut log: Vec<String> = idx.as_ref().iter().enumerate().map(|(i, (c, u))| format!("rec[{i}]: compressed={c} uncompressed={u}")).collect();
                let mut q = String::from("query:");
                for (_, u) in idx.as_ref().iter().take(64) {
                    for p in [u.saturating_sub(1), *u] {
                        match idx.query(p) {
                            Ok(v) => q.push_str(&format!(" {p}->{}", render_vpos(v))),
                            Err(e) => q.push_str(&format!(" {p}->{}", render_err(&e))),
                        }
                    }
                }
                log.push(q);
                log.push(end_eof());
                log
            }
            Err(e) => vec![end_err(&e)],
        },
        Format::Fai => match fasta::fai::r#async::io::Reader::new(bytes).read_index().await {
            Ok(idx) => {
                let mut log: Vec<String> = idx.as_ref().iter().enumerate().map(|(i, r)| format!("rec[{i}]: {}", render_fai_record(r))).collect();
                log.push(end_eof());
                log
            }
            Err(e) => vec![end_err(&e)],
        },
        Format::Crai => match cram::crai::r#async::io::Reader::new(bytes).read_index().await {
            Ok(idx) => {
                let mut log: Vec<String> = idx.iter().enumerate().map(|(i, rec)| format!("rec[{i}]: {}", render_crai_record(rec))).collect();
                log.push(end_eof());
                log
            }
            Err(e) => vec![end_err(&e)],
        },
        _ => vec![end_eof()],
    }
}

/// An in-memory async source that hands out at most `chunk` bytes per read and answers `Interrupted` once where
/// `interrupt_at` says: `Some(p)` = the first read issued when `p` bytes have been delivered (`p == len`: the read
/// that would report the end of the stream).
pub struct InterruptingSource<'a> {
    data: &'a [u8],
    pos: usize,
    chunk: usize,
    interrupt_at: Option<usize>,
    fired: bool,
}

impl<'a> InterruptingSource<'a> {
    pub fn new(data: &'a [u8], chunk: usize, interrupt_at: Option<usize>) -> Self {
        Self { data, pos: 0, chunk: chunk.max(1), interrupt_at, fired: false }
    }
}

impl tokio::io::AsyncRead for InterruptingSource<'_> {
    fn poll_read(mut self: std::pin::Pin<&mut Self>, _cx: &mut std::task::Context<'_>, buf: &mut tokio::io::ReadBuf<'_>) -> std::task::Poll<io::Result<()>> {
        if !self.fired && self.interrupt_at == Some(self.pos) {
            self.fired = true;
            return std::task::Poll::Ready(Err(io::Error::from(io::ErrorKind::Interrupted)));
        }
        let n = self.chunk.min(self.data.len() - self.pos).min(buf.remaining());
        let (a, b) = (self.pos, self.pos + n);
        buf.put_slice(&self.data[a..b]);
        self.pos = b;
        std::task::Poll::Ready(Ok(()))
    }
}

/// The async BAM reader over an UNCOMPRESSED BAM stream (`Reader::from`, no BGZF layer, so the source's answers
/// reach the record reader directly) delivered by an [`InterruptingSource`]. Log: `header: ok`, `rec[i]: bs=<n>
/// name=<name>`, `end: …`.
pub fn bam_raw_async_log(stream: &[u8], chunk: usize, interrupt_at: Option<usize>, cap: usize) -> Vec<String> {
    block_on(async {
        let mut log = Vec::new();
        let mut r = bam::r#async::io::Reader::from(InterruptingSource::new(stream, chunk, interrupt_at));
        let header = match r.read_header().await {
            Ok(h) => h,
            Err(e) => return vec![end_err(&e)],
        };
        log.push("header: ok".to_string());
        let mut rec = sam::alignment::RecordBuf::default();
        let mut i = 0usize;
        loop {
            if i > cap {
                nonterm(&mut log, "bam::async::io::Reader::read_record_buf (raw)");
                return log;
            }
            match r.read_record_buf(&header, &mut rec).await {
                Ok(0) => break,
                Ok(n) => log.push(format!("rec[{i}]: bs={n} name={:?} l_seq={}", rec.name(), rec.sequence().len())),
                Err(e) => {
                    log.push(end_err(&e));
                    return log;
                }
            }
            i += 1;
        }
        log.push(end_eof());
        log
    })
}
