//! Rendering of headers, records and indexes into log lines. Every accessor of a lazy record is touched.
//!
//! All loops over lazy iterators are capped at `Limits::cap` items; a longer stream is rendered as
//! `non-termination iterator=<type>` (see [`NONTERM`]). `Debug` output is produced with `write!` into a
//! size-limited sink and a returned `fmt::Error` is ignored.

use std::{
    fmt::{self, Debug, Write as _},
    io,
};

use noodles_csi::{self as csi, BinningIndex, binning_index::ReferenceSequence as _};
use noodles_gff as gff;
use noodles_sam as sam;
use noodles_vcf as vcf;

pub const NONTERM: &str = "non-termination iterator=";
pub const DEBUG_OVERFLOW: &str = "debug-output-over-limit type=";

#[derive(Clone, Copy, Debug)]
pub struct Limits {
    /// Maximal number of items taken from any lazy iterator (input length + 1000).
    pub cap: usize,
    /// Maximal number of bytes of one `Debug` rendering.
    pub debug_limit: usize,
    /// Produce `Debug` renderings at all.
    pub debug: bool,
}

impl Limits {
    pub fn for_input(len: usize) -> Self {
        Self { cap: len + 1000, debug_limit: 64 * len + 65536, debug: true }
    }
}

/// Printable rendering of bytes.
pub fn esc(b: impl AsRef<[u8]>) -> String {
    let b = b.as_ref();
    let mut s = String::with_capacity(b.len());
    for &c in b {
        match c {
            b'\\' => s.push_str("\\\\"),
            b'\n' => s.push_str("\\n"),
            b'\r' => s.push_str("\\r"),
            b'\t' => s.push_str("\\t"),
            0x20..=0x7e => s.push(c as char),
            _ => {
                let _ = write!(s, "\\x{c:02x}");
            }
        }
    }
    s
}

pub fn render_err(e: &io::Error) -> String {
    format!("Err(kind={:?} msg={})", e.kind(), esc(e.to_string()))
}

/// The terminal line of a log.
pub fn end_eof() -> String {
    "end: EOF".to_string()
}
pub fn end_err(e: &io::Error) -> String {
    format!("end: {}", render_err(e))
}
pub fn is_end_err(line: &str) -> bool {
    line.starts_with("end: Err(")
}
pub fn is_end_eof(line: &str) -> bool {
    line == "end: EOF"
}

struct Limited {
    buf: String,
    limit: usize,
    over: bool,
}

impl fmt::Write for Limited {
    fn write_str(&mut self, s: &str) -> fmt::Result {
        if self.buf.len() + s.len() > self.limit {
            self.over = true;
            return Err(fmt::Error);
        }
        self.buf.push_str(s);
        Ok(())
    }
}

/// `Debug` rendering through `write!` into a limited sink; `fmt::Error` is ignored.
pub fn debug_of<T: Debug + ?Sized>(x: &T, lim: &Limits, ty: &str) -> String {
    if !lim.debug {
        return String::new();
    }
    let mut w = Limited { buf: String::new(), limit: lim.debug_limit, over: false };
    let _ = write!(w, "{x:?}");
    if w.over {
        format!("{DEBUG_OVERFLOW}{ty}")
    } else {
        w.buf
    }
}

fn res<T>(out: &mut String, key: &str, r: io::Result<T>, f: impl FnOnce(&mut String, T)) {
    let _ = write!(out, " {key}=");
    match r {
        Ok(v) => f(out, v),
        Err(e) => out.push_str(&render_err(&e)),
    }
}

fn opt_res<T>(out: &mut String, key: &str, r: Option<io::Result<T>>, f: impl FnOnce(&mut String, T)) {
    match r {
        None => {
            let _ = write!(out, " {key}=.");
        }
        Some(r) => res(out, key, r, f),
    }
}

/// Number of further items drained (without rendering) once the cap is reached, to tell a long but finite
/// count-driven iterator from one that does not end. The widest count a lazy record takes from its input
/// without a matching amount of data is BCF's 24-bit `n_sample` (a record with no FORMAT fields is consistent
/// with any sample count), so an iterator is only called non-terminating once it has delivered more items
/// than any 24-bit count explains.
pub const DRAIN: usize = (1 << 24) + 65_536;
pub const LONG: &str = "long-iterator=";

/// Iterates `it` up to the cap, calling `f` for every item. Past the cap up to [`DRAIN`] further items are
/// drained silently: if the iterator ends there, ` long-iterator=<type>` is appended (not a verdict), else the
/// non-termination marker. Returns the number of items rendered.
pub fn capped<I: Iterator>(out: &mut String, it: I, lim: &Limits, ty: &str, mut f: impl FnMut(&mut String, I::Item)) -> usize {
    let mut n = 0;
    let mut drained = 0usize;
    for x in it {
        if n >= lim.cap {
            drained += 1;
            if drained > DRAIN {
                let _ = write!(out, " {NONTERM}{ty}");
                return n;
            }
            continue;
        }
        f(out, x);
        n += 1;
    }
    if drained > 0 {
        let _ = write!(out, " {LONG}{ty}(+{drained})");
    }
    n
}

fn f32s(x: f32) -> String {
    format!("{x:?}/{:08x}", x.to_bits())
}

// ---------------------------------------------------------------------------------- alignments

pub fn render_sam_header(h: &sam::Header) -> String {
    format!("header: {}", esc(format!("{h:?}")))
}

fn render_aux_array<'a, N: Debug>(
    out: &mut String,
    ty: &str,
    v: &dyn sam::alignment::record::data::field::value::array::Values<'a, N>,
    lim: &Limits,
) {
    let _ = write!(out, "B{ty}#{}[", v.len());
    capped(out, v.iter(), lim, "sam::alignment::record::data::field::value::array::Values::iter", |o, r| match r {
        Ok(x) => {
            let _ = write!(o, "{x:?},");
        }
        Err(e) => {
            o.push_str(&render_err(&e));
            o.push(',');
        }
    });
    out.push(']');
}

pub fn render_aux_value(out: &mut String, v: &sam::alignment::record::data::field::Value<'_>, lim: &Limits) {
    use sam::alignment::record::data::field::{Value, value::Array};
    let _ = write!(out, "{:?}:", v.ty());
    let _ = v.as_int();
    match v {
        Value::Character(c) => {
            let _ = write!(out, "{}", esc([*c]));
        }
        Value::Int8(n) => {
            let _ = write!(out, "{n}");
        }
        Value::UInt8(n) => {
            let _ = write!(out, "{n}");
        }
        Value::Int16(n) => {
            let _ = write!(out, "{n}");
        }
        Value::UInt16(n) => {
            let _ = write!(out, "{n}");
        }
        Value::Int32(n) => {
            let _ = write!(out, "{n}");
        }
        Value::UInt32(n) => {
            let _ = write!(out, "{n}");
        }
        Value::Float(x) => out.push_str(&f32s(*x)),
        Value::String(s) => out.push_str(&esc(s)),
        Value::Hex(s) => out.push_str(&esc(s)),
        Value::Array(a) => {
            let _ = a.subtype();
            match a {
                Array::Int8(v) => render_aux_array(out, "c", v.as_ref(), lim),
                Array::UInt8(v) => render_aux_array(out, "C", v.as_ref(), lim),
                Array::Int16(v) => render_aux_array(out, "s", v.as_ref(), lim),
                Array::UInt16(v) => render_aux_array(out, "S", v.as_ref(), lim),
                Array::Int32(v) => render_aux_array(out, "i", v.as_ref(), lim),
                Array::UInt32(v) => render_aux_array(out, "I", v.as_ref(), lim),
                Array::Float(v) => render_aux_array(out, "f", v.as_ref(), lim),
            }
        }
    }
}

/// Renders every field of an alignment record through `sam::alignment::Record` (lazy `bam::Record`,
/// `sam::Record`, `cram::Record`, and the owned `RecordBuf`).
pub fn render_alignment_record(h: &sam::Header, r: &dyn sam::alignment::Record, lim: &Limits) -> String {
    let mut out = String::new();
    let _ = write!(out, "name={}", r.name().map(esc).unwrap_or_else(|| ".".into()));
    res(&mut out, "flags", r.flags(), |o, f| {
        let _ = write!(o, "{}", u16::from(f));
    });
    opt_res(&mut out, "rid", r.reference_sequence_id(h), |o, v| {
        let _ = write!(o, "{v}");
    });
    opt_res(&mut out, "rname", r.reference_sequence(h), |o, (name, map)| {
        let _ = write!(o, "{}:{}", esc(name), map.length());
    });
    opt_res(&mut out, "pos", r.alignment_start(), |o, v| {
        let _ = write!(o, "{v}");
    });
    opt_res(&mut out, "mapq", r.mapping_quality(), |o, v| {
        let _ = write!(o, "{}", u8::from(v));
    });
    {
        let c = r.cigar();
        let _ = write!(out, " cigar#{}{}[", c.len(), if c.is_empty() { "e" } else { "" });
        capped(&mut out, c.iter(), lim, "sam::alignment::record::Cigar::iter", |o, r| match r {
            Ok(op) => {
                let _ = write!(o, "{}{:?},", op.len(), op.kind());
            }
            Err(e) => {
                o.push_str(&render_err(&e));
                o.push(',');
            }
        });
        out.push(']');
        res(&mut out, "cigar_span", c.alignment_span(), |o, v| {
            let _ = write!(o, "{v}");
        });
        res(&mut out, "cigar_read_len", c.read_length(), |o, v| {
            let _ = write!(o, "{v}");
        });
    }
    opt_res(&mut out, "mrid", r.mate_reference_sequence_id(h), |o, v| {
        let _ = write!(o, "{v}");
    });
    opt_res(&mut out, "mrname", r.mate_reference_sequence(h), |o, (name, _)| {
        let _ = write!(o, "{}", esc(name));
    });
    opt_res(&mut out, "mpos", r.mate_alignment_start(), |o, v| {
        let _ = write!(o, "{v}");
    });
    res(&mut out, "tlen", r.template_length(), |o, v| {
        let _ = write!(o, "{v}");
    });
    {
        let s = r.sequence();
        let n = s.len();
        let _ = write!(out, " seq#{n}{}=", if s.is_empty() { "e" } else { "" });
        let mut bases = Vec::new();
        let mut over = false;
        let mut drained = 0usize;
        for b in s.iter() {
            if bases.len() >= lim.cap {
                drained += 1;
                if drained > DRAIN {
                    over = true;
                    break;
                }
                continue;
            }
            bases.push(b);
        }
        out.push_str(&esc(&bases));
        if over {
            let _ = write!(out, " {NONTERM}sam::alignment::record::Sequence::iter");
        }
        // random access agrees with iteration
        if n > 0 && n <= lim.cap {
            let first = s.get(0);
            let last = s.get(n - 1);
            let beyond = s.get(n);
            let _ = write!(out, " seq_get={:?}/{:?}/{:?}", first, last, beyond);
        }
    }
    {
        let q = r.quality_scores();
        let _ = write!(out, " qual#{}{}=[", q.len(), if q.is_empty() { "e" } else { "" });
        capped(&mut out, q.iter(), lim, "sam::alignment::record::QualityScores::iter", |o, r| match r {
            Ok(x) => {
                let _ = write!(o, "{x},");
            }
            Err(e) => {
                o.push_str(&render_err(&e));
                o.push(',');
            }
        });
        out.push(']');
    }
    {
        let d = r.data();
        let _ = write!(out, " data{}=[", if d.is_empty() { "e" } else { "" });
        let mut tags = Vec::new();
        capped(&mut out, d.iter(), lim, "sam::alignment::record::Data::iter", |o, r| match r {
            Ok((tag, v)) => {
                let _ = write!(o, "{}:", esc(tag.as_ref()));
                render_aux_value(o, &v, lim);
                o.push(';');
                if tags.len() < 64 {
                    tags.push(tag);
                }
            }
            Err(e) => {
                o.push_str(&render_err(&e));
                o.push(';');
            }
        });
        out.push(']');
        // keyed access
        let _ = write!(out, " data_get=[");
        for tag in &tags {
            match d.get(tag) {
                None => out.push_str("none;"),
                Some(Ok(v)) => {
                    render_aux_value(&mut out, &v, lim);
                    out.push(';');
                }
                Some(Err(e)) => {
                    out.push_str(&render_err(&e));
                    out.push(';');
                }
            }
        }
        out.push(']');
    }
    opt_res(&mut out, "span", r.alignment_span(), |o, v| {
        let _ = write!(o, "{v}");
    });
    opt_res(&mut out, "end", r.alignment_end(), |o, v| {
        let _ = write!(o, "{v}");
    });
    out
}

// ---------------------------------------------------------------------------------- variants

pub fn render_vcf_header(h: &vcf::Header) -> String {
    // not `{h:?}`: the header's string maps hold a HashMap whose Debug order is not deterministic
    let mut s = format!(
        "file_format={:?} infos={:?} filters={:?} formats={:?} alts={:?} contigs={:?} samples={:?} other={:?}",
        h.file_format(),
        h.infos(),
        h.filters(),
        h.formats(),
        h.alternative_alleles(),
        h.contigs(),
        h.sample_names(),
        h.other_records()
    );
    let sm = h.string_maps();
    s.push_str(" strings=[");
    let mut i = 0;
    while let Some(x) = sm.strings().get_index(i) {
        let _ = write!(s, "{i}:{x}@{:?},", sm.strings().get_index_of(x));
        i += 1;
        if i > 100_000 {
            break;
        }
    }
    s.push_str("] contig_strings=[");
    let mut i = 0;
    while let Some(x) = sm.contigs().get_index(i) {
        let _ = write!(s, "{i}:{x}@{:?},", sm.contigs().get_index_of(x));
        i += 1;
        if i > 100_000 {
            break;
        }
    }
    s.push(']');
    // the string maps a BCF writer / `StringMaps::try_from` derives from the header (honours explicit IDX fields)
    match vcf::header::StringMaps::try_from(h) {
        Ok(sm) => {
            let count = |m: &dyn Fn(usize) -> bool| (0..100_000).take_while(|&i| m(i)).count();
            let _ = write!(s, " derived_string_maps=strings:{} contigs:{}", count(&|i| sm.strings().get_index(i).is_some()), count(&|i| sm.contigs().get_index(i).is_some()));
        }
        Err(e) => {
            let _ = write!(s, " derived_string_maps=Err({e})");
        }
    }
    format!("header: {}", esc(s))
}

fn render_opt<T>(o: &mut String, r: io::Result<Option<T>>, f: impl FnOnce(&mut String, T)) {
    match r {
        Ok(Some(v)) => f(o, v),
        Ok(None) => o.push('.'),
        Err(e) => o.push_str(&render_err(&e)),
    }
}

fn render_info_array<'a, N>(
    out: &mut String,
    v: &dyn vcf::variant::record::info::field::value::array::Values<'a, N>,
    lim: &Limits,
    f: impl Fn(&mut String, N),
) {
    let _ = write!(out, "#{}[", v.len());
    capped(out, v.iter(), lim, "vcf::variant::record::info::field::value::array::Values::iter", |o, r| {
        render_opt(o, r, &f);
        o.push(',');
    });
    out.push(']');
}

pub fn render_info_value(out: &mut String, v: &vcf::variant::record::info::field::Value<'_>, lim: &Limits) {
    use vcf::variant::record::info::field::{Value, value::Array};
    match v {
        Value::Integer(n) => {
            let _ = write!(out, "i{n}");
        }
        Value::Float(x) => {
            let _ = write!(out, "f{}", f32s(*x));
        }
        Value::Flag => out.push_str("flag"),
        Value::Character(c) => {
            let _ = write!(out, "c{c:?}");
        }
        Value::String(s) => {
            let _ = write!(out, "s{}", esc(s.as_bytes()));
        }
        Value::Array(a) => match a {
            Array::Integer(v) => render_info_array(out, v.as_ref(), lim, |o, x| {
                let _ = write!(o, "{x}");
            }),
            Array::Float(v) => render_info_array(out, v.as_ref(), lim, |o, x| o.push_str(&f32s(x))),
            Array::Character(v) => render_info_array(out, v.as_ref(), lim, |o, x| {
                let _ = write!(o, "{x:?}");
            }),
            Array::String(v) => render_info_array(out, v.as_ref(), lim, |o, x| o.push_str(&esc(x.as_bytes()))),
        },
    }
}

fn render_sample_array<'a, N>(
    out: &mut String,
    v: &dyn vcf::variant::record::samples::series::value::array::Values<'a, N>,
    lim: &Limits,
    f: impl Fn(&mut String, N),
) {
    let _ = write!(out, "#{}[", v.len());
    capped(out, v.iter(), lim, "vcf::variant::record::samples::series::value::array::Values::iter", |o, r| {
        render_opt(o, r, &f);
        o.push(',');
    });
    out.push(']');
}

pub fn render_sample_value(out: &mut String, v: &vcf::variant::record::samples::series::Value<'_>, lim: &Limits) {
    use vcf::variant::record::samples::series::{Value, value::Array};
    match v {
        Value::Integer(n) => {
            let _ = write!(out, "i{n}");
        }
        Value::Float(x) => {
            let _ = write!(out, "f{}", f32s(*x));
        }
        Value::Character(c) => {
            let _ = write!(out, "c{c:?}");
        }
        Value::String(s) => {
            let _ = write!(out, "s{}", esc(s.as_bytes()));
        }
        Value::Genotype(g) => {
            out.push_str("gt[");
            capped(out, g.iter(), lim, "vcf::variant::record::samples::series::value::Genotype::iter", |o, r| match r {
                Ok((allele, phasing)) => {
                    let _ = write!(o, "{allele:?}{phasing:?},");
                }
                Err(e) => {
                    o.push_str(&render_err(&e));
                    o.push(',');
                }
            });
            out.push(']');
        }
        Value::Array(a) => match a {
            Array::Integer(v) => render_sample_array(out, v.as_ref(), lim, |o, x| {
                let _ = write!(o, "{x}");
            }),
            Array::Float(v) => render_sample_array(out, v.as_ref(), lim, |o, x| o.push_str(&f32s(x))),
            Array::Character(v) => render_sample_array(out, v.as_ref(), lim, |o, x| {
                let _ = write!(o, "{x:?}");
            }),
            Array::String(v) => render_sample_array(out, v.as_ref(), lim, |o, x| o.push_str(&esc(x.as_bytes()))),
        },
    }
}

/// Renders every field of a variant record through `vcf::variant::Record` (lazy `vcf::Record`,
/// `bcf::Record`, and the owned `RecordBuf`).
pub fn render_variant_record(h: &vcf::Header, r: &dyn vcf::variant::Record, lim: &Limits) -> String {
    let mut out = String::new();
    res(&mut out, "chrom", r.reference_sequence_name(h), |o, v| o.push_str(&esc(v)));
    opt_res(&mut out, "pos", r.variant_start(), |o, v| {
        let _ = write!(o, "{v}");
    });
    {
        let ids = r.ids();
        let _ = write!(out, " ids#{}{}=[", ids.len(), if ids.is_empty() { "e" } else { "" });
        capped(&mut out, ids.iter(), lim, "vcf::variant::record::Ids::iter", |o, id| {
            o.push_str(&esc(id));
            o.push(',');
        });
        out.push(']');
    }
    {
        let rb = r.reference_bases();
        let _ = write!(out, " ref#{}{}=[", rb.len(), if rb.is_empty() { "e" } else { "" });
        capped(&mut out, rb.iter(), lim, "vcf::variant::record::ReferenceBases::iter", |o, b| match b {
            Ok(b) => o.push_str(&esc([b])),
            Err(e) => o.push_str(&render_err(&e)),
        });
        out.push(']');
    }
    {
        let ab = r.alternate_bases();
        let _ = write!(out, " alts#{}{}=[", ab.len(), if ab.is_empty() { "e" } else { "" });
        capped(&mut out, ab.iter(), lim, "vcf::variant::record::AlternateBases::iter", |o, a| {
            match a {
                Ok(a) => o.push_str(&esc(a)),
                Err(e) => o.push_str(&render_err(&e)),
            }
            o.push(',');
        });
        out.push(']');
    }
    opt_res(&mut out, "qual", r.quality_score(), |o, v| o.push_str(&f32s(v)));
    {
        let f = r.filters();
        let _ = write!(out, " filters#{}{}=[", f.len(), if f.is_empty() { "e" } else { "" });
        capped(&mut out, f.iter(h), lim, "vcf::variant::record::Filters::iter", |o, x| {
            match x {
                Ok(x) => o.push_str(&esc(x)),
                Err(e) => o.push_str(&render_err(&e)),
            }
            o.push(',');
        });
        out.push(']');
        res(&mut out, "is_pass", f.is_pass(h), |o, v| {
            let _ = write!(o, "{v}");
        });
    }
    {
        let info = r.info();
        let _ = write!(out, " info#{}{}=[", info.len(), if info.is_empty() { "e" } else { "" });
        let mut keys: Vec<String> = Vec::new();
        capped(&mut out, info.iter(h), lim, "vcf::variant::record::Info::iter", |o, x| {
            match x {
                Ok((k, v)) => {
                    o.push_str(&esc(k));
                    o.push('=');
                    match v {
                        Some(v) => render_info_value(o, &v, lim),
                        None => o.push('.'),
                    }
                    if keys.len() < 64 {
                        keys.push(k.to_string());
                    }
                }
                Err(e) => o.push_str(&render_err(&e)),
            }
            o.push(';');
        });
        out.push(']');
        out.push_str(" info_get=[");
        for k in &keys {
            match info.get(h, k) {
                None => out.push_str("none"),
                Some(Ok(Some(v))) => render_info_value(&mut out, &v, lim),
                Some(Ok(None)) => out.push('.'),
                Some(Err(e)) => out.push_str(&render_err(&e)),
            }
            out.push(';');
        }
        out.push(']');
    }
    match r.samples() {
        Err(e) => {
            let _ = write!(out, " samples={}", render_err(&e));
        }
        Ok(samples) => {
            let _ = write!(out, " samples#{}{}", samples.len(), if samples.is_empty() { "e" } else { "" });
            out.push_str(" columns=[");
            let mut cols: Vec<String> = Vec::new();
            capped(&mut out, samples.column_names(h), lim, "vcf::variant::record::Samples::column_names", |o, x| {
                match x {
                    Ok(x) => {
                        o.push_str(&esc(x));
                        if cols.len() < 64 {
                            cols.push(x.to_string());
                        }
                    }
                    Err(e) => o.push_str(&render_err(&e)),
                }
                o.push(',');
            });
            out.push(']');
            out.push_str(" series=[");
            capped(&mut out, samples.series(), lim, "vcf::variant::record::Samples::series", |o, s| {
                match s {
                    Err(e) => o.push_str(&render_err(&e)),
                    Ok(s) => {
                        match s.name(h) {
                            Ok(n) => o.push_str(&esc(n)),
                            Err(e) => o.push_str(&render_err(&e)),
                        }
                        o.push_str(":[");
                        let n = capped(o, s.iter(h), lim, "vcf::variant::record::samples::Series::iter", |o, v| {
                            match v {
                                Ok(Some(v)) => render_sample_value(o, &v, lim),
                                Ok(None) => o.push('.'),
                                Err(e) => o.push_str(&render_err(&e)),
                            }
                            o.push(',');
                        });
                        o.push(']');
                        // indexed access: first, last, one past the end
                        for i in [0, n.saturating_sub(1), n] {
                            match s.get(h, i) {
                                None => o.push_str("|none"),
                                Some(None) => o.push_str("|."),
                                Some(Some(Ok(v))) => {
                                    o.push('|');
                                    render_sample_value(o, &v, lim);
                                }
                                Some(Some(Err(e))) => {
                                    o.push('|');
                                    o.push_str(&render_err(&e));
                                }
                            }
                        }
                    }
                }
                o.push(';');
            });
            out.push(']');
            out.push_str(" select=[");
            for c in &cols {
                match samples.select(h, c) {
                    None => out.push_str("none"),
                    Some(Err(e)) => out.push_str(&render_err(&e)),
                    Some(Ok(s)) => {
                        capped(&mut out, s.iter(h), lim, "vcf::variant::record::samples::Series::iter", |o, v| {
                            match v {
                                Ok(Some(v)) => render_sample_value(o, &v, lim),
                                Ok(None) => o.push('.'),
                                Err(e) => o.push_str(&render_err(&e)),
                            }
                            o.push(',');
                        });
                    }
                }
                out.push(';');
            }
            out.push(']');
            out.push_str(" each=[");
            capped(&mut out, samples.iter(), lim, "vcf::variant::record::Samples::iter", |o, s| {
                let n = capped(o, s.iter(h), lim, "vcf::variant::record::samples::Sample::iter", |o, x| {
                    match x {
                        Ok((k, v)) => {
                            o.push_str(&esc(k));
                            o.push('=');
                            match v {
                                Some(v) => render_sample_value(o, &v, lim),
                                None => o.push('.'),
                            }
                        }
                        Err(e) => o.push_str(&render_err(&e)),
                    }
                    o.push(',');
                });
                for i in [0, n] {
                    match s.get_index(h, i) {
                        None => o.push_str("|none"),
                        Some(Ok(None)) => o.push_str("|."),
                        Some(Ok(Some(v))) => {
                            o.push('|');
                            render_sample_value(o, &v, lim);
                        }
                        Some(Err(e)) => {
                            o.push('|');
                            o.push_str(&render_err(&e));
                        }
                    }
                }
                for c in cols.iter().take(4) {
                    match s.get(h, c) {
                        None => o.push_str("|none"),
                        Some(Ok(None)) => o.push_str("|."),
                        Some(Ok(Some(v))) => {
                            o.push('|');
                            render_sample_value(o, &v, lim);
                        }
                        Some(Err(e)) => {
                            o.push('|');
                            o.push_str(&render_err(&e));
                        }
                    }
                }
                o.push(';');
            });
            out.push(']');
        }
    }
    res(&mut out, "vend", r.variant_end(h), |o, v| {
        let _ = write!(o, "{v}");
    });
    res(&mut out, "vspan", r.variant_span(h), |o, v| {
        let _ = write!(o, "{v}");
    });
    out
}

// ---------------------------------------------------------------------------------- features

pub fn render_feature_attributes(out: &mut String, a: &dyn gff::feature::record::Attributes, lim: &Limits) {
    use gff::feature::record::attributes::field::Value;
    let _ = write!(out, " attrs{}=[", if a.is_empty() { "e" } else { "" });
    let mut tags: Vec<Vec<u8>> = Vec::new();
    capped(out, a.iter(), lim, "gff::feature::record::Attributes::iter", |o, x| {
        match x {
            Ok((k, v)) => {
                o.push_str(&esc(k.as_ref()));
                o.push('=');
                if let Some(s) = v.as_string() {
                    let _ = write!(o, "s:{}", esc(s));
                }
                match &v {
                    Value::String(_) => {}
                    Value::Array(_) => o.push_str("a:"),
                }
                o.push('[');
                capped(o, v.iter(), lim, "gff::feature::record::attributes::field::Value::iter", |o, e| {
                    match e {
                        Ok(e) => o.push_str(&esc(e.as_ref())),
                        Err(e) => o.push_str(&render_err(&e)),
                    }
                    o.push(',');
                });
                o.push(']');
                if tags.len() < 64 {
                    tags.push(k.to_vec());
                }
            }
            Err(e) => o.push_str(&render_err(&e)),
        }
        o.push(';');
    });
    out.push(']');
    out.push_str(" attr_get=[");
    for t in &tags {
        match a.get(t) {
            None => out.push_str("none"),
            Some(Ok(v)) => {
                capped(out, v.iter(), lim, "gff::feature::record::attributes::field::Value::iter", |o, e| {
                    match e {
                        Ok(e) => o.push_str(&esc(e.as_ref())),
                        Err(e) => o.push_str(&render_err(&e)),
                    }
                    o.push(',');
                });
            }
            Some(Err(e)) => out.push_str(&render_err(&e)),
        }
        out.push(';');
    }
    out.push(']');
}

/// Renders a feature record through the `gff::feature::Record` view (GFF3 and GTF lazy records and the
/// owned `RecordBuf`).
pub fn render_feature_record(r: &dyn gff::feature::Record, lim: &Limits) -> String {
    let mut out = String::new();
    let _ = write!(out, "seqid={} source={} type={}", esc(r.reference_sequence_name()), esc(r.source()), esc(r.ty()));
    res(&mut out, "start", r.feature_start(), |o, v| {
        let _ = write!(o, "{v}");
    });
    res(&mut out, "end", r.feature_end(), |o, v| {
        let _ = write!(o, "{v}");
    });
    opt_res(&mut out, "score", r.score(), |o, v| o.push_str(&f32s(v)));
    res(&mut out, "strand", r.strand(), |o, v| {
        let _ = write!(o, "{v:?}");
    });
    opt_res(&mut out, "phase", r.phase(), |o, v| {
        let _ = write!(o, "{v:?}");
    });
    let a = r.attributes();
    render_feature_attributes(&mut out, a.as_ref(), lim);
    out
}

// ---------------------------------------------------------------------------------- indexes

pub fn render_vpos(v: noodles_bgzf::VirtualPosition) -> String {
    format!("{}:{}", v.compressed(), v.uncompressed())
}

/// Renders every reference / bin / chunk / interval / metadata / header field of a binning index.
pub fn render_binning_index<I>(idx: &csi::binning_index::Index<I>, lim: &Limits) -> Vec<String>
where
    I: csi::binning_index::index::reference_sequence::Index + Debug,
{
    let mut log = Vec::new();
    let mut s = format!("index: min_shift={} depth={} n_no_coor={:?} last_first={:?}", idx.min_shift(), idx.depth(), idx.unplaced_unmapped_record_count(), idx.last_first_record_start_position().map(render_vpos));
    match idx.header() {
        None => s.push_str(" header=."),
        Some(h) => {
            let _ = write!(
                s,
                " header=[format={:?} seq={} beg={} end={:?} meta={} skip={} names=[",
                h.format(),
                h.reference_sequence_name_index(),
                h.start_position_index(),
                h.end_position_index(),
                h.line_comment_prefix(),
                h.line_skip_count()
            );
            for n in h.reference_sequence_names() {
                s.push_str(&esc(n));
                s.push(',');
            }
            s.push_str("]]");
        }
    }
    log.push(s);
    for (i, r) in idx.reference_sequences().iter().enumerate() {
        let mut s = format!("ref[{i}]: bins=[");
        for (id, bin) in r.bins() {
            let _ = write!(s, "{id}:[");
            for c in bin.chunks() {
                let _ = write!(s, "{}-{},", render_vpos(c.start()), render_vpos(c.end()));
            }
            s.push_str("];");
        }
        let _ = write!(s, "] index={}", debug_of(r.index(), lim, "csi::binning_index::index::reference_sequence::Index"));
        match r.metadata() {
            None => s.push_str(" meta=."),
            Some(m) => {
                let _ = write!(s, " meta=[{}-{} mapped={} unmapped={}]", render_vpos(m.start_position()), render_vpos(m.end_position()), m.mapped_record_count(), m.unmapped_record_count());
            }
        }
        let _ = write!(s, " first_in_last_linear_bin={:?}", r.first_record_in_last_linear_bin_start_position().map(render_vpos));
        log.push(s);
    }
    // the trait view
    let dynidx: &dyn BinningIndex = idx;
    let n = dynidx.reference_sequences().count();
    log.push(format!("index-trait: refs={n}"));
    log
}
