use std::io::Read;
use vnd::corpus;
fn main() {
    let docs = corpus(false);
    let d = docs.iter().find(|d| d.name == "vcfgz-sites-f2").unwrap();
    let full = &d.inner.as_ref().unwrap().bytes;
    println!("member starts {:?}", d.inner.as_ref().unwrap().member_starts);
    for cut in [496usize, 709] {
        let mut r = noodles_bgzf::io::Reader::new(&d.bytes[..cut]);
        let mut buf = vec![0u8; 65536];
        let mut pos = 0;
        for i in 0..6 {
            let n = r.read(&mut buf).unwrap();
            let ok = pos + n <= full.len() && buf[..n] == full[pos..pos + n];
            println!("cut {cut} call {i}: n={n} matches payload at {pos}: {ok}");
            pos += n;
            if n == 0 { break; }
        }
    }
}
