use noodles_vcf::variant::record::Info as _;
fn unhex(hex: &str) -> Vec<u8> { (0..hex.len()/2).map(|i| u8::from_str_radix(&hex[2*i..2*i+2], 16).unwrap()).collect() }
fn main() {
    let b = unhex(&std::fs::read_to_string(std::env::args().nth(1).unwrap()).unwrap().trim().to_string());
    let mut r = noodles_bcf::io::Reader::new(&b[..]);
    let h = r.read_header().unwrap();
    let mut rec = noodles_bcf::Record::default();
    let mut i = 0;
    while let Ok(n) = r.read_record(&mut rec) {
        if n == 0 { break; }
        let t = std::time::Instant::now();
        let info = rec.info();
        let mut cnt = 0u64; let mut errs = 0u64;
        for x in info.iter(&h) { cnt += 1; if x.is_err() { errs += 1; } if cnt >= 50_000_000 { break; } }
        println!("record {i}: info.len()={} iter items={cnt} errs={errs} in {:?}", info.len(), t.elapsed());
        i += 1;
    }
}
