use vnd::{Api, Opts, corpus, read_log};
fn main() {
    let thorough = std::env::args().any(|a| a == "thorough");
    let verbose = std::env::args().any(|a| a == "-v");
    let only: Option<String> = std::env::args().skip(1).find(|a| a != "thorough" && a != "-v" && a != "extra");
    let t0 = std::time::Instant::now();
    let mut docs = corpus(thorough);
    if std::env::args().any(|a| a == "extra") { docs = vnd::extra(thorough); }
    eprintln!("corpus built in {:?}: {} docs", t0.elapsed(), docs.len());
    for d in &docs {
        if let Some(o) = &only { if !d.name.contains(o.as_str()) { continue; } }
        println!("{:14} {:40} {:7} bytes  {:4} boundaries {:4} fields  items {:3}  inner {:?}", d.format.name(), d.name, d.bytes.len(), d.boundaries.len(), d.fields.len(), d.item_ends.len(),
            d.inner.as_ref().map(|i| (i.bytes.len(), i.boundaries.len(), i.fields.len(), i.record_ends.len())));
        if std::env::var_os("RAW").is_some() { println!("{}", String::from_utf8_lossy(&d.bytes)); }
        for api in Api::all_for(d.format) {
            let log = read_log(d.format, &d.bytes[..], &Opts::for_doc(d).api(*api));
            println!("    {:?}: {} lines, last = {}", api, log.len(), log.last().unwrap());
            if verbose { for l in &log { println!("      {}", if l.len() > 400 { &l[..400] } else { l }); } }
        }
    }
}
