fn unhex(hex: &str) -> Vec<u8> { (0..hex.len()/2).map(|i| u8::from_str_radix(&hex[2*i..2*i+2], 16).unwrap()).collect() }
fn main() {
    let which = std::env::args().nth(1).unwrap_or_default();
    let t = std::time::Instant::now();
    if which == "tok" {
        let b = unhex(&std::env::args().nth(2).unwrap());
        let r = noodles_cram::verif::name_tokenizer_decode(&b);
        println!("{:?} in {:?}", r.map(|v| v.len()), t.elapsed());
    } else {
        let b = unhex(&std::env::args().nth(2).unwrap());
        let r = noodles_cram::verif::fqzcomp_decode(&b);
        println!("{:?} in {:?}", r.map(|v| v.len()), t.elapsed());
    }
}
