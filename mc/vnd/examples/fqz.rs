fn main() {
    let hex = "21050000002072957f0f01017dffff01840009ffff5bd9d8c579335a17a5b382f6dc3a041fc43076ecdd448f9ca2f888d05cd4b14dc84000";
    let b: Vec<u8> = (0..hex.len()/2).map(|i| u8::from_str_radix(&hex[2*i..2*i+2], 16).unwrap()).collect();
    let t = std::time::Instant::now();
    let r = noodles_cram::verif::fqzcomp_decode(&b);
    println!("{:?} in {:?}", r.map(|v| v.len()), t.elapsed());
}
