//! For every corpus (+extra) document with an async reader: the async log next to the sync eager log.
//! usage: adump [name-filter] [-v]
use vnd::{Api, Opts};
fn main() {
    let args: Vec<String> = std::env::args().skip(1).collect();
    let verbose = args.iter().any(|a| a == "-v");
    let filter = args.iter().find(|a| !a.starts_with('-')).cloned().unwrap_or_default();
    let mut docs = vnd::corpus(false);
    docs.extend(vnd::extra(false));
    for d in docs.iter().filter(|d| d.name.contains(&filter) && !d.raw) {
        let mut o = Opts::for_doc(d).api(Api::Eager);
        o.vpos = false;
        let Some(a) = vnd::adrive::read_log_async(d.format, &d.bytes, &o) else { continue };
        let s = vnd::read_log(d.format, &d.bytes[..], &o);
        let same = a == s;
        println!("{:14} {:40} async {:4} lines ({}), sync eager {:4} lines{}", d.format.name(), d.name, a.len(), a.last().map(|l| &l[..l.len().min(30)]).unwrap_or(""), s.len(), if same { "  identical" } else { "" });
        if verbose && !same {
            for (x, y) in a.iter().zip(s.iter()).filter(|(x, y)| x != y).take(2) {
                println!("   async: {}\n   sync:  {}", &x[..x.len().min(200)], &y[..y.len().min(200)]);
            }
        }
    }
}
