use vnd::{Api, Format, Opts, corpus, read_log};
fn main() {
    for d in corpus(false).iter().filter(|d| d.format == Format::Cram) {
        let mut oks = Vec::new();
        for k in 0..d.bytes.len() {
            let log = read_log(d.format, &d.bytes[..k], &Opts::for_doc(d).api(Api::Lazy));
            if vnd::is_end_eof(log.last().unwrap()) { oks.push((k, log.len())); }
        }
        println!("{} len {} containers end at {:?}: clean EOF at cuts {:?}", d.name, d.bytes.len(), d.item_ends, oks);
    }
}
