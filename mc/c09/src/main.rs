//! C09 — VCF headers and records round-trip through text; lazy and eager views agree.
//!
//! E1 (deviation-bounded record grammar, see `gvcf::gen_`) + one small E3 sweep of literal lines.
//! Oracles: the generated model value itself (inverse law), byte equality of a second write (text
//! fixed point), accessor-by-accessor comparison of the lazy `vcf::Record` with the eager
//! `RecordBuf`, and a span function written from the rule in the property statement.

use gvcf::{
    cmp::{FloatMode, diff_rec},
    gen_::{self, BASE_NAMES, BASE_SAMPLES, Env, FILE_FORMATS, IdxMode, N_BASES, Purpose},
    io::{self, Fail},
    model::{Expect, Hdr, Rec},
    span::{Span, spec_span},
};
use noodles_vcf as vcf;
use vmc::{Chooser, Config, Outcome, Violation};

/// Error text → class word for fingerprints: digits folded, generated key names folded.
fn err_class(e: &str) -> String {
    // header errors name the offending ID: fold it
    let e: String = e.split(": ").filter(|seg| !seg.starts_with("ID=")).collect::<Vec<_>>().join(": ");
    let e = e.as_str();
    let mut s = String::new();
    let b: Vec<char> = e.chars().collect();
    let mut i = 0;
    while i < b.len() {
        // generated keys: X/Y + type letter + number code
        if (b[i] == 'X' || b[i] == 'Y')
            && i + 2 < b.len()
            && "IFCS".contains(b[i + 1])
            && "12ARGU".contains(b[i + 2])
        {
            s.push_str("KEY");
            i += 3;
            continue;
        }
        s.push(b[i]);
        i += 1;
    }
    let mut s = vmc::normalise_msg(&s);
    s.truncate(100);
    s
}

fn fail_violation(stage: &str, f: &Fail, decoded: String, expected: &str) -> Violation {
    match f {
        Fail::Panic { .. } => Violation::new(format!("stage={stage} {}", f.panic_fp()), decoded, "no panic", f.text()),
        Fail::Err(e) => {
            Violation::new(format!("stage={stage} symptom=rejected err={}", err_class(e)), decoded, expected, f.text())
        }
    }
}

// ------------------------------------------------------------------------------------------------
// header round trip

fn header_body(ch: &Chooser, thorough: bool) -> Outcome {
    let ff = *ch.pick_free("fileformat", &FILE_FORMATS);
    let g = gen_::gen_header(ch, ff, thorough);
    let decoded = || format!("{:?}", g.hdr);
    ch.desc(|| format!("{:?} shapes={:?}", g.hdr, g.shapes));
    let header = match g.hdr.build() {
        Ok(h) => h,
        Err(e) => vmc::machinery(format!("header grammar produced an unbuildable header: {e}")),
    };
    // the builder must hand back what it was given (sanity of the harness's own conversion)
    if Hdr::from_header(&header) != g.hdr {
        vmc::machinery(format!("header model does not survive build(): {:?}", g.hdr));
    }
    let text = match io::vcf_write_header(&header) {
        Ok(t) => t,
        Err(f) => return Err(fail_violation("write-header", &f, decoded(), "Ok (the header is valid)")),
    };
    ch.obs(&text);
    let show_text = || String::from_utf8_lossy(&text).into_owned();
    let back = match io::vcf_read_header(&text) {
        Ok(h) => h,
        Err(f) => {
            return Err(fail_violation(
                "read-header",
                &f,
                format!("{} → text {:?}", decoded(), show_text()),
                "the writer's own output parses",
            ));
        }
    };
    let back_model = Hdr::from_header(&back);
    if let Some((section, detail)) = g.hdr.diff(&back_model) {
        return Err(Violation::new(
            format!("stage=read-header symptom=value-differs section={section}"),
            format!("{} → text {:?}", decoded(), show_text()),
            "parse(write(h)) == h",
            detail,
        ));
    }
    if back != header {
        return Err(Violation::new(
            "stage=read-header symptom=value-differs section=non-public-state",
            format!("{} → text {:?}", decoded(), show_text()),
            "parse(write(h)) == h (PartialEq)",
            "public accessors agree but `==` is false",
        ));
    }
    // text fixed point
    match io::vcf_write_header(&back) {
        Ok(t2) if t2 == text => {}
        Ok(t2) => {
            return Err(Violation::new(
                "stage=fixed-point-header symptom=text-differs",
                decoded(),
                show_text(),
                String::from_utf8_lossy(&t2).into_owned(),
            ));
        }
        Err(f) => return Err(fail_violation("fixed-point-header", &f, decoded(), "Ok")),
    }
    for (k, _) in &g.shapes {
        ch.tag(k);
    }
    ch.steps(3);
    Ok(())
}

// ------------------------------------------------------------------------------------------------
// record round trip

struct Envs {
    /// [ff][n_samples]
    by: Vec<Vec<Env>>,
}

impl Envs {
    fn new(thorough: bool) -> Self {
        let by = FILE_FORMATS
            .iter()
            .map(|&ff| (0..4).map(|n| Env::new(ff, n, IdxMode::Implicit, Purpose::Vcf, thorough)).collect())
            .collect();
        Self { by }
    }
}

fn span_pair<R: vcf::variant::Record>(h: &vcf::Header, r: &R) -> Result<(usize, usize), Fail> {
    io::guard(|| {
        let end = r.variant_end(h).map_err(|e| format!("variant_end: {e}"))?;
        let span = r.variant_span(h).map_err(|e| format!("variant_span: {e}"))?;
        Ok((end.get(), span))
    })
}

/// Everything that is checked once a line exists: eager parse, lazy parse, lazy ≡ eager, spans.
/// `expected` is the model the eager parse must equal (None for literal lines).
fn check_line(
    ch: Option<&Chooser>,
    header: &vcf::Header,
    ff: (u32, u32),
    line: &[u8],
    expected: Option<(&Rec, &Expect)>,
    shape_of: &dyn Fn(&str) -> &'static str,
    decoded: &dyn Fn() -> String,
) -> Result<Option<Rec>, Violation> {
    let dec = || format!("{} → line {:?}", decoded(), String::from_utf8_lossy(line));
    let exact = expected.map(|e| *e.1 == Expect::Exact).unwrap_or(true);
    let from_writer = expected.is_some();
    // the inverse law is demanded for valid inputs only; for the others the statement is silent
    // (Err at either stage or any non-panicking result is accepted) but everything downstream
    // (lazy ≡ eager, spans, fixed point) is still checked on the text that was produced
    let expected = expected.filter(|e| *e.1 == Expect::Exact);
    let tag = |t: &'static str| {
        if let Some(c) = ch {
            c.tag(t)
        }
    };
    let eager = match io::vcf_read_record_buf(header, line) {
        Ok(r) => r,
        Err(f) => {
            if f.is_panic() || exact {
                return Err(fail_violation("read-eager", &f, dec(), "the writer's own output parses"));
            }
            tag("invalid-input-rejected-at-read");
            return Ok(None);
        }
    };
    let eager_model = Rec::from_record_buf(&eager);
    if let Some((exp, _)) = expected {
        if let Some(d) = diff_rec(exp, &eager_model, FloatMode::NanEq) {
            return Err(Violation::new(
                format!("stage=read-eager {} shape={}", d.fp(), shape_of(&d.key)),
                dec(),
                "parse(write(r)) == r",
                d.detail,
            ));
        }
    }
    // the same accessors through the trait on the eager record (sanity: must agree with itself)
    match io::guard(|| Rec::from_variant(header, &eager)) {
        Ok(m) => {
            if let Some(d) = diff_rec(&eager_model, &m, FloatMode::Bits) {
                return Err(Violation::new(
                    format!("stage=eager-trait-view {} shape={}", d.fp(), shape_of(&d.key)),
                    dec(),
                    "RecordBuf's variant::Record view equals its fields",
                    d.detail,
                ));
            }
        }
        Err(f) => return Err(fail_violation("eager-trait-view", &f, dec(), "Ok")),
    }
    // lazy
    let lazy = match io::vcf_read_lazy(line) {
        Ok(r) => r,
        Err(f) => return Err(fail_violation("read-lazy", &f, dec(), "Ok (the eager reader accepts the line)")),
    };
    let lazy_model = match io::guard(|| Rec::from_variant(header, &lazy)) {
        Ok(m) => m,
        Err(f) => return Err(fail_violation("lazy-accessors", &f, dec(), "Ok (the eager reader accepts the line)")),
    };
    if let Some(d) = diff_rec(&eager_model, &lazy_model, FloatMode::Bits) {
        return Err(Violation::new(
            format!("stage=lazy-vs-eager {} shape={}", d.fp(), shape_of(&d.key)),
            dec(),
            "lazy accessors == eager fields",
            d.detail,
        ));
    }
    // spans
    let se = span_pair(header, &eager);
    let sl = span_pair(header, &lazy);
    for (who, s) in [("eager", &se), ("lazy", &sl)] {
        if let Err(f @ Fail::Panic { .. }) = s {
            return Err(Violation::new(
                format!("stage=span view={who} {}", f.panic_fp()),
                dec(),
                "Ok or Err",
                f.text(),
            ));
        }
    }
    let spec = spec_span(ff, &eager_model);
    match (&se, &sl) {
        (Ok(a), Ok(b)) => {
            if a != b {
                return Err(Violation::new(
                    "stage=span symptom=lazy-differs-from-eager",
                    dec(),
                    format!("eager (end, span) = {a:?}"),
                    format!("lazy {b:?}"),
                ));
            }
            match spec {
                Span::Ok { end, span } => {
                    if (end, span) != *a {
                        let which = if ff < (4, 5) { "pre-4.5" } else { "4.5" };
                        return Err(Violation::new(
                            format!("stage=span symptom=differs-from-rule rule={which}"),
                            dec(),
                            format!("(end, span) = ({end}, {span})"),
                            format!("{a:?}"),
                        ));
                    }
                    tag("span-checked-against-rule");
                    if span != eager_model.refb.len() {
                        tag("span-driven-by-END/SVLEN/LEN");
                    }
                }
                Span::Undefined(_) => tag("span-undefined-by-rule-but-Ok"),
            }
        }
        (Err(_), Err(_)) => {
            if let Span::Ok { end, span } = spec {
                return Err(Violation::new(
                    "stage=span symptom=err-where-rule-defines",
                    dec(),
                    format!("(end, span) = ({end}, {span})"),
                    format!("eager {} / lazy {}", se.as_ref().unwrap_err().text(), sl.as_ref().unwrap_err().text()),
                ));
            }
            tag("span-undefined-both-Err");
        }
        _ => {
            return Err(Violation::new(
                "stage=span symptom=one-view-errs",
                dec(),
                "both Ok or both Err",
                format!("eager {:?} lazy {:?}", se.as_ref().map_err(Fail::text), sl.as_ref().map_err(Fail::text)),
            ));
        }
    }
    // fixed point: a second write of what was read gives the same bytes, through both views
    for (who, out) in [("eager", io::vcf_write_record(header, &eager)), ("lazy", io::vcf_write_record(header, &lazy))] {
        match out {
            Ok(l2) => {
                if from_writer && l2 != line {
                    let what = if l2.windows(2).any(|w| w == b"\t\t") || l2.ends_with(b"\t\n") {
                        "empty-column"
                    } else {
                        "other"
                    };
                    return Err(Violation::new(
                        format!("stage=fixed-point view={who} symptom=text-differs what={what}"),
                        dec(),
                        String::from_utf8_lossy(line).into_owned(),
                        String::from_utf8_lossy(&l2).into_owned(),
                    ));
                }
                if !from_writer {
                    // literal line: the rewritten line must parse to the same value
                    match io::vcf_read_record_buf(header, &l2) {
                        Ok(r2) => {
                            if let Some(d) = diff_rec(&eager_model, &Rec::from_record_buf(&r2), FloatMode::NanEq) {
                                return Err(Violation::new(
                                    format!("stage=reparse view={who} {}", d.fp()),
                                    dec(),
                                    "parse(write(parse(line))) == parse(line)",
                                    format!("{} via {:?}", d.detail, String::from_utf8_lossy(&l2)),
                                ));
                            }
                        }
                        Err(f) => return Err(fail_violation("reparse", &f, dec(), "Ok")),
                    }
                }
            }
            Err(f) => return Err(fail_violation("rewrite", &f, dec(), "Ok")),
        }
    }
    Ok(Some(eager_model))
}

fn record_body(ch: &Chooser, envs: &Envs, bases: &[usize]) -> Outcome {
    let fi = ch.free("fileformat", FILE_FORMATS.len());
    let b = if bases.len() == 1 { bases[0] } else { *ch.pick_free("base", bases) };
    let env = &envs.by[fi][BASE_SAMPLES[b]];
    let g = gen_::gen_record(ch, env, b);
    let decoded = || {
        format!(
            "fileformat={}.{} header=gvcf::gen_::rich_header(ff,{} samples) base={} {}",
            env.ff.0, env.ff.1, BASE_SAMPLES[b], BASE_NAMES[b], g.rec.show()
        )
    };
    ch.desc(|| format!("{} [{}]", decoded(), g.shapes_str()));
    let rb = g.rec.to_record_buf();
    // harness sanity: the builder hands back the model
    if Rec::from_record_buf(&rb) != g.rec {
        vmc::machinery(format!("record model does not survive to_record_buf(): {}", g.rec.show()));
    }
    let line = match io::vcf_write_record(&env.header, &rb) {
        Ok(l) => l,
        Err(f) => {
            if f.is_panic() || g.expect == Expect::Exact {
                return Err(fail_violation("write", &f, decoded(), "Ok (the record is valid)"));
            }
            ch.tag("invalid-input-rejected-at-write");
            ch.obs(b"rejected");
            return Ok(());
        }
    };
    ch.obs(&line);
    let shape_of = |k: &str| g.shape_of(k);
    let r = match check_line(Some(ch), &env.header, env.ff, &line, Some((&g.rec, &g.expect)), &shape_of, &decoded) {
        Ok(r) => r,
        Err(v) => {
            // An input that is not a valid VCF record (empty array, empty string, END before POS, a
            // genotype without alleles …) is outside the statement: whatever text it produced may be
            // read differently by the two views. Only a panic is judged there.
            if g.expect != Expect::Exact && !v.fingerprint.contains("outcome=panic") {
                ch.tag("invalid-input-divergence-not-judged");
                return Ok(());
            }
            return Err(v);
        }
    };
    if r.is_some() {
        ch.tag("round-trip-exact");
        if g.expect != Expect::Exact {
            ch.tag("invalid-input-round-tripped");
        }
    }
    for (k, s) in &g.shapes {
        let _ = k;
        ch.tag(s);
    }
    ch.steps(6);
    Ok(())
}

// ------------------------------------------------------------------------------------------------
// literal lines (text not produced by the writer)

fn literal_lines() -> Vec<(String, (u32, u32))> {
    let mut out = Vec::new();
    let floats = ["1e-3", "1E10", "0.001", "+5", "-0", ".5", "1e+2", "inf", "-Inf", "NaN", "INFINITY", "3.4028235e38", "1e-45", "29"];
    let gts_any = ["0/1", "0|1", ".", "./.", "0", "1|2|3", "0/1|2", ".|.", "0/.", "2/1/0/3"];
    let gts_44 = ["|0", "/1", "|0/1", "/0|1", "|.|.", "/."];
    let infos = [
        "XS1=%2E", "XS1=a%3Bb", "XSU=a%2Cb,c", "XSU=.,a", "XSU=.", "XC1=a", "XCU=a,.,b", "XI1=.", "XIU=.,.", "XIU=1,.,3",
        "XF", "XF;XI1=3", "XFU=1e-3,.,NaN", "XS1=a%25b", "XS1=%zz", "XS1=caf%C3%A9", "XI1=-2147483640", "XI1=2147483647", "XC1=%3B", "XCU=%2C,a",
    ];
    for ff in FILE_FORMATS {
        for f in floats {
            out.push((format!("sq0\t5\t.\tA\tC\t{f}\t.\t.\tGT\t0/1\t1|1\n"), ff));
            out.push((format!("sq0\t5\t.\tA\tC\t.\t.\tXF1={f};XFU={f},{f}\tGT:YF1:YFU\t0/1:{f}:{f},.\t1|1:.:.\n"), ff));
        }
        for g in gts_any {
            out.push((format!("sq0\t5\t.\tA\tC,G,T\t.\tPASS\t.\tGT:YI1\t{g}:1\t0/0\n"), ff));
        }
        if ff >= (4, 4) {
            for g in gts_44 {
                out.push((format!("sq0\t5\t.\tA\tC,G,T\t.\tPASS\t.\tGT:YI1\t{g}:1\t0/0\n"), ff));
            }
        }
        for i in infos {
            out.push((format!("sq0\t5\trs1;rs2\tAC\tA\t10\tq10;s50\t{i}\tGT\t0/1\t.\n"), ff));
        }
        // FORMAT strings, trailing fields dropped, sample '.'
        out.push(("sq0\t5\t.\tA\t<DEL>\t.\t.\tEND=50;SVLEN=.\tGT:YS1:YSU:YC1\t0/1:a%3Ab:x%2Cy,.:%3A\t.\n".into(), ff));
        out.push(("sq0\t5\t.\tA\tC\t.\t.\t.\tGT:YI1:YIU\t0/1\t0/1:.:1,2\n".into(), ff));
        out.push(("sq1\t0\t.\tN\t.\t.\t.\t.\tYI1\t.\t3\n".into(), ff));
    }
    out
}

fn main() {
    vmc::run("C09", "model_checking", |ctx| {
        let thorough = ctx.thorough();
        ctx.rule(
            "headers: every header within k line/field deviations of the empty header, per fileformat; \
             records: every record within k field deviations (Hamming distance on the choice vector) of 4 base \
             records, per fileformat 4.2–4.5, over a header declaring every valid INFO/FORMAT Number×Type; \
             distinct = distinct written texts",
        );
        ctx.assume("std float formatting/parsing (f32 Display / FromStr) is correct");
        ctx.assume("span oracle pins the rule stated in the property (max of REF/SVLEN/LEN from 4.5), not VCF 4.5 §3's POS+SVLEN convention");

        // (1) headers
        let hk = ctx.by_tier(2, 3);
        ctx.harness(Config::new(format!("header_rt_k{hk}"), hk), |ch| header_body(ch, thorough));

        // (2) records
        let envs = Envs::new(thorough);
        if ctx.quick() {
            let all: Vec<usize> = (0..N_BASES).collect();
            ctx.harness(Config::new("record_rt_k1", 1), |ch| record_body(ch, &envs, &all));
            ctx.harness(Config::new("record_rt_k2_snv", 2), |ch| record_body(ch, &envs, &[1]));
        } else {
            let all: Vec<usize> = (0..N_BASES).collect();
            ctx.harness(Config::new("record_rt_k2", 2), |ch| record_body(ch, &envs, &all));
            ctx.harness(Config::new("record_rt_k3_minimal", 3), |ch| record_body(ch, &envs, &[0]));
        }

        // (3) literal lines
        let lines = literal_lines();
        let headers: Vec<vcf::Header> =
            FILE_FORMATS.iter().map(|&ff| gen_::rich_header(ff, 2, IdxMode::Implicit).build().unwrap()).collect();
        let n = lines.len() as u64;
        let seen = std::sync::Mutex::new(std::collections::HashSet::new());
        ctx.sweep(
            "literal_lines",
            n,
            |i| format!("fileformat={:?} line={:?}", lines[i as usize].1, lines[i as usize].0),
            |i| {
                let (line, ff) = &lines[i as usize];
                let fi = FILE_FORMATS.iter().position(|f| f == ff).unwrap();
                let dec = || format!("fileformat={}.{} (gvcf::gen_::rich_header, 2 samples)", ff.0, ff.1);
                let shape_of = |_: &str| "literal";
                let r = check_line(None, &headers[fi], *ff, line.as_bytes(), None, &shape_of, &dec)?;
                if let Some(m) = r {
                    seen.lock().unwrap().insert(m);
                }
                Ok(())
            },
        );
        let d = seen.lock().unwrap().len() as u64;
        ctx.add_distinct(d, d);

        // (4) multi-record files read through every API, in particular the ones that REUSE one
        // RecordBuf / Record: consecutive records differ in the presence (and length) of every optional
        // field in both directions; each record is compared with its own expectation
        ctx.rule(
            "multi-record files: all ordered pairs + triples (full/X/full, empty/X/empty, X/empty/X, X/full/X) of a \
             record set (everything present, everything missing, each optional field / INFO key / FORMAT key removed, \
             shorter and missing values, ploidy 1-4) x fileformat x 5 read APIs (reused RecordBuf loop, record_bufs(), \
             fresh buffer, reused lazy Record, records())",
        );
        let sets: Vec<Vec<(String, Rec)>> = FILE_FORMATS.iter().map(|&ff| gvcf::multi::record_set(ff)).collect();
        for set in &sets {
            for (name, r) in set {
                if Rec::from_record_buf(&r.to_record_buf()) != *r {
                    vmc::machinery(format!("multi-record set: {name} does not survive to_record_buf()"));
                }
            }
        }
        let seqs = gvcf::multi::sequences(sets[0].len());
        let n_seq = seqs.len() as u64;
        let files = std::sync::Mutex::new(std::collections::HashSet::new());
        let describe = |i: u64| {
            let fi = (i / n_seq) as usize;
            let seq = &seqs[(i % n_seq) as usize];
            let names: Vec<&str> = seq.iter().map(|&k| sets[fi][k].0.as_str()).collect();
            format!(
                "fileformat={}.{} header=gvcf::gen_::rich_header(ff,2 samples) records=gvcf::multi::record_set(ff)[{names:?}] i.e. {}",
                FILE_FORMATS[fi].0,
                FILE_FORMATS[fi].1,
                seq.iter().map(|&k| sets[fi][k].1.show()).collect::<Vec<_>>().join(" ; ")
            )
        };
        ctx.sweep("multi_record_reuse", n_seq * FILE_FORMATS.len() as u64, describe, |i| {
            let fi = (i / n_seq) as usize;
            let seq = &seqs[(i % n_seq) as usize];
            let header = &headers[fi];
            let exp: Vec<&Rec> = seq.iter().map(|&k| &sets[fi][k].1).collect();
            let rbs: Vec<_> = exp.iter().map(|r| r.to_record_buf()).collect();
            let bytes = match io::vcf_write_file(header, &rbs) {
                Ok(b) => b,
                Err(f) => return Err(fail_violation("multi-write", &f, String::new(), "Ok (every record is valid)")),
            };
            {
                use std::hash::{Hash, Hasher};
                let mut h = std::collections::hash_map::DefaultHasher::new();
                bytes.hash(&mut h);
                files.lock().unwrap().insert(h.finish());
            }
            let text = || {
                let t = String::from_utf8_lossy(&bytes);
                t.lines().filter(|l| !l.starts_with("##")).collect::<Vec<_>>().join("\n")
            };
            for (api, api_name) in io::READ_APIS.iter().enumerate() {
                let got = match io::vcf_read_file(&bytes, api, exp.len()) {
                    Ok(g) => g,
                    Err(f) => {
                        let mut v = fail_violation("multi-read", &f, String::new(), "every record reads back");
                        v.fingerprint = format!("{} api={api_name}", v.fingerprint);
                        v.observed = format!("{} ; file records: {}", v.observed, text());
                        return Err(v);
                    }
                };
                if got.len() != exp.len() {
                    return Err(Violation::new(
                        format!("stage=multi-read api={api_name} symptom=record-count"),
                        String::new(),
                        format!("{} records", exp.len()),
                        format!("{}", got.len()),
                    ));
                }
                for (k, (e, g)) in exp.iter().zip(&got).enumerate() {
                    if let Some(d) = diff_rec(e, g, FloatMode::NanEq) {
                        let position = if k == 0 { "first" } else { "after-another-record" };
                        return Err(Violation::new(
                            format!("stage=multi-read api={api_name} position={position} {}", d.fp()),
                            String::new(),
                            format!("record {k} of the file == the record written at position {k}"),
                            format!("{} ; file records: {}", d.detail, text()),
                        ));
                    }
                }
            }
            Ok(())
        });
        let d = files.lock().unwrap().len() as u64;
        ctx.add_distinct(d, d);
    });
}
