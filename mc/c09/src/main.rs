fn main() {
    println!("MACHINERY-ERROR property=C09 check not built yet");
    std::process::exit(2);
}
