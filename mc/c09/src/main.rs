//! C09 — VCF headers and records round-trip through text; lazy and eager views agree.
//!
//! E1 (deviation-bounded record grammar, see `gvcf::gen_`) + one small E3 sweep of literal lines.
//! Oracles: the generated model value itself (inverse law), byte equality of a second write (text
//! fixed point), accessor-by-accessor comparison of the lazy `vcf::Record` with the eager
//! `RecordBuf`, and a span function written from the rule in the property statement.

mod hdr_reader;

use gvcf::{
    cmp::{FloatMode, diff_rec},
    gen_::{self, BASE_NAMES, BASE_SAMPLES, Env, FILE_FORMATS, IdxMode, N_BASES, Purpose},
    io::{self, Fail},
    model::{Expect, Hdr, Rec},
    span::{Span, spec_span},
};
use noodles_vcf as vcf;
use vmc::{Chooser, Config, Outcome, Violation};

/// Error text → class word for fingerprints: digits folded, generated key names folded.
fn err_class(e: &str) -> String {
    // accessor-consistency messages of Rec::from_variant carry keys and values: class words instead
    for (pat, class) in [
        ("although the record has no such key", "keyed-get-finds-absent-key"),
        ("for that key", "keyed-get-differs-from-iter"),
        ("although there is no such column", "select-finds-absent-column"),
        ("but the sample row has", "select-or-series-differs-from-rows"),
        ("iter yields", "accessor-differs-from-iter-or-count"),
        ("returns the series named", "select-returns-another-series"),
    ] {
        if e.contains(pat) {
            return class.to_string();
        }
    }
    // header errors name the offending ID: fold it
    let e: String = e.split(": ").filter(|seg| !seg.starts_with("ID=")).collect::<Vec<_>>().join(": ");
    let e = e.as_str();
    let mut s = String::new();
    let b: Vec<char> = e.chars().collect();
    let mut i = 0;
    while i < b.len() {
        // generated keys: X/Y + type letter + number code
        if (b[i] == 'X' || b[i] == 'Y')
            && i + 2 < b.len()
            && "IFCS".contains(b[i + 1])
            && "12ARGU".contains(b[i + 2])
        {
            s.push_str("KEY");
            i += 3;
            continue;
        }
        s.push(b[i]);
        i += 1;
    }
    let mut s = vmc::normalise_msg(&s);
    s.truncate(100);
    s
}

fn fail_violation(stage: &str, f: &Fail, decoded: String, expected: &str) -> Violation {
    match f {
        Fail::Panic { .. } => Violation::new(format!("stage={stage} {}", f.panic_fp()), decoded, "no panic", f.text()),
        Fail::Err(e) => {
            Violation::new(format!("stage={stage} symptom=rejected err={}", err_class(e)), decoded, expected, f.text())
        }
    }
}

// ------------------------------------------------------------------------------------------------
// header round trip

fn header_body(ch: &Chooser, thorough: bool) -> Outcome {
    let ff = *ch.pick_free("fileformat", &FILE_FORMATS);
    let g = gen_::gen_header(ch, ff, thorough);
    let decoded = || format!("{:?}", g.hdr);
    ch.desc(|| format!("{:?} shapes={:?}", g.hdr, g.shapes));
    let header = match g.hdr.build() {
        Ok(h) => h,
        Err(e) => vmc::machinery(format!("header grammar produced an unbuildable header: {e}")),
    };
    // the builder must hand back what it was given (sanity of the harness's own conversion)
    if Hdr::from_header(&header) != g.hdr {
        vmc::machinery(format!("header model does not survive build(): {:?}", g.hdr));
    }
    let text = match io::vcf_write_header(&header) {
        Ok(t) => t,
        Err(f) => return Err(fail_violation("write-header", &f, decoded(), "Ok (the header is valid)")),
    };
    ch.obs(&text);
    let show_text = || String::from_utf8_lossy(&text).into_owned();
    let back = match io::vcf_read_header(&text) {
        Ok(h) => h,
        Err(f) => {
            return Err(fail_violation(
                "read-header",
                &f,
                format!("{} → text {:?}", decoded(), show_text()),
                "the writer's own output parses",
            ));
        }
    };
    let back_model = Hdr::from_header(&back);
    if let Some((section, detail)) = g.hdr.diff(&back_model) {
        return Err(Violation::new(
            format!("stage=read-header symptom=value-differs section={section}"),
            format!("{} → text {:?}", decoded(), show_text()),
            "parse(write(h)) == h",
            detail,
        ));
    }
    if back != header {
        return Err(Violation::new(
            "stage=read-header symptom=value-differs section=non-public-state",
            format!("{} → text {:?}", decoded(), show_text()),
            "parse(write(h)) == h (PartialEq)",
            "public accessors agree but `==` is false",
        ));
    }
    // text fixed point
    match io::vcf_write_header(&back) {
        Ok(t2) if t2 == text => {}
        Ok(t2) => {
            return Err(Violation::new(
                "stage=fixed-point-header symptom=text-differs",
                decoded(),
                show_text(),
                String::from_utf8_lossy(&t2).into_owned(),
            ));
        }
        Err(f) => return Err(fail_violation("fixed-point-header", &f, decoded(), "Ok")),
    }
    for (k, _) in &g.shapes {
        ch.tag(k);
    }
    ch.steps(3);
    Ok(())
}

// ------------------------------------------------------------------------------------------------
// record round trip

struct Envs {
    /// [ff][n_samples]
    by: Vec<Vec<Env>>,
}

impl Envs {
    fn new(thorough: bool) -> Self {
        let by = FILE_FORMATS
            .iter()
            .map(|&ff| (0..4).map(|n| Env::new(ff, n, IdxMode::Implicit, Purpose::Vcf, thorough)).collect())
            .collect();
        Self { by }
    }
}

fn span_pair<R: vcf::variant::Record>(h: &vcf::Header, r: &R) -> Result<(usize, usize), Fail> {
    io::guard(|| {
        let end = r.variant_end(h).map_err(|e| format!("variant_end: {e}"))?;
        let span = r.variant_span(h).map_err(|e| format!("variant_span: {e}"))?;
        Ok((end.get(), span))
    })
}

/// Everything that is checked once a line exists: eager parse, lazy parse, lazy ≡ eager, spans.
/// `expected` is the model the eager parse must equal (None for literal lines).
fn check_line(
    ch: Option<&Chooser>,
    header: &vcf::Header,
    ff: (u32, u32),
    line: &[u8],
    expected: Option<(&Rec, &Expect)>,
    shape_of: &dyn Fn(&str) -> &'static str,
    decoded: &dyn Fn() -> String,
) -> Result<Option<Rec>, Violation> {
    let dec = || format!("{} → line {:?}", decoded(), String::from_utf8_lossy(line));
    let exact = expected.map(|e| *e.1 == Expect::Exact).unwrap_or(true);
    let from_writer = expected.is_some();
    // the inverse law is demanded for valid inputs only; for the others the statement is silent
    // (Err at either stage or any non-panicking result is accepted) but everything downstream
    // (lazy ≡ eager, spans, fixed point) is still checked on the text that was produced
    let expected = expected.filter(|e| *e.1 == Expect::Exact);
    let tag = |t: &'static str| {
        if let Some(c) = ch {
            c.tag(t)
        }
    };
    let eager = match io::vcf_read_record_buf(header, line) {
        Ok(r) => r,
        Err(f) => {
            if f.is_panic() || exact {
                return Err(fail_violation("read-eager", &f, dec(), "the writer's own output parses"));
            }
            tag("invalid-input-rejected-at-read");
            return Ok(None);
        }
    };
    let eager_model = Rec::from_record_buf(&eager);
    if let Some((exp, _)) = expected {
        if let Some(d) = diff_rec(exp, &eager_model, FloatMode::NanEq) {
            return Err(Violation::new(
                format!("stage=read-eager {} shape={}", d.fp(), shape_of(&d.key)),
                dec(),
                "parse(write(r)) == r",
                d.detail,
            ));
        }
    }
    // the same accessors through the trait on the eager record (sanity: must agree with itself)
    match io::guard(|| Rec::from_variant(header, &eager)) {
        Ok(m) => {
            if let Some(d) = diff_rec(&eager_model, &m, FloatMode::Bits) {
                return Err(Violation::new(
                    format!("stage=eager-trait-view {} shape={}", d.fp(), shape_of(&d.key)),
                    dec(),
                    "RecordBuf's variant::Record view equals its fields",
                    d.detail,
                ));
            }
        }
        Err(f) => return Err(fail_violation("eager-trait-view", &f, dec(), "Ok")),
    }
    // lazy
    let lazy = match io::vcf_read_lazy(line) {
        Ok(r) => r,
        Err(f) => return Err(fail_violation("read-lazy", &f, dec(), "Ok (the eager reader accepts the line)")),
    };
    let lazy_model = match io::guard(|| Rec::from_variant(header, &lazy)) {
        Ok(m) => m,
        Err(f) => return Err(fail_violation("lazy-accessors", &f, dec(), "Ok (the eager reader accepts the line)")),
    };
    if let Some(d) = diff_rec(&eager_model, &lazy_model, FloatMode::Bits) {
        return Err(Violation::new(
            format!("stage=lazy-vs-eager {} shape={}", d.fp(), shape_of(&d.key)),
            dec(),
            "lazy accessors == eager fields",
            d.detail,
        ));
    }
    // spans
    let se = span_pair(header, &eager);
    let sl = span_pair(header, &lazy);
    for (who, s) in [("eager", &se), ("lazy", &sl)] {
        if let Err(f @ Fail::Panic { .. }) = s {
            return Err(Violation::new(
                format!("stage=span view={who} {}", f.panic_fp()),
                dec(),
                "Ok or Err",
                f.text(),
            ));
        }
    }
    let spec = spec_span(ff, &eager_model);
    match (&se, &sl) {
        (Ok(a), Ok(b)) => {
            if a != b {
                return Err(Violation::new(
                    "stage=span symptom=lazy-differs-from-eager",
                    dec(),
                    format!("eager (end, span) = {a:?}"),
                    format!("lazy {b:?}"),
                ));
            }
            match spec {
                Span::Ok { end, span } => {
                    if (end, span) != *a {
                        let which = if ff < (4, 5) { "pre-4.5" } else { "4.5" };
                        return Err(Violation::new(
                            format!("stage=span symptom=differs-from-rule rule={which}"),
                            dec(),
                            format!("(end, span) = ({end}, {span})"),
                            format!("{a:?}"),
                        ));
                    }
                    tag("span-checked-against-rule");
                    if span != eager_model.refb.len() {
                        tag("span-driven-by-END/SVLEN/LEN");
                    }
                }
                Span::Undefined(_) => tag("span-undefined-by-rule-but-Ok"),
            }
        }
        (Err(_), Err(_)) => {
            if let Span::Ok { end, span } = spec {
                return Err(Violation::new(
                    "stage=span symptom=err-where-rule-defines",
                    dec(),
                    format!("(end, span) = ({end}, {span})"),
                    format!("eager {} / lazy {}", se.as_ref().unwrap_err().text(), sl.as_ref().unwrap_err().text()),
                ));
            }
            tag("span-undefined-both-Err");
        }
        _ => {
            return Err(Violation::new(
                "stage=span symptom=one-view-errs",
                dec(),
                "both Ok or both Err",
                format!("eager {:?} lazy {:?}", se.as_ref().map_err(Fail::text), sl.as_ref().map_err(Fail::text)),
            ));
        }
    }
    // fixed point: a second write of what was read gives the same bytes, through both views
    for (who, out) in [("eager", io::vcf_write_record(header, &eager)), ("lazy", io::vcf_write_record(header, &lazy))] {
        match out {
            Ok(l2) => {
                if from_writer && l2 != line {
                    let what = if l2.windows(2).any(|w| w == b"\t\t") || l2.ends_with(b"\t\n") {
                        "empty-column"
                    } else {
                        "other"
                    };
                    return Err(Violation::new(
                        format!("stage=fixed-point view={who} symptom=text-differs what={what}"),
                        dec(),
                        String::from_utf8_lossy(line).into_owned(),
                        String::from_utf8_lossy(&l2).into_owned(),
                    ));
                }
                if !from_writer {
                    // literal line: the rewritten line must parse to the same value
                    match io::vcf_read_record_buf(header, &l2) {
                        Ok(r2) => {
                            if let Some(d) = diff_rec(&eager_model, &Rec::from_record_buf(&r2), FloatMode::NanEq) {
                                return Err(Violation::new(
                                    format!("stage=reparse view={who} {}", d.fp()),
                                    dec(),
                                    "parse(write(parse(line))) == parse(line)",
                                    format!("{} via {:?}", d.detail, String::from_utf8_lossy(&l2)),
                                ));
                            }
                        }
                        Err(f) => return Err(fail_violation("reparse", &f, dec(), "Ok")),
                    }
                }
            }
            Err(f) => return Err(fail_violation("rewrite", &f, dec(), "Ok")),
        }
    }
    Ok(Some(eager_model))
}

fn record_body(ch: &Chooser, envs: &Envs, bases: &[usize]) -> Outcome {
    let fi = ch.free("fileformat", FILE_FORMATS.len());
    let b = if bases.len() == 1 { bases[0] } else { *ch.pick_free("base", bases) };
    let env = &envs.by[fi][BASE_SAMPLES[b]];
    let g = gen_::gen_record(ch, env, b);
    let decoded = || {
        format!(
            "fileformat={}.{} header=gvcf::gen_::rich_header(ff,{} samples) base={} {}",
            env.ff.0, env.ff.1, BASE_SAMPLES[b], BASE_NAMES[b], g.rec.show()
        )
    };
    ch.desc(|| format!("{} [{}]", decoded(), g.shapes_str()));
    let rb = g.rec.to_record_buf();
    // harness sanity: the builder hands back the model
    if Rec::from_record_buf(&rb) != g.rec {
        vmc::machinery(format!("record model does not survive to_record_buf(): {}", g.rec.show()));
    }
    let line = match io::vcf_write_record(&env.header, &rb) {
        Ok(l) => l,
        Err(f) => {
            if f.is_panic() || g.expect == Expect::Exact {
                return Err(fail_violation("write", &f, decoded(), "Ok (the record is valid)"));
            }
            ch.tag("invalid-input-rejected-at-write");
            ch.obs(b"rejected");
            return Ok(());
        }
    };
    ch.obs(&line);
    let shape_of = |k: &str| g.shape_of(k);
    let r = match check_line(Some(ch), &env.header, env.ff, &line, Some((&g.rec, &g.expect)), &shape_of, &decoded) {
        Ok(r) => r,
        Err(v) => {
            // An input that is not a valid VCF record (empty array, empty string, END before POS, a
            // genotype without alleles …) is outside the statement: whatever text it produced may be
            // read differently by the two views. Only a panic is judged there.
            if g.expect != Expect::Exact && !v.fingerprint.contains("outcome=panic") {
                ch.tag("invalid-input-divergence-not-judged");
                return Ok(());
            }
            return Err(v);
        }
    };
    if r.is_some() {
        ch.tag("round-trip-exact");
        if g.expect != Expect::Exact {
            ch.tag("invalid-input-round-tripped");
        }
    }
    for (k, s) in &g.shapes {
        let _ = k;
        ch.tag(s);
    }
    ch.steps(6);
    Ok(())
}

// ------------------------------------------------------------------------------------------------
// literal lines (text not produced by the writer)

fn literal_lines() -> Vec<(String, (u32, u32))> {
    let mut out = Vec::new();
    let floats = ["1e-3", "1E10", "0.001", "+5", "-0", ".5", "1e+2", "inf", "-Inf", "NaN", "INFINITY", "3.4028235e38", "1e-45", "29"];
    let gts_any = ["0/1", "0|1", ".", "./.", "0", "1|2|3", "0/1|2", ".|.", "0/.", "2/1/0/3"];
    let gts_44 = ["|0", "/1", "|0/1", "/0|1", "|.|.", "/."];
    let infos = [
        "XS1=%2E", "XS1=a%3Bb", "XSU=a%2Cb,c", "XSU=.,a", "XSU=.", "XC1=a", "XCU=a,.,b", "XI1=.", "XIU=.,.", "XIU=1,.,3",
        "XF", "XF;XI1=3", "XFU=1e-3,.,NaN", "XS1=a%25b", "XS1=%zz", "XS1=caf%C3%A9", "XI1=-2147483640", "XI1=2147483647", "XC1=%3B", "XCU=%2C,a",
    ];
    for ff in FILE_FORMATS {
        for f in floats {
            out.push((format!("sq0\t5\t.\tA\tC\t{f}\t.\t.\tGT\t0/1\t1|1\n"), ff));
            out.push((format!("sq0\t5\t.\tA\tC\t.\t.\tXF1={f};XFU={f},{f}\tGT:YF1:YFU\t0/1:{f}:{f},.\t1|1:.:.\n"), ff));
        }
        for g in gts_any {
            out.push((format!("sq0\t5\t.\tA\tC,G,T\t.\tPASS\t.\tGT:YI1\t{g}:1\t0/0\n"), ff));
        }
        if ff >= (4, 4) {
            for g in gts_44 {
                out.push((format!("sq0\t5\t.\tA\tC,G,T\t.\tPASS\t.\tGT:YI1\t{g}:1\t0/0\n"), ff));
            }
        }
        for i in infos {
            out.push((format!("sq0\t5\trs1;rs2\tAC\tA\t10\tq10;s50\t{i}\tGT\t0/1\t.\n"), ff));
        }
        // FORMAT strings, trailing fields dropped, sample '.'
        out.push(("sq0\t5\t.\tA\t<DEL>\t.\t.\tEND=50;SVLEN=.\tGT:YS1:YSU:YC1\t0/1:a%3Ab:x%2Cy,.:%3A\t.\n".into(), ff));
        out.push(("sq0\t5\t.\tA\tC\t.\t.\t.\tGT:YI1:YIU\t0/1\t0/1:.:1,2\n".into(), ff));
        out.push(("sq1\t0\t.\tN\t.\t.\t.\t.\tYI1\t.\t3\n".into(), ff));
        // trailing FORMAT fields dropped: every prefix length per sample, mixed across samples
        let keys = ["GT", "YI1", "LEN", "YSU"];
        let vals = [["0/1", "5", "50", "a,b"], ["1|1", "7", "9", "c"]];
        for n0 in 1..=4usize {
            for n1 in 1..=4usize {
                out.push((format!("sq0\t5\t.\tA\t<*>\t.\t.\t.\t{}\t{}\t{}\n", keys.join(":"), vals[0][..n0].join(":"), vals[1][..n1].join(":")), ff));
                out.push((format!("sq0\t5\t.\tACGT\t.\t.\t.\t.\t{}\t{}\t{}\n", keys[1..].join(":"), vals[0][1..].iter().take(n0.min(3)).cloned().collect::<Vec<_>>().join(":"), vals[1][1..].iter().take(n1.min(3)).cloned().collect::<Vec<_>>().join(":")), ff));
            }
        }
    }
    out
}

fn main() {
    vmc::run("C09", "model_checking", |ctx| {
        let thorough = ctx.thorough();
        ctx.rule(
            "headers: every header within k line/field deviations of the empty header, per fileformat; \
             records: every record within k field deviations (Hamming distance on the choice vector) of 4 base \
             records, per fileformat 4.2–4.5, over a header declaring every valid INFO/FORMAT Number×Type; \
             distinct = distinct written texts",
        );
        ctx.assume("std float formatting/parsing (f32 Display / FromStr) is correct");
        ctx.assume("span oracle pins the rule stated in the property (max of REF/SVLEN/LEN from 4.5), not VCF 4.5 §3's POS+SVLEN convention");

        // (1) headers
        let hk = ctx.by_tier(2, 3);
        ctx.harness(Config::new(format!("header_rt_k{hk}"), hk), |ch| header_body(ch, thorough));

        // (2) records
        let envs = Envs::new(thorough);
        if ctx.quick() {
            let all: Vec<usize> = (0..N_BASES).collect();
            ctx.harness(Config::new("record_rt_k1", 1), |ch| record_body(ch, &envs, &all));
            ctx.harness(Config::new("record_rt_k2_snv", 2), |ch| record_body(ch, &envs, &[1]));
        } else {
            let all: Vec<usize> = (0..N_BASES).collect();
            ctx.harness(Config::new("record_rt_k2", 2), |ch| record_body(ch, &envs, &all));
            ctx.harness(Config::new("record_rt_k3_minimal", 3), |ch| record_body(ch, &envs, &[0]));
        }

        // (3) literal lines
        let lines = literal_lines();
        let headers: Vec<vcf::Header> =
            FILE_FORMATS.iter().map(|&ff| gen_::rich_header(ff, 2, IdxMode::Implicit).build().unwrap()).collect();
        let n = lines.len() as u64;
        let seen = std::sync::Mutex::new(std::collections::HashSet::new());
        ctx.sweep(
            "literal_lines",
            n,
            |i| format!("fileformat={:?} line={:?}", lines[i as usize].1, lines[i as usize].0),
            |i| {
                let (line, ff) = &lines[i as usize];
                let fi = FILE_FORMATS.iter().position(|f| f == ff).unwrap();
                let dec = || format!("fileformat={}.{} (gvcf::gen_::rich_header, 2 samples)", ff.0, ff.1);
                let shape_of = |_: &str| "literal";
                let r = check_line(None, &headers[fi], *ff, line.as_bytes(), None, &shape_of, &dec)?;
                if let Some(m) = r {
                    seen.lock().unwrap().insert(m);
                }
                Ok(())
            },
        );
        let d = seen.lock().unwrap().len() as u64;
        ctx.add_distinct(d, d);

        // (4) multi-record files read through every API, in particular the ones that REUSE one
        // RecordBuf / Record: consecutive records differ in the presence (and length) of every optional
        // field in both directions; each record is compared with its own expectation
        ctx.rule(
            "multi-record files: all ordered pairs + triples (full/X/full, empty/X/empty, X/empty/X, X/full/X) of a \
             record set (everything present, everything missing, each optional field / INFO key / FORMAT key removed, \
             shorter and missing values, ploidy 1-4) x fileformat x 5 read APIs (reused RecordBuf loop, record_bufs(), \
             fresh buffer, reused lazy Record, records())",
        );
        let sets: Vec<Vec<(String, Rec)>> = FILE_FORMATS.iter().map(|&ff| gvcf::multi::record_set(ff)).collect();
        for set in &sets {
            for (name, r) in set {
                if Rec::from_record_buf(&r.to_record_buf()) != *r {
                    vmc::machinery(format!("multi-record set: {name} does not survive to_record_buf()"));
                }
            }
        }
        let seqs = gvcf::multi::sequences(sets[0].len());
        let n_seq = seqs.len() as u64;
        let files = std::sync::Mutex::new(std::collections::HashSet::new());
        let describe = |i: u64| {
            let fi = (i / n_seq) as usize;
            let seq = &seqs[(i % n_seq) as usize];
            let names: Vec<&str> = seq.iter().map(|&k| sets[fi][k].0.as_str()).collect();
            format!(
                "fileformat={}.{} header=gvcf::gen_::rich_header(ff,2 samples) records=gvcf::multi::record_set(ff)[{names:?}] i.e. {}",
                FILE_FORMATS[fi].0,
                FILE_FORMATS[fi].1,
                seq.iter().map(|&k| sets[fi][k].1.show()).collect::<Vec<_>>().join(" ; ")
            )
        };
        ctx.sweep("multi_record_reuse", n_seq * FILE_FORMATS.len() as u64, describe, |i| {
            let fi = (i / n_seq) as usize;
            let seq = &seqs[(i % n_seq) as usize];
            let header = &headers[fi];
            let exp: Vec<&Rec> = seq.iter().map(|&k| &sets[fi][k].1).collect();
            let rbs: Vec<_> = exp.iter().map(|r| r.to_record_buf()).collect();
            let bytes = match io::vcf_write_file(header, &rbs) {
                Ok(b) => b,
                Err(f) => return Err(fail_violation("multi-write", &f, String::new(), "Ok (every record is valid)")),
            };
            {
                use std::hash::{Hash, Hasher};
                let mut h = std::collections::hash_map::DefaultHasher::new();
                bytes.hash(&mut h);
                files.lock().unwrap().insert(h.finish());
            }
            let text = || {
                let t = String::from_utf8_lossy(&bytes);
                t.lines().filter(|l| !l.starts_with("##")).collect::<Vec<_>>().join("\n")
            };
            for (api, api_name) in io::READ_APIS.iter().enumerate() {
                let got = match io::vcf_read_file(&bytes, api, exp.len()) {
                    Ok(g) => g,
                    Err(f) => {
                        let mut v = fail_violation("multi-read", &f, String::new(), "every record reads back");
                        v.fingerprint = format!("{} api={api_name}", v.fingerprint);
                        v.observed = format!("{} ; file records: {}", v.observed, text());
                        return Err(v);
                    }
                };
                if got.len() != exp.len() {
                    return Err(Violation::new(
                        format!("stage=multi-read api={api_name} symptom=record-count"),
                        String::new(),
                        format!("{} records", exp.len()),
                        format!("{}", got.len()),
                    ));
                }
                for (k, (e, g)) in exp.iter().zip(&got).enumerate() {
                    if let Some(d) = diff_rec(e, g, FloatMode::NanEq) {
                        let position = if k == 0 { "first" } else { "after-another-record" };
                        return Err(Violation::new(
                            format!("stage=multi-read api={api_name} position={position} {}", d.fp()),
                            String::new(),
                            format!("record {k} of the file == the record written at position {k}"),
                            format!("{} ; file records: {}", d.detail, text()),
                        ));
                    }
                }
            }
            Ok(())
        });
        let d = files.lock().unwrap().len() as u64;
        ctx.add_distinct(d, d);

        // (5) large headers: 127 / 128 / 129 / 140 / 300 INFO+FILTER+FORMAT ids or contigs, with and
        // without explicit (natural, permuted) IDX: header round trip + the records of the family as text
        ctx.rule(
            "large headers: zone {INFO, FILTER, FORMAT, contig} x entries {127,128,129,140,300} x IDX {implicit, natural, \
             permuted} x fileformat {4.3,4.4}: parse(write(h)) == h, fixed point, and every record of gvcf::bigdict \
             (keys / filters / contigs at dictionary indices 1,126..129,last) through the per-line check",
        );
        let big = gvcf::bigdict::cases(&[(4, 3), (4, 4)]);
        let big_headers: Vec<vcf::Header> = big.iter().map(|c| c.hdr.build().expect("big header builds")).collect();
        // case = (header index, None = the header itself | Some(record index))
        let big_cases: Vec<(usize, Option<usize>)> = big
            .iter()
            .enumerate()
            .flat_map(|(e, c)| std::iter::once((e, None)).chain((0..c.recs.len()).map(move |r| (e, Some(r)))))
            .collect();
        ctx.sweep(
            "large_headers",
            big_cases.len() as u64,
            |i| {
                let (e, r) = big_cases[i as usize];
                match r {
                    None => format!("header=gvcf::bigdict::big_header({})", big[e].name),
                    Some(r) => format!("header=gvcf::bigdict::big_header({}) record {} = {}", big[e].name, big[e].recs[r].0, big[e].recs[r].1.show()),
                }
            },
            |i| {
                let (e, r) = big_cases[i as usize];
                let header = &big_headers[e];
                match r {
                    None => {
                        let text = io::vcf_write_header(header)
                            .map_err(|f| fail_violation("write-header", &f, String::new(), "Ok"))?;
                        let back = io::vcf_read_header(&text)
                            .map_err(|f| fail_violation("read-header", &f, String::new(), "the writer's own output parses"))?;
                        if let Some((section, detail)) = big[e].hdr.diff(&Hdr::from_header(&back)) {
                            return Err(Violation::new(
                                format!("family=large-header stage=read-header symptom=value-differs section={section}"),
                                String::new(),
                                "parse(write(h)) == h",
                                detail.chars().take(400).collect::<String>(),
                            ));
                        }
                        if back != *header {
                            return Err(Violation::new("family=large-header stage=read-header symptom=value-differs section=non-public-state", String::new(), "==", "!="));
                        }
                        match io::vcf_write_header(&back) {
                            Ok(t2) if t2 == text => Ok(()),
                            _ => Err(Violation::new("family=large-header stage=fixed-point-header symptom=text-differs", String::new(), "same bytes", "different")),
                        }
                    }
                    Some(r) => {
                        let (label, rec) = &big[e].recs[r];
                        let dec = || format!("record {label}");
                        let line = io::vcf_write_record(header, &rec.to_record_buf())
                            .map_err(|f| fail_violation("write", &f, dec(), "Ok (the record is valid)"))?;
                        let shape_of = |_: &str| "large-dictionary";
                        check_line(None, header, big[e].hdr.ff, &line, Some((rec, &Expect::Exact)), &shape_of, &dec).map(|_| ())
                    }
                }
            },
        );
        ctx.add_distinct(big_cases.len() as u64, big_cases.len() as u64);

        // (6) one writer instance: accepted, REJECTED, accepted — the text must hold exactly the accepted
        // records (a rejected record must leave nothing behind)
        ctx.rule(
            "one VCF writer instance: [a, R, b], [R, a], [a, R] for every rejection reason R of the text writer (reserved \
             integers in INFO / FORMAT scalars and vectors, invalid INFO / FORMAT key, GT not first, invalid ID / ALT / \
             FILTER / CHROM / REF base) x accepted records a, b in {full, empty, no-info, format-gt-only} x fileformat \
             {4.3, 4.5}; the file read back holds exactly the accepted records",
        );
        let op_ffs = [1usize, 3];
        let acc_names = ["full", "empty", "no-info", "format-gt-only"];
        let rej: Vec<Vec<(String, Rec)>> = op_ffs.iter().map(|&fi| gvcf::multi::rejects(FILE_FORMATS[fi], false)).collect();
        let acc: Vec<Vec<(String, Rec)>> = op_ffs
            .iter()
            .map(|&fi| sets[fi].iter().filter(|(n, _)| acc_names.contains(&n.as_str())).cloned().collect())
            .collect();
        let mut op_cases: Vec<(usize, usize, usize)> = Vec::new();
        for f in 0..op_ffs.len() {
            for r in 0..rej[f].len() {
                for shape in 0..24 {
                    op_cases.push((f, r, shape));
                }
            }
        }
        let not_rejected = std::sync::Mutex::new(std::collections::BTreeSet::new());
        let seq_of = |f: usize, r: usize, shape: usize| -> Vec<(bool, &(String, Rec))> {
            let rr = &rej[f][r];
            match shape {
                0..=15 => vec![(true, &acc[f][shape / 4]), (false, rr), (true, &acc[f][shape % 4])],
                16..=19 => vec![(false, rr), (true, &acc[f][shape - 16])],
                _ => vec![(true, &acc[f][shape - 20]), (false, rr)],
            }
        };
        ctx.sweep(
            "vcf_writer_reject_sequences",
            op_cases.len() as u64,
            |i| {
                let (f, r, shape) = op_cases[i as usize];
                let seq = seq_of(f, r, shape);
                format!(
                    "fileformat={:?} header=gvcf::gen_::rich_header(ff,2 samples) one vcf::io::Writer: {}",
                    FILE_FORMATS[op_ffs[f]],
                    seq.iter().map(|(a, x)| format!("{}{} {}", if *a { "accept " } else { "REJECT " }, x.0, x.1.show())).collect::<Vec<_>>().join(" ; ")
                )
            },
            |i| {
                let (f, r, shape) = op_cases[i as usize];
                let seq = seq_of(f, r, shape);
                let reason = rej[f][r].0.as_str();
                let header = &headers[op_ffs[f]];
                let rbs: Vec<_> = seq.iter().map(|(_, x)| x.1.to_record_buf()).collect();
                let (bytes, res) = match io::vcf_write_ops(header, &rbs) {
                    Ok(x) => x,
                    Err(fl) => return Err(fail_violation("ops-write", &fl, String::new(), "Ok or Err per record")),
                };
                let mut exp: Vec<&Rec> = Vec::new();
                for ((is_acc, x), rs) in seq.iter().zip(&res) {
                    match (is_acc, rs) {
                        (true, Ok(())) => exp.push(&x.1),
                        (true, Err(e)) => {
                            return Err(Violation::new(
                                format!("stage=ops-write symptom=valid-record-rejected after=reject:{reason}"),
                                String::new(),
                                "Ok (the same record is accepted by a fresh writer)",
                                e.clone(),
                            ));
                        }
                        (false, Err(_)) => {}
                        (false, Ok(())) => {
                            not_rejected.lock().unwrap().insert(reason.to_string());
                            return Ok(());
                        }
                    }
                }
                let text = || {
                    let t = String::from_utf8_lossy(&bytes);
                    t.lines().filter(|l| !l.starts_with("##")).collect::<Vec<_>>().join("\n")
                };
                // independent byte oracle: header + the accepted records, each written by a fresh writer
                let mut want = match io::vcf_write_header(header) {
                    Ok(b) => b,
                    Err(fl) => return Err(fail_violation("ops-write", &fl, String::new(), "Ok")),
                };
                for e in &exp {
                    match io::vcf_write_record(header, &e.to_record_buf()) {
                        Ok(l) => want.extend_from_slice(&l),
                        Err(fl) => return Err(fail_violation("ops-write", &fl, String::new(), "Ok")),
                    }
                }
                if bytes != want {
                    return Err(Violation::new(
                        format!("stage=ops-write symptom=rejected-record-left-bytes reject={reason}"),
                        String::new(),
                        "the output holds exactly the accepted records (a write that returns Err leaves nothing behind)",
                        format!("file records: {}", text()),
                    ));
                }
                for api in [0usize, 2, 3] {
                    let api_name = io::READ_APIS[api];
                    let got = match io::vcf_read_file(&bytes, api, exp.len()) {
                        Ok(g) => g,
                        Err(fl) => {
                            return Err(Violation::new(
                                format!("stage=ops-read api={api_name} symptom=unreadable-after-reject reject={reason}"),
                                String::new(),
                                "exactly the accepted records (a rejected record leaves nothing behind)",
                                format!("{} ; file records: {}", fl.text(), text()),
                            ));
                        }
                    };
                    if got.len() != exp.len() {
                        return Err(Violation::new(
                            format!("stage=ops-read api={api_name} symptom=record-count reject={reason}"),
                            String::new(),
                            format!("{} records", exp.len()),
                            format!("{} ; file records: {}", got.len(), text()),
                        ));
                    }
                    for (k, (e, g)) in exp.iter().zip(&got).enumerate() {
                        if let Some(d) = diff_rec(e, g, FloatMode::NanEq) {
                            return Err(Violation::new(
                                format!("stage=ops-read api={api_name} reject={reason} {}", d.fp()),
                                String::new(),
                                format!("accepted record {k} == what was written"),
                                format!("{} ; file records: {}", d.detail, text()),
                            ));
                        }
                    }
                }
                Ok(())
            },
        );
        ctx.add_distinct(op_cases.len() as u64, op_cases.len() as u64);
        // (9) several "other" header records under one key with different ID tags / forms
        ctx.rule(
            "other header records: hand-written headers with 2-3 records under one key that differ in ID tag or form \
             (PEDIGREE 4.2 forms, META, SAMPLE, user keys, unstructured), every order x fileformat {4.2, 4.3}: \
             parse(write(parse(t))) == parse(t), second write byte-identical, every ID and field survives",
        );
        let other_lines: Vec<Vec<&str>> = vec![
            vec!["##PEDIGREE=<Child=cid,Mother=mid,Father=fid>", "##PEDIGREE=<Derived=did,Original=\"oid\">", "##PEDIGREE=<Name_0=G0,Name_1=G1>"],
            vec!["##PEDIGREE=<ID=c1,Original=o1>", "##PEDIGREE=<ID=c2,Father=f,Mother=m>"],
            vec!["##SAMPLE=<ID=S1,Assay=WGS>", "##SAMPLE=<ID=S2,Description=\"x, y\">", "##SAMPLE=<ID=S3>"],
            vec!["##foo=<Name=n1,Value=v1>", "##foo=<Key=k2,Other=o2>", "##foo=<ID=i3>"],
            vec!["##bar=<ID=b1,X=1>", "##bar=<ID=b2,Y=\"2\">", "##baz=<Tag=t1>"],
            vec!["##META=<ID=Assay,Type=String,Number=.,Values=[WGS, WES]>", "##META=<ID=Tissue,Type=String,Number=.,Values=[Blood, Skin]>"],
            vec!["##source=one", "##source=two", "##reference=file:///r.fa"],
        ];
        let mut other_cases: Vec<(u32, Vec<&str>)> = Vec::new();
        for minor in [2u32, 3] {
            for set in &other_lines {
                // every ordered selection of 2 and of all lines
                for i in 0..set.len() {
                    for j in 0..set.len() {
                        if i != j {
                            other_cases.push((minor, vec![set[i], set[j]]));
                        }
                    }
                }
                let mut all = set.clone();
                for _ in 0..set.len() {
                    all.rotate_left(1);
                    other_cases.push((minor, all.clone()));
                    let mut r = all.clone();
                    r.reverse();
                    other_cases.push((minor, r));
                }
            }
        }
        let other_text = |c: &(u32, Vec<&str>)| format!("##fileformat=VCFv4.{}\n{}\n#CHROM\tPOS\tID\tREF\tALT\tQUAL\tFILTER\tINFO\n", c.0, c.1.join("\n"));
        let not_parsed = std::sync::atomic::AtomicU64::new(0);
        ctx.sweep(
            "header_other_records",
            other_cases.len() as u64,
            |i| format!("header text {:?}", other_text(&other_cases[i as usize])),
            |i| {
                let text = other_text(&other_cases[i as usize]);
                // a text this parser does not accept is outside the statement ("valid header")
                let Ok(h1) = io::vcf_read_header(text.as_bytes()) else {
                    not_parsed.fetch_add(1, std::sync::atomic::Ordering::Relaxed);
                    return Ok(());
                };
                let w1 = io::vcf_write_header(&h1).map_err(|f| fail_violation("write-header", &f, String::new(), "Ok"))?;
                let h2 = io::vcf_read_header(&w1).map_err(|f| {
                    let mut v = fail_violation("read-header", &f, String::new(), "the writer's own output parses");
                    v.fingerprint = format!("family=other-records {}", v.fingerprint);
                    v.observed = format!("{} ; written: {:?}", v.observed, String::from_utf8_lossy(&w1));
                    v
                })?;
                if h2 != h1 {
                    let (a, b) = (Hdr::from_header(&h1), Hdr::from_header(&h2));
                    return Err(Violation::new(
                        "family=other-records stage=read-header symptom=value-differs section=other",
                        String::new(),
                        format!("parse(write(h)) == h, h.others = {:?}", a.others),
                        format!("{:?} ; written: {:?}", b.others, String::from_utf8_lossy(&w1)),
                    ));
                }
                // every line of the source is still there (IDs and fields; quoting may differ)
                let squash = |s: &str| s.replace('"', "");
                let written = squash(&String::from_utf8_lossy(&w1));
                for l in &other_cases[i as usize].1 {
                    if !written.contains(&squash(l)) {
                        return Err(Violation::new(
                            "family=other-records stage=write-header symptom=source-line-changed",
                            String::new(),
                            format!("the line {l} (modulo quoting)"),
                            format!("written: {:?}", String::from_utf8_lossy(&w1)),
                        ));
                    }
                }
                match io::vcf_write_header(&h2) {
                    Ok(w2) if w2 == w1 => Ok(()),
                    _ => Err(Violation::new("family=other-records stage=fixed-point-header symptom=text-differs", String::new(), "same bytes", "different")),
                }
            },
        );
        ctx.add_distinct(other_cases.len() as u64, other_cases.len() as u64);
        ctx.extra("header_other_records_not_accepted_by_parser", vmc::json!(not_parsed.load(std::sync::atomic::Ordering::Relaxed)));

        // (8) keyed lookups: keys that are substrings / prefixes / suffixes of earlier keys and values
        ctx.rule(
            "keyed lookups: gvcf::keyed documents (every ordered pair and triple of 12 INFO keys - CIEND/END/ENDX/EN, MAF/AF, \
             NOTE=lowDP/DP/lowDP, XSVLEN/SVLEN, F - and of 9 FORMAT keys - XGQ/GQ, XAD/AD, DPX/DP, TAG=DP, LEN/XLEN -, with and \
             without GT, full sets in every rotation) x fileformat 4.2-4.5: lazy Info::get(key), Samples::select(key), \
             Series::get(i), Sample::get(key)/get_index(j) == iter for every key, absent fragments are not found, lazy span == \
             eager span == rule",
        );
        let key_docs = gvcf::keyed::documents();
        let key_hdrs: Vec<(vcf::Header, (u32, u32))> =
            FILE_FORMATS.iter().map(|&ff| (gvcf::keyed::keyed_header(ff).build().expect("keyed header builds"), ff)).collect();
        let n_docs = key_docs.len() as u64;
        ctx.sweep(
            "keyed_lookup",
            n_docs * key_hdrs.len() as u64,
            |i| format!("fileformat={:?} header=gvcf::keyed::keyed_header(ff) record {} = {}", key_hdrs[(i / n_docs) as usize].1, key_docs[(i % n_docs) as usize].0, key_docs[(i % n_docs) as usize].1.show()),
            |i| {
                let (header, ff) = &key_hdrs[(i / n_docs) as usize];
                let (label, rec) = &key_docs[(i % n_docs) as usize];
                let dec = || format!("record {label}");
                let line = io::vcf_write_record(header, &rec.to_record_buf()).map_err(|f| fail_violation("write", &f, dec(), "Ok (the record is valid)"))?;
                let shape_of = |_: &str| "keyed-lookup";
                check_line(None, header, *ff, &line, Some((rec, &Expect::Exact)), &shape_of, &dec).map(|_| ()).map_err(|mut v| {
                    v.fingerprint = format!("family=keyed-lookup column={} {}", label.split('[').next().unwrap_or("?").split('-').next().unwrap_or("?"), v.fingerprint);
                    v
                })
            },
        );
        ctx.add_distinct(n_docs * key_hdrs.len() as u64, n_docs * key_hdrs.len() as u64);

        // (7) header_reader(): the raw header through every Read / BufRead call style and source
        ctx.rule(
            "header_reader(): 5 headers (minimal, 2 samples, rich, 400-byte line, 40 samples) x followed by 0/1/2 records x 7 \
             sources (slice, 4 chunked BufRead window patterns, 2 interrupting) x call style (read with every destination \
             size 1..=longest line+1, read_to_end, read_to_string, bytes(), io::copy, fill_buf+consume all / fill_buf twice / partial \
             {1,2,3,7,20}, read_until, read_line, lines()): raw bytes == written header text, parse(raw) == header, the \
             reader then yields exactly the records",
        );
        let hcases = hdr_reader::header_cases();
        // flat index: (header, tail, source, method)
        let mut hr_cases: Vec<(usize, usize, usize, hdr_reader::Method)> = Vec::new();
        for (hi, c) in hcases.iter().enumerate() {
            for m in hdr_reader::methods(c.n) {
                for tail in 0..c.tails.len() {
                    for src in 0..hdr_reader::SOURCES.len() {
                        hr_cases.push((hi, tail, src, m));
                    }
                }
            }
        }
        ctx.sweep(
            "header_reader_io",
            hr_cases.len() as u64,
            |i| {
                let (hi, tail, src, m) = hr_cases[i as usize];
                format!(
                    "header={} ({} bytes, text = vcf::io::Writer output of {:?}) followed by {} record(s); source={}; call style {:?}",
                    hcases[hi].name,
                    hcases[hi].text.len(),
                    if hcases[hi].text.len() < 400 { String::from_utf8_lossy(&hcases[hi].text).into_owned() } else { format!("gvcf header model {}", hcases[hi].name) },
                    tail,
                    hdr_reader::SOURCES[src],
                    m
                )
            },
            |i| {
                let (hi, tail, src, m) = hr_cases[i as usize];
                hdr_reader::run_case(&hcases[hi], tail, src, m)
            },
        );
        ctx.add_distinct(hr_cases.len() as u64, hr_cases.len() as u64);

        ctx.extra(
            "writer_reject_sequences_reasons",
            vmc::json!({
                "rejected": rej[0].iter().map(|x| x.0.clone()).filter(|n| !not_rejected.lock().unwrap().contains(n)).collect::<Vec<_>>(),
                "accepted_by_this_writer_not_judged": not_rejected.lock().unwrap().iter().cloned().collect::<Vec<_>>(),
            }),
        );
    });
}
