//! `vcf::io::Reader::header_reader()` driven through every `io::Read` / `io::BufRead` call style, over
//! plain, chunked and interrupting sources: the raw header must be exactly the text that was written,
//! parse to the same header, and the reader must afterwards yield exactly the records.

use std::{
    io::{self, BufRead, BufReader, Read},
    sync::Arc,
};

use gvcf::{
    cmp::{FloatMode, diff_rec},
    gen_::{IdxMode, rich_header},
    io as gio,
    model::{FieldDef, FilterDef, Hdr, Num, Rec, Ty, Val},
};
use noodles_vcf as vcf;
use vmc::{
    Outcome, Violation,
    env::{ChunkBufRead, ChunkReader, ReadMode},
};

pub struct HCase {
    pub name: &'static str,
    pub hdr: Hdr,
    pub header: vcf::Header,
    pub text: Vec<u8>,
    /// 0, 1 and 2 records: (text appended, expected records)
    pub tails: Vec<(Vec<u8>, Vec<Rec>)>,
    /// longest line + 1
    pub n: usize,
}

fn simple_recs(h: &Hdr) -> Vec<Rec> {
    let mk = |pos: usize, ids: Vec<String>, alt: &str| {
        let mut r = Rec { pos, ids, alts: vec![alt.into()], ..Rec::default() };
        r.chrom = h.contigs.first().map(|c| c.id.clone()).unwrap_or_else(|| "sq0".into());
        if !h.samples.is_empty() {
            r.format = vec!["GT".into()];
            r.samples = (0..h.samples.len()).map(|i| vec![Some(Val::Gt(vec![(Some(i % 2), false), (Some(1), false)]))]).collect();
        }
        r
    };
    vec![mk(5, vec![], "C"), mk(77, vec!["rs9".into()], "<DEL>")]
}

pub fn header_cases() -> Vec<HCase> {
    let ff = (4, 3);
    let mut models: Vec<(&'static str, Hdr)> = Vec::new();
    models.push(("minimal-no-samples", Hdr::new(ff)));
    let mut h = Hdr::new(ff);
    h.formats.push(FieldDef::new("GT", Num::Count(1), Ty::String));
    h.samples = vec!["s0".into(), "s1".into()];
    models.push(("two-samples", h));
    models.push(("rich-two-samples", rich_header(ff, 2, IdxMode::Implicit)));
    let mut h = Hdr::new(ff);
    let mut d = FieldDef::new("XL", Num::Unknown, Ty::String);
    d.desc = "long ".repeat(80);
    h.infos.push(d);
    h.filters.push(FilterDef { id: "q10".into(), desc: "x".into(), idx: None, other: vec![] });
    models.push(("long-line-no-samples", h));
    let mut h = Hdr::new(ff);
    h.formats.push(FieldDef::new("GT", Num::Count(1), Ty::String));
    h.samples = (0..40).map(|i| format!("sample{i:02}")).collect();
    models.push(("forty-samples", h));
    models
        .into_iter()
        .map(|(name, hdr)| {
            let header = hdr.build().expect("header builds");
            let text = gio::vcf_write_header(&header).expect("header writes");
            let recs = simple_recs(&hdr);
            let mut tails = vec![(Vec::new(), Vec::new())];
            let mut acc = Vec::new();
            let mut exp = Vec::new();
            for r in &recs {
                acc.extend_from_slice(&gio::vcf_write_record(&header, &r.to_record_buf()).expect("record writes"));
                exp.push(r.clone());
                tails.push((acc.clone(), exp.clone()));
            }
            let n = text.split(|&b| b == b'\n').map(|l| l.len() + 1).max().unwrap_or(1) + 1;
            HCase { name, hdr, header, text, tails, n: n.min(440) }
        })
        .collect()
}

#[derive(Clone, Copy, Debug, PartialEq)]
pub enum Method {
    ReadFixed(usize),
    ReadToEnd,
    ReadToString,
    Bytes,
    Copy,
    FillConsumeAll,
    FillTwiceConsumeAll,
    FillConsumePartial(usize),
    ReadUntil,
    ReadLine,
    Lines,
}

impl Method {
    pub fn class(&self) -> &'static str {
        match self {
            Method::ReadFixed(_) => "read-fixed-size",
            Method::ReadToEnd => "read_to_end",
            Method::ReadToString => "read_to_string",
            Method::Bytes => "bytes",
            Method::Copy => "io-copy",
            Method::FillConsumeAll => "fill_buf-consume-all",
            Method::FillTwiceConsumeAll => "fill_buf-twice-consume-all",
            Method::FillConsumePartial(_) => "fill_buf-consume-partial",
            Method::ReadUntil => "read_until",
            Method::ReadLine => "read_line",
            Method::Lines => "lines",
        }
    }
}

pub fn methods(n: usize) -> Vec<Method> {
    let mut m: Vec<Method> = (1..=n).map(Method::ReadFixed).collect();
    m.extend([Method::ReadToEnd, Method::ReadToString, Method::Bytes, Method::Copy, Method::FillConsumeAll, Method::FillTwiceConsumeAll]);
    m.extend([1usize, 2, 3, 7, 20].map(Method::FillConsumePartial));
    m.extend([Method::ReadUntil, Method::ReadLine, Method::Lines]);
    m
}

pub const SOURCES: [&str; 7] = [
    "slice",
    "chunked:one-byte-windows",
    "chunked:irregular-windows",
    "chunked:windows-3-1-7-64",
    "chunked:bufreader16",
    "interrupting:bufreader7-interrupt-before-every-read",
    "interrupting:bufreader64-pattern-I-2-I-5-1",
];

fn source(i: usize, data: Arc<Vec<u8>>) -> Box<dyn BufRead> {
    match i {
        0 => Box::new(io::Cursor::new(data.as_ref().clone())),
        1 => Box::new(ChunkBufRead::new(data, ReadMode::OneByte, None)),
        2 => Box::new(ChunkBufRead::new(data, ReadMode::Irregular, None)),
        3 => Box::new(ChunkBufRead::new(data, ReadMode::Pattern(vec![3, 1, 7, 64]), None)),
        4 => Box::new(BufReader::with_capacity(16, ChunkReader::new(data, ReadMode::Full, None))),
        5 => Box::new(BufReader::with_capacity(7, ChunkReader::new(data, ReadMode::InterruptEvery, None))),
        _ => Box::new(BufReader::with_capacity(64, ChunkReader::new(data, ReadMode::Pattern(vec![0, 2, 0, 5, 1]), None))),
    }
}

fn retry<T>(mut f: impl FnMut() -> io::Result<T>, budget: &mut usize) -> io::Result<T> {
    loop {
        match f() {
            Err(e) if e.kind() == io::ErrorKind::Interrupted => {
                if *budget == 0 {
                    return Err(io::Error::other("no progress: Interrupted forever"));
                }
                *budget -= 1;
            }
            r => return r,
        }
    }
}

/// Pulls the raw header out of `hr` with the given call style.
fn pull<R: Read + BufRead>(hr: &mut R, m: Method, total: usize) -> io::Result<Vec<u8>> {
    let mut out = Vec::new();
    let mut budget = total * 4 + 1000;
    let mut steps = total * 4 + 1000;
    let step = |steps: &mut usize| -> io::Result<()> {
        if *steps == 0 {
            return Err(io::Error::other("no progress: iteration cap"));
        }
        *steps -= 1;
        Ok(())
    };
    match m {
        Method::ReadFixed(k) => {
            let mut buf = vec![0u8; k];
            loop {
                step(&mut steps)?;
                let n = retry(|| hr.read(&mut buf), &mut budget)?;
                if n == 0 {
                    break;
                }
                out.extend_from_slice(&buf[..n]);
            }
        }
        Method::ReadToEnd => {
            hr.read_to_end(&mut out)?;
        }
        Method::ReadToString => {
            let mut s = String::new();
            hr.read_to_string(&mut s)?;
            out = s.into_bytes();
        }
        Method::Bytes => {
            for b in hr.by_ref().bytes() {
                step(&mut steps)?;
                out.push(b?);
            }
        }
        Method::Copy => {
            io::copy(hr, &mut out)?;
        }
        Method::FillConsumeAll | Method::FillTwiceConsumeAll | Method::FillConsumePartial(_) => loop {
            step(&mut steps)?;
            if m == Method::FillTwiceConsumeAll {
                // fill_buf is idempotent until something is consumed
                retry(|| hr.fill_buf().map(|b| b.len()), &mut budget)?;
            }
            let avail = retry(|| hr.fill_buf().map(|b| b.to_vec()), &mut budget)?;
            if avail.is_empty() {
                break;
            }
            let take = match m {
                Method::FillConsumePartial(c) => c.min(avail.len()),
                _ => avail.len(),
            };
            out.extend_from_slice(&avail[..take]);
            hr.consume(take);
        },
        Method::ReadUntil => loop {
            step(&mut steps)?;
            if hr.read_until(b'\n', &mut out)? == 0 {
                break;
            }
        },
        Method::ReadLine => {
            let mut s = String::new();
            loop {
                step(&mut steps)?;
                if hr.read_line(&mut s)? == 0 {
                    break;
                }
            }
            out = s.into_bytes();
        }
        Method::Lines => {
            for l in hr.by_ref().lines() {
                step(&mut steps)?;
                out.extend_from_slice(l?.as_bytes());
                out.push(b'\n');
            }
        }
    }
    Ok(out)
}

fn source_class(i: usize) -> &'static str {
    SOURCES[i].split(':').next().unwrap_or("slice")
}

pub fn run_case(c: &HCase, tail: usize, src: usize, m: Method) -> Outcome {
    let (tail_bytes, exp) = &c.tails[tail];
    let mut file = c.text.clone();
    file.extend_from_slice(tail_bytes);
    let total = file.len();
    let data = Arc::new(file);
    let followed = if tail == 0 { "nothing" } else { "records" };
    let fp = |symptom: &str| {
        format!("stage=header-reader api={} source={} followed-by={followed} symptom={symptom}", m.class(), source_class(src))
    };
    let r = gio::guard(|| {
        let mut reader = vcf::io::Reader::new(source(src, data.clone()));
        let raw = {
            let mut hr = reader.header_reader();
            pull(&mut hr, m, total).map_err(|e| format!("header_reader: {e}"))?
        };
        // what follows must be exactly the records
        let mut got = Vec::new();
        let mut rec_err = None;
        if raw == c.text {
            let mut rb = vcf::variant::RecordBuf::default();
            let mut budget = total * 4 + 1000;
            loop {
                match reader.read_record_buf(&c.header, &mut rb) {
                    Ok(0) => break,
                    Ok(_) => got.push(Rec::from_record_buf(&rb)),
                    Err(e) if e.kind() == io::ErrorKind::Interrupted && budget > 0 => budget -= 1,
                    Err(e) => {
                        rec_err = Some(e.to_string());
                        break;
                    }
                }
                if got.len() > exp.len() + 2 {
                    break;
                }
            }
        }
        Ok((raw, got, rec_err))
    });
    let (raw, got, rec_err) = match r {
        Ok(x) => x,
        Err(f @ gio::Fail::Panic { .. }) => return Err(Violation::new(format!("{} {}", fp("panic"), f.panic_fp()), String::new(), "no panic", f.text())),
        Err(f) => return Err(Violation::new(fp("error"), String::new(), "Ok", f.text())),
    };
    if raw != c.text {
        let how = if c.text.starts_with(&raw) {
            "truncated"
        } else if raw.starts_with(&c.text) {
            "overrun-into-records"
        } else {
            "bytes-lost-or-duplicated"
        };
        return Err(Violation::new(
            fp(&format!("raw-header-differs:{how}")),
            String::new(),
            format!("the {} bytes of header text that were written", c.text.len()),
            format!("{} bytes; {}; tail {:?}", raw.len(), vmc::diff_bytes(&c.text, &raw), String::from_utf8_lossy(&raw[raw.len().saturating_sub(60)..])),
        ));
    }
    match std::str::from_utf8(&raw).map_err(|e| e.to_string()).and_then(|s| s.parse::<vcf::Header>().map_err(|e| e.to_string())) {
        Ok(h) => {
            if let Some((section, detail)) = c.hdr.diff(&Hdr::from_header(&h)) {
                return Err(Violation::new(fp(&format!("parsed-header-differs:{section}")), String::new(), "parse(raw) == header", detail));
            }
        }
        Err(e) => return Err(Violation::new(fp("raw-header-does-not-parse"), String::new(), "Ok", e)),
    }
    if let Some(e) = rec_err {
        return Err(Violation::new(fp("records-after-header:error"), String::new(), format!("{} records", exp.len()), e));
    }
    if got.len() != exp.len() {
        return Err(Violation::new(fp("records-after-header:count"), String::new(), format!("{} records", exp.len()), format!("{}", got.len())));
    }
    for (e, g) in exp.iter().zip(&got) {
        if let Some(d) = diff_rec(e, g, FloatMode::NanEq) {
            return Err(Violation::new(fp(&format!("records-after-header:{}", d.field)), String::new(), "the records written", d.detail));
        }
    }
    Ok(())
}
