//! Binds the model primitives of `noodles_bgzf::verif` to the real crates: the same scripted
//! scenarios run (a) on the model under EVERY schedule (E1, unbounded) and (b) free-running on real
//! crossbeam-channel / rayon / std::thread; every real outcome must be one of the model's outcomes.
//! (b) is a cross-check by repetition, labelled as such; it decides nothing about the property.

use std::{
    collections::BTreeSet,
    sync::{Arc, Mutex},
};

use noodles_bgzf::verif::{crossbeam_channel as chan, rayon, thread};
use vmc::{Chooser, Config, Ctx, Outcome, Violation};
use vrt::{CostModel, RtConfig};

type Scenario = fn() -> String;

fn s_fifo() -> String {
    let (tx, rx) = chan::bounded::<u32>(1);
    let h = thread::spawn(move || {
        for i in 0..3 {
            tx.send(i).unwrap();
        }
    });
    let mut got = Vec::new();
    while let Ok(v) = rx.recv() {
        got.push(v);
    }
    h.join().unwrap();
    format!("{got:?}")
}

fn s_buffered_then_disconnect() -> String {
    let (tx, rx) = chan::bounded::<u32>(2);
    tx.send(1).unwrap();
    tx.send(2).unwrap();
    drop(tx);
    let a = rx.recv().ok();
    let b = rx.recv().ok();
    let c = rx.recv().ok();
    format!("{a:?} {b:?} {c:?}")
}

fn s_send_to_dropped_receiver() -> String {
    let (tx, rx) = chan::bounded::<u32>(1);
    let h = thread::spawn(move || {
        let first = rx.recv().ok();
        drop(rx);
        first
    });
    let mut results = Vec::new();
    for i in 0..3 {
        results.push(tx.send(i).is_ok());
    }
    let first = h.join().unwrap();
    // sends after the receiver is gone fail; which ones succeed depends on the schedule
    format!("first={first:?} sends={results:?}")
}

fn s_pool_tickets() -> String {
    // the writer's protocol in miniature: tickets in order, results through per-ticket channels
    let (ticket_tx, ticket_rx) = chan::bounded::<chan::Receiver<u32>>(rayon::current_num_threads().max(1));
    let consumer = thread::spawn(move || {
        let mut got = Vec::new();
        while let Ok(rx) = ticket_rx.recv() {
            if let Ok(v) = rx.recv() {
                got.push(v);
            }
        }
        got
    });
    for i in 0..3u32 {
        let (tx, rx) = chan::bounded::<u32>(1);
        ticket_tx.send(rx).unwrap();
        rayon::spawn(move || {
            tx.send(i * 10).ok();
        });
    }
    drop(ticket_tx);
    let got = consumer.join().unwrap();
    format!("{got:?}")
}

fn s_two_producers() -> String {
    let (tx, rx) = chan::bounded::<(u8, u32)>(2);
    for p in 0..2u8 {
        let tx = tx.clone();
        rayon::spawn(move || {
            for i in 0..2 {
                tx.send((p, i)).ok();
            }
        });
    }
    drop(tx);
    let mut got = Vec::new();
    while let Ok(v) = rx.recv() {
        got.push(v);
    }
    format!("{got:?}")
}

fn s_join_panic() -> String {
    let h = thread::spawn(|| -> u32 { std::panic::resume_unwind(Box::new("boom")) });
    let r = h.join();
    let h2 = thread::spawn(|| 7u32);
    let r2 = h2.join();
    format!("{} {:?}", r.is_err(), r2.ok())
}

const SCENARIOS: &[(&str, Scenario)] = &[
    ("fifo-bounded-1", s_fifo),
    ("buffered-then-disconnect", s_buffered_then_disconnect),
    ("send-to-dropped-receiver", s_send_to_dropped_receiver),
    ("pool-tickets", s_pool_tickets),
    ("two-producers", s_two_producers),
    ("join-panic", s_join_panic),
];

pub fn run(ctx: &mut Ctx) {
    if ctx.is_replay() {
        return;
    }
    let outcomes: Vec<Arc<Mutex<BTreeSet<String>>>> =
        SCENARIOS.iter().map(|_| Arc::new(Mutex::new(BTreeSet::new()))).collect();
    let pools = [1usize, 2, 3];
    let o2 = outcomes.clone();
    ctx.harness(Config::new("model_primitives_schedules", ctx.by_tier(2, 4)), move |ch: &Chooser| -> Outcome {
        let si = ch.free("scenario", SCENARIOS.len());
        let pool = *ch.pick_free("pool", &pools);
        let f = SCENARIOS[si].1;
        let (out, info) = vrt::run(ch, RtConfig::new(pool, CostModel::Preempt), f);
        ch.obs(info.schedule_string());
        if let Some(d) = info.deadlock {
            return Err(Violation::new(
                format!("conformance scenario={} outcome=deadlock", SCENARIOS[si].0),
                info.schedule.iter().map(|(t, l)| format!("T{t}:{l}")).collect::<Vec<_>>().join(" "),
                "scenario terminates under every schedule",
                d,
            ));
        }
        if let Some(o) = out {
            ch.obs(&o);
            o2[si].lock().unwrap().insert(o);
        }
        Ok(())
    });

    // free-running on the real crates
    let mut real_runs = 0u64;
    let mut mismatches = Vec::new();
    let mut real_distinct = 0usize;
    for (si, (name, f)) in SCENARIOS.iter().enumerate() {
        let model = outcomes[si].lock().unwrap().clone();
        let mut seen = BTreeSet::new();
        // real rayon global pool; a private pool cannot be targeted by the free function rayon::spawn from
        // a thread outside it, and blocking inside a 1-thread pool would deadlock by construction
        for _ in 0..ctx.by_tier(100, 1000) {
            let o = f();
            real_runs += 1;
            if !model.contains(&o) {
                mismatches.push((name.to_string(), o.clone(), model.clone()));
            }
            seen.insert(o);
        }
        real_distinct += seen.len();
        eprintln!("[C03] conformance {name}: model outcomes {} real outcomes {}", model.len(), seen.len());
    }
    let mut c = vmc::Custom {
        name: "real_primitives_free_running".into(),
        evaluations: real_runs,
        distinct: real_distinct as u64,
        states: real_distinct as u64,
        transitions: real_runs,
        exhaustive: false,
        non_deciding: true,
        ..Default::default()
    };
    c.extra.insert(
        "note".into(),
        vmc::json!("cross-check by repetition (sampling of real schedules), not deciding; exhaustive=false applies to this pass only"),
    );
    for (name, o, model) in mismatches.into_iter().take(3) {
        c.found.push((
            Violation::new(
                format!("conformance scenario={name} symptom=real-outcome-not-among-model-outcomes"),
                name.clone(),
                format!("one of {model:?}"),
                o,
            ),
            vmc::json!({"scenario": name}),
            1,
        ));
    }
    ctx.custom(c);
}
