//! C03 — multithreaded BGZF I/O equals single-threaded I/O under every schedule.
//!
//! E1 over the controlled runtime `vrt`: every interleaving of {caller, writer/reader thread, pool
//! tasks} within a preemption (writer) or delay (reader) bound, crossed with pool sizes, scripts,
//! sink faults and corrupt blocks. The specification is the single-threaded reader/writer run on the
//! same script.

mod conformance;
mod freerun;

use std::{
    io::{self, BufRead, Cursor, Read, Write},
    sync::Arc,
};

use noodles_bgzf as bgzf;
use vmc::{
    Chooser, Config, Outcome, Violation,
    env::{FaultSink, SinkMode, is_injected},
    oracle::bgzf::{self as ob, Payload},
};
use vrt::{CostModel, RtConfig, RunInfo};

// ---------------------------------------------------------------------------------------------
// writer
// ---------------------------------------------------------------------------------------------

#[derive(Clone, Copy, Debug, PartialEq)]
enum WOp {
    W(usize),
    F,
}

#[derive(Clone, Copy, Debug, PartialEq)]
enum WEnd {
    Finish,
    Drop,
    /// keep calling finish() even after an earlier call returned the error
    FinishAfterError,
}

fn reference_bytes_here(script: &[WOp], payload: Payload) -> Vec<u8> {
    let mut w = bgzf::io::Writer::new(Vec::new());
    let mut off = 0u64;
    for op in script {
        match *op {
            WOp::W(n) => {
                w.write_all(&ob::payload(payload, off, n)).unwrap();
                off += n as u64;
            }
            WOp::F => w.flush().unwrap(),
        }
    }
    w.finish().unwrap()
}

/// The single-threaded writer's file for a script, produced on a brand-new thread so that nothing
/// the calling thread did before can influence it.
fn reference_bytes(script: &[WOp], payload: Payload) -> Vec<u8> {
    let script = script.to_vec();
    std::thread::spawn(move || reference_bytes_here(&script, payload)).join().expect("reference writer")
}

fn check_info(info: &RunInfo, describe: &dyn Fn() -> String) -> Outcome {
    if let Some(d) = &info.deadlock {
        let shape: String = d
            .split_whitespace()
            .map(|w| w.split_once("):").map(|x| x.1).unwrap_or(w))
            .collect::<Vec<_>>()
            .join(",");
        return Err(Violation::new(
            format!("outcome=deadlock blocked={shape}"),
            format!("{} schedule: {}", describe(), info.schedule_string()),
            "every controlled thread terminates",
            d.clone(),
        ));
    }
    if info.horizon_hit {
        return Err(Violation::new(
            "outcome=horizon",
            format!("{} schedule: {}", describe(), info.schedule_string()),
            "execution ends within the step horizon",
            format!("{} steps", info.steps),
        ));
    }
    if let Some(p) = info.thread_panics.first() {
        let (msg, loc) = p.rsplit_once(" @ ").unwrap_or((p, ""));
        let file = loc.rsplit_once(':').map(|x| x.0).unwrap_or(loc);
        let file = vmc::explore::norm_file(file);
        let msg = msg.split_once("): ").map(|x| x.1).unwrap_or(msg);
        return Err(Violation::new(
            format!("outcome=thread-panic msg={} file={}", vmc::normalise_msg(msg), file),
            format!("{} schedule: {}", describe(), info.schedule_string()),
            "no panic in any thread",
            p.clone(),
        ));
    }
    Ok(())
}

thread_local! {
    /// Harness-level switch: offer several error kinds and a recovering sink (set per explorer worker).
    static ALL_KINDS: std::cell::Cell<bool> = const { std::cell::Cell::new(false) };
}

fn sink_sticky(s: &FaultSink) -> bool {
    s.is_sticky()
}

thread_local! {
    /// Harness-level switch: model the pool as long-lived worker threads (per-thread state of the tasks' code).
    static STICKY: std::cell::Cell<bool> = const { std::cell::Cell::new(false) };
}

struct WScript {
    name: &'static str,
    ops: Vec<WOp>,
    payload: Payload,
    reference: Vec<u8>,
}

fn writer_body(ch: &Chooser, scripts: &[WScript], pools: &[usize], ends: &[WEnd], faults: bool, cost: CostModel) -> Outcome {
    writer_body_with(ch, scripts, pools, ends, faults, cost, &[])
}

fn writer_body_with(ch: &Chooser, scripts: &[WScript], pools: &[usize], ends: &[WEnd], faults: bool, cost: CostModel, short_modes: &[SinkMode]) -> Outcome {
    let script = ch.pick_free("script", scripts);
    let pool = *ch.pick_free("pool", pools);
    let end = *ch.pick_free("end", ends);
    let sink = if !short_modes.is_empty() {
        // sinks that accept only part of each buffer or answer Interrupted: output must be identical
        FaultSink::new(ch.pick_free("sink", short_modes).clone(), None)
    } else if faults {
        // any ErrorKind, and both a sink that stays broken and one that recovers after the fault (a
        // transient fault must still be reported: a retry that re-sends part of a frame corrupts the file)
        let s = FaultSink::new(SinkMode::ChooseFail, Some(ch.clone()));
        if ALL_KINDS.with(|k| k.get()) {
            let s = s.with_kinds(vec![io::ErrorKind::Other, io::ErrorKind::WouldBlock, io::ErrorKind::TimedOut]);
            if ch.free("sink-recovers", 2) == 1 { s.not_sticky() } else { s }
        } else {
            s
        }
    } else {
        FaultSink::plain()
    };
    let describe = || {
        format!(
            "writer script={} ops={:?} pool={pool} end={end:?} fault_at_sink_call={:?}",
            script.name,
            script.ops,
            sink.faulted_at()
        )
    };

    #[derive(Debug)]
    struct Log {
        results: Vec<(String, Result<(), String>)>,
        injected_seen: bool,
        other_err: Option<String>,
        finished_ok: bool,
        at_return: Vec<u8>,
    }

    let sink2 = sink.clone();
    let sink3 = sink.clone();
    let ops = script.ops.clone();
    let payload = script.payload;
    let mut rtc = RtConfig::new(pool, cost);
    rtc.sticky_workers = STICKY.with(|k| k.get());
    let caught = vmc::catch(|| vrt::run(ch, rtc, move || {
        let mut log = Log { results: Vec::new(), injected_seen: false, other_err: None, finished_ok: false, at_return: Vec::new() };
        // ManuallyDrop: when an execution is aborted (deadlock, horizon) this thread is unwound; the writer's
        // Drop would then join a thread that never finished. An aborted execution leaks the object instead.
        let mut w = std::mem::ManuallyDrop::new(bgzf::io::MultithreadedWriter::new(sink2));
        let mut off = 0u64;
        let mut failed = false;
        let note = |log: &mut Log, name: String, r: io::Result<()>| -> bool {
            let ok = r.is_ok();
            if let Err(e) = &r {
                if is_injected(e) {
                    log.injected_seen = true;
                } else {
                    log.other_err = Some(format!("{name}: {e}"));
                }
            }
            log.results.push((name, r.map_err(|e| e.to_string())));
            ok
        };
        for op in &ops {
            let r = match *op {
                WOp::W(n) => {
                    let d = ob::payload(payload, off, n);
                    off += n as u64;
                    let r = w.write_all(&d);
                    note(&mut log, format!("write_all({n})"), r)
                }
                WOp::F => {
                    let r = w.flush();
                    note(&mut log, "flush".into(), r)
                }
            };
            if !r {
                failed = true;
                if end != WEnd::FinishAfterError {
                    break;
                }
            }
        }
        match end {
            WEnd::Drop => drop(std::mem::ManuallyDrop::into_inner(w)),
            WEnd::Finish if failed => drop(std::mem::ManuallyDrop::into_inner(w)),
            WEnd::Finish | WEnd::FinishAfterError => {
                let r = w.finish().map(|_| ());
                if note(&mut log, "finish".into(), r) {
                    log.finished_ok = true;
                }
                drop(std::mem::ManuallyDrop::into_inner(w));
            }
        }
        // what the destination holds at the moment finish()/drop returned to the caller
        log.at_return = sink3.bytes();
        log
    }));
    let (log, info) = match caught {
        Ok(x) => x,
        Err((msg, file)) => {
            return Err(Violation::new(
                format!(
                    "writer end={end:?} fault={} outcome=panic msg={} file={}",
                    if sink.faulted_at().is_some() { "sink-write" } else { "none" },
                    vmc::normalise_msg(&msg),
                    file
                ),
                describe(),
                "no panic",
                format!("panic: {msg} in {file}"),
            ));
        }
    };

    ch.obs(info.schedule_string());
    ch.obs_hash(sink.faulted_at());
    ch.steps(info.steps as u64);
    if info.spawned_pool_tasks >= 2 {
        ch.tag("two-or-more-pool-tasks");
    }
    check_info(&info, &describe)?;
    let Some(log) = log else {
        return Err(Violation::new("outcome=aborted-without-cause", describe(), "body completes", "unwound"));
    };
    ch.obs(format!("{:?}", log.results));

    let bytes = sink.bytes();
    match sink.faulted_at() {
        None => {
            if let Some(e) = &log.other_err {
                return Err(Violation::new("writer fault=none symptom=unexpected-error", describe(), "all calls Ok", e.clone()));
            }
            if log.results.iter().any(|r| r.1.is_err()) {
                return Err(Violation::new("writer fault=none symptom=unexpected-error", describe(), "all calls Ok", format!("{:?}", log.results)));
            }
            if log.at_return != bytes {
                return Err(Violation::new(
                    "writer fault=none symptom=destination-incomplete-when-finish-or-drop-returns",
                    format!("{} schedule: {}", describe(), info.schedule_string()),
                    format!("all {} bytes at the destination when the call returns", bytes.len()),
                    format!("{} bytes then, {} bytes after the background thread ended", log.at_return.len(), bytes.len()),
                ));
            }
            if bytes != script.reference {
                return Err(Violation::new(
                    "writer fault=none symptom=bytes-differ-from-single-threaded",
                    format!("{} schedule: {}", describe(), info.schedule_string()),
                    format!("{} bytes, identical to bgzf::io::Writer's output", script.reference.len()),
                    vmc::diff_bytes(&script.reference, &bytes),
                ));
            }
            if end != WEnd::Drop && !log.finished_ok {
                return Err(Violation::new("writer fault=none symptom=finish-not-ok", describe(), "finish() == Ok(sink)", format!("{:?}", log.results)));
            }
        }
        Some(k) => {
            ch.tag("sink-fault-injected");
            if end != WEnd::Drop && !log.injected_seen && log.finished_ok && bytes == script.reference {
                // a transient fault that the writer legitimately absorbed would be acceptable only if the
                // file is complete; noodles never retries, so this branch is not expected to be taken
                ch.tag("transient-fault-absorbed-file-complete");
                return Ok(());
            }
            if end != WEnd::Drop && !log.injected_seen {
                return Err(Violation::new(
                    "writer fault=sink-write symptom=error-lost",
                    format!("{} schedule: {}", describe(), info.schedule_string()),
                    format!("some write/flush/finish call returns the error injected at sink call {k}"),
                    format!("{:?}", log.results),
                ));
            }
            // whatever reached the sink before the fault is a prefix of the reference file (a recovering
            // sink may accept later frames after the hole; only judged while the sink stays broken)
            if sink_sticky(&sink) && !script.reference.starts_with(&bytes) {
                return Err(Violation::new(
                    "writer fault=sink-write symptom=sink-prefix-differs",
                    describe(),
                    "bytes accepted before the fault are a prefix of the single-threaded file",
                    vmc::diff_bytes(&script.reference, &bytes),
                ));
            }
        }
    }
    Ok(())
}

// ---------------------------------------------------------------------------------------------
// reader
// ---------------------------------------------------------------------------------------------

#[derive(Clone, Copy, Debug, PartialEq)]
enum ROp {
    ReadToEnd,
    Read(usize),
    ReadExact(usize),
    FillConsume(usize),
    /// seek to (block index, offset within block); block index == n_blocks means end of stream
    Seek(usize, usize),
    /// seek by uncompressed offset through a gzi index built by the harness
    SeekIndex(u64),
    Finish,
}

#[derive(Clone, Copy, Debug, PartialEq)]
enum Corrupt {
    None,
    Crc(usize),
    Deflate(usize),
    Magic(usize),
    TruncateIn(usize),
    /// the underlying reader returns an I/O error when it reaches the middle of block j
    IoErrorIn(usize),
    /// the underlying reader answers `Interrupted` once, on the first read of block j's header
    InterruptedAt(usize),
}

fn gzi_of(offs: &[usize], payload_sizes: &[usize]) -> bgzf::gzi::Index {
    // gzi definition: one (compressed offset, uncompressed offset) entry per block after the first
    let mut v = Vec::new();
    let mut u = 0u64;
    for i in 0..offs.len() {
        if i > 0 {
            v.push((offs[i] as u64, u));
        }
        u += payload_sizes[i] as u64;
    }
    bgzf::gzi::Index::from(v)
}

struct RFile {
    sizes: Vec<usize>,
    name: String,
    bytes: Arc<Vec<u8>>,
    offs: Vec<usize>,
    n_blocks: usize,
    io_error_at: Option<usize>,
    interrupt_at: Option<usize>,
    payload: Vec<u8>,
}

/// `Read + Seek` over the file that fails with the injected error at a byte offset.
struct Src {
    cur: Cursor<Vec<u8>>,
    fail_at: Option<usize>,
    /// answer `Interrupted` once when a read starts at this offset
    interrupt_at: Option<usize>,
}

impl Read for Src {
    fn read(&mut self, buf: &mut [u8]) -> io::Result<usize> {
        if self.interrupt_at == Some(self.cur.position() as usize) {
            self.interrupt_at = None;
            return Err(io::Error::from(io::ErrorKind::Interrupted));
        }
        if let Some(f) = self.fail_at {
            let pos = self.cur.position() as usize;
            if pos >= f {
                return Err(vmc::env::injected(io::ErrorKind::Other));
            }
            let n = buf.len().min(f - pos);
            return self.cur.read(&mut buf[..n]);
        }
        self.cur.read(buf)
    }
}

impl io::Seek for Src {
    fn seek(&mut self, pos: io::SeekFrom) -> io::Result<u64> {
        self.cur.seek(pos)
    }
}

fn build_file(blocks: &[usize], eof: bool, corrupt: Corrupt) -> RFile {
    let mut payloads = Vec::new();
    let mut off = 0u64;
    for &n in blocks {
        payloads.push(ob::payload(Payload::Text, off, n));
        off += n as u64;
    }
    let (mut bytes, offs) = ob::make_file(&payloads, eof, 6);
    let size = |j: usize| -> usize {
        let end = if j + 1 < offs.len() { offs[j + 1] } else if eof { bytes.len() - 28 } else { bytes.len() };
        end - offs[j]
    };
    let mut io_error_at = None;
    let mut interrupt_at = None;
    let flat: Vec<u8> = payloads.concat();
    match corrupt {
        Corrupt::None => {}
        Corrupt::InterruptedAt(j) => {
            interrupt_at = Some(if j < offs.len() { offs[j] } else { bytes.len() - 28 });
        }
        Corrupt::IoErrorIn(j) => {
            io_error_at = Some(offs[j] + size(j) / 2);
        }
        Corrupt::Crc(j) => {
            let p = offs[j] + size(j) - 8;
            bytes[p] ^= 0x5a;
        }
        Corrupt::Deflate(j) => {
            // break the deflate stream: reserved block type 11
            let p = offs[j] + 18;
            bytes[p] = 0x07;
        }
        Corrupt::Magic(j) => {
            bytes[offs[j]] = 0x00;
        }
        Corrupt::TruncateIn(j) => {
            let p = offs[j] + size(j) / 2;
            bytes.truncate(p);
        }
    }
    RFile {
        sizes: blocks.to_vec(),
        name: format!("blocks={blocks:?} eof={eof} corrupt={corrupt:?}"),
        bytes: Arc::new(bytes),
        offs,
        n_blocks: blocks.len(),
        io_error_at,
        interrupt_at,
        payload: flat,
    }
}

#[derive(Debug, PartialEq, Clone)]
enum RObs {
    Bytes(Vec<u8>, u64),
    Err(io::ErrorKind),
    Finished(bool),
}

fn vpos_of(file: &RFile, b: usize, o: usize) -> bgzf::VirtualPosition {
    let c = if b < file.offs.len() { file.offs[b] } else { file.bytes.len() };
    bgzf::VirtualPosition::try_from((c as u64, o as u16)).unwrap()
}

fn run_script_sync(file: &RFile, script: &[ROp]) -> Vec<RObs> {
    use bgzf::io::Seek as _;
    let mut r = bgzf::io::Reader::new(Src { cur: Cursor::new((*file.bytes).clone()), fail_at: file.io_error_at, interrupt_at: file.interrupt_at });
    let mut out = Vec::new();
    for op in script {
        let o = match *op {
            ROp::ReadToEnd => {
                let mut v = Vec::new();
                match r.read_to_end(&mut v) {
                    Ok(_) => RObs::Bytes(v, u64::from(r.virtual_position())),
                    Err(e) => RObs::Err(e.kind()),
                }
            }
            ROp::Read(n) => {
                let mut v = vec![0; n];
                match r.read(&mut v) {
                    Ok(k) => {
                        v.truncate(k);
                        RObs::Bytes(v, u64::from(r.virtual_position()))
                    }
                    Err(e) => RObs::Err(e.kind()),
                }
            }
            ROp::ReadExact(n) => {
                let mut v = vec![0; n];
                match r.read_exact(&mut v) {
                    Ok(()) => RObs::Bytes(v, u64::from(r.virtual_position())),
                    Err(e) => RObs::Err(e.kind()),
                }
            }
            ROp::FillConsume(n) => match r.fill_buf() {
                Ok(b) => {
                    let k = n.min(b.len());
                    let v = b[..k].to_vec();
                    r.consume(k);
                    RObs::Bytes(v, u64::from(r.virtual_position()))
                }
                Err(e) => RObs::Err(e.kind()),
            },
            ROp::Seek(b, o) => match r.seek_to_virtual_position(vpos_of(file, b, o)) {
                Ok(_) => RObs::Bytes(Vec::new(), u64::from(r.virtual_position())),
                Err(e) => RObs::Err(e.kind()),
            },
            ROp::SeekIndex(off) => match r.seek_with_index(&gzi_of(&file.offs, &file.sizes), io::SeekFrom::Start(off)) {
                Ok(_) => RObs::Bytes(Vec::new(), u64::from(r.virtual_position())),
                Err(e) => RObs::Err(e.kind()),
            },
            ROp::Finish => RObs::Finished(true),
        };
        let stop = matches!(o, RObs::Err(_));
        out.push(o);
        if stop {
            break;
        }
    }
    out
}

struct RCase {
    file: RFile,
    script: Vec<ROp>,
    expect: Vec<RObs>,
    /// flat payload and member table for resolving virtual positions
    flat_starts: Vec<(u64, u64, u64)>, // (compressed offset, flat start, len)
    total: u64,
}

fn resolve(case: &RCase, v: u64) -> Option<u64> {
    let c = v >> 16;
    let u = v & 0xffff;
    if c == case.file.bytes.len() as u64 && u == 0 {
        return Some(case.total);
    }
    for (i, &(co, fs, len)) in case.flat_starts.iter().enumerate() {
        if co == c {
            if u < len {
                return Some(fs + u);
            }
            if u == len {
                return Some(fs + len);
            }
            let _ = i;
            return None;
        }
    }
    None
}

fn reader_body(ch: &Chooser, cases: &[RCase], pools: &[usize], cost: CostModel, drop_end: bool) -> Outcome {
    use bgzf::io::Seek as _;
    let case = ch.pick_free("case", cases);
    let pool = *ch.pick_free("pool", pools);
    let end_with_finish = if drop_end { ch.free("end", 2) == 0 } else { true };
    let describe = || format!("reader file[{}] script={:?} pool={pool} end={}", case.file.name, case.script, if end_with_finish { "finish" } else { "drop" });

    let bytes = (*case.file.bytes).clone();
    let script = case.script.clone();
    let n_blocks = case.file.n_blocks;
    let offs = case.file.offs.clone();
    let flen = case.file.bytes.len();
    let fail_at = case.file.io_error_at;
    let interrupt_at = case.file.interrupt_at;
    let gzi = gzi_of(&case.file.offs, &case.file.sizes);
    let caught = vmc::catch(|| vrt::run(ch, RtConfig::new(pool, cost), move || {
        let vp = |b: usize, o: usize| {
            let c = if b < offs.len() { offs[b] } else { flen };
            bgzf::VirtualPosition::try_from((c as u64, o as u16)).unwrap()
        };
        let _ = n_blocks;
        // ManuallyDrop: see the writer body
        let mut r = std::mem::ManuallyDrop::new(bgzf::io::MultithreadedReader::new(Src { cur: Cursor::new(bytes), fail_at, interrupt_at }));
        let mut out = Vec::new();
        let mut finish_result: Option<Result<(), io::ErrorKind>> = None;
        for op in &script {
            let o = match *op {
                ROp::ReadToEnd => {
                    let mut v = Vec::new();
                    match r.read_to_end(&mut v) {
                        Ok(_) => RObs::Bytes(v, u64::from(r.virtual_position())),
                        Err(e) => RObs::Err(e.kind()),
                    }
                }
                ROp::Read(n) => {
                    let mut v = vec![0; n];
                    match r.read(&mut v) {
                        Ok(k) => {
                            v.truncate(k);
                            RObs::Bytes(v, u64::from(r.virtual_position()))
                        }
                        Err(e) => RObs::Err(e.kind()),
                    }
                }
                ROp::ReadExact(n) => {
                    let mut v = vec![0; n];
                    match r.read_exact(&mut v) {
                        Ok(()) => RObs::Bytes(v, u64::from(r.virtual_position())),
                        Err(e) => RObs::Err(e.kind()),
                    }
                }
                ROp::FillConsume(n) => match r.fill_buf() {
                    Ok(b) => {
                        let k = n.min(b.len());
                        let v = b[..k].to_vec();
                        r.consume(k);
                        RObs::Bytes(v, u64::from(r.virtual_position()))
                    }
                    Err(e) => RObs::Err(e.kind()),
                },
                ROp::Seek(b, o) => match r.seek_to_virtual_position(vp(b, o)) {
                    Ok(_) => RObs::Bytes(Vec::new(), u64::from(r.virtual_position())),
                    Err(e) => RObs::Err(e.kind()),
                },
                ROp::SeekIndex(off) => match r.seek_with_index(&gzi, io::SeekFrom::Start(off)) {
                    Ok(_) => RObs::Bytes(Vec::new(), u64::from(r.virtual_position())),
                    Err(e) => RObs::Err(e.kind()),
                },
                ROp::Finish => {
                    let fr = r.finish().map(|_| ()).map_err(|e| e.kind());
                    let ok = fr.is_ok();
                    finish_result = Some(fr);
                    out.push(RObs::Finished(ok));
                    break;
                }
            };
            let stop = matches!(o, RObs::Err(_));
            out.push(o);
            if stop {
                break;
            }
        }
        if finish_result.is_none() && end_with_finish {
            finish_result = Some(r.finish().map(|_| ()).map_err(|e| e.kind()));
        }
        drop(std::mem::ManuallyDrop::into_inner(r));
        (out, finish_result)
    }));
    let (obs, info) = match caught {
        Ok(x) => x,
        Err((msg, file)) => {
            return Err(Violation::new(
                format!("reader outcome=panic msg={} file={}", vmc::normalise_msg(&msg), file),
                describe(),
                "no panic",
                format!("panic: {msg} in {file}"),
            ));
        }
    };

    ch.obs(info.schedule_string());
    ch.steps(info.steps as u64);
    if info.spawned_pool_tasks >= 2 {
        ch.tag("two-or-more-inflate-tasks");
    }
    check_info(&info, &describe)?;
    let Some((obs, finish_result)) = obs else {
        return Err(Violation::new("outcome=aborted-without-cause", describe(), "body completes", "unwound"));
    };
    ch.obs(format!("{obs:?}"));

    // compare with the single-threaded reader, call by call
    let expect = &case.expect;
    let corrupt = !case.file.name.ends_with("corrupt=None");
    for (i, e) in expect.iter().enumerate() {
        let Some(o) = obs.get(i) else {
            return Err(Violation::new("reader symptom=fewer-observations", describe(), format!("{expect:?}"), format!("{obs:?}")));
        };
        let opname = format!("{:?}", case.script[i]);
        let opname = opname.split('(').next().unwrap_or("").to_string();
        match (e, o) {
            (RObs::Bytes(eb, ev), RObs::Bytes(ob_, ov)) => {
                if eb != ob_ {
                    return Err(Violation::new(
                        format!("reader op={opname} corrupt={corrupt} symptom=bytes-differ-from-single-threaded"),
                        format!("{} schedule: {}", describe(), info.schedule_string()),
                        format!("call {i}: {} bytes {}", eb.len(), vmc::hex(eb)),
                        format!("call {i}: {} bytes {}", ob_.len(), vmc::hex(ob_)),
                    ));
                }
                if ev != ov {
                    // accept an equivalent encoding of the same byte boundary
                    let (re, ro) = (resolve(case, *ev), resolve(case, *ov));
                    if re.is_none() || re != ro {
                        return Err(Violation::new(
                            format!("reader op={opname} corrupt={corrupt} symptom=virtual-position-differs"),
                            format!("{} schedule: {}", describe(), info.schedule_string()),
                            format!("call {i}: vpos {}:{} (byte {:?})", ev >> 16, ev & 0xffff, re),
                            format!("call {i}: vpos {}:{} (byte {:?})", ov >> 16, ov & 0xffff, ro),
                        ));
                    }
                    ch.tag("vpos-equivalent-encoding-differs");
                }
            }
            (RObs::Err(_), RObs::Err(_)) => {
                ch.tag("error-surfaced-at-same-call");
            }
            (RObs::Err(ek), RObs::Bytes(ob_, _)) => {
                // the single-threaded reader fails here; the multithreaded one may report the error
                // from a later call (finish), but must not deliver bytes the single-threaded reader
                // did not deliver
                let later_err = obs[i + 1..].iter().any(|x| matches!(x, RObs::Err(_) | RObs::Finished(false)))
                    || matches!(finish_result, Some(Err(_)));
                if case.script[i] == ROp::ReadToEnd && !case.file.payload.starts_with(ob_) && !case.script[..i].iter().any(|o| matches!(o, ROp::Seek(..) | ROp::SeekIndex(_) | ROp::Read(_) | ROp::ReadExact(_) | ROp::FillConsume(_))) {
                    return Err(Violation::new(
                        format!("reader op={opname} corrupt={corrupt} symptom=bytes-not-a-prefix-of-valid-data"),
                        format!("{} schedule: {}", describe(), info.schedule_string()),
                        "a prefix of the payload before the bad block",
                        format!("{} bytes {}", ob_.len(), vmc::hex(ob_)),
                    ));
                }
                if !ob_.is_empty() && case.script[i] != ROp::ReadToEnd {
                    return Err(Violation::new(
                        format!("reader op={opname} corrupt={corrupt} symptom=data-delivered-where-single-threaded-fails"),
                        format!("{} schedule: {}", describe(), info.schedule_string()),
                        format!("call {i}: Err({ek:?})"),
                        format!("call {i}: {} bytes", ob_.len()),
                    ));
                }
                // without a finish() call there is no later call the error could come from
                if !later_err && finish_result.is_some() {
                    return Err(Violation::new(
                        format!("reader op={opname} corrupt={corrupt} symptom=error-lost"),
                        format!("{} schedule: {}", describe(), info.schedule_string()),
                        format!("call {i}: Err({ek:?}) or an Err from a later call/finish()"),
                        format!("{obs:?} finish={finish_result:?}"),
                    ));
                }
                ch.tag("error-surfaced-later");
                break;
            }
            (RObs::Finished(_), RObs::Finished(ok)) => {
                if !*ok && !corrupt {
                    return Err(Violation::new("reader op=finish symptom=finish-error", describe(), "Ok", format!("{finish_result:?}")));
                }
            }
            (e, o) => {
                return Err(Violation::new(
                    format!("reader op={opname} corrupt={corrupt} symptom=outcome-kind-differs"),
                    format!("{} schedule: {}", describe(), info.schedule_string()),
                    format!("call {i}: {e:?}"),
                    format!("call {i}: {o:?}"),
                ));
            }
        }
    }
    if !corrupt {
        if let Some(Err(k)) = finish_result {
            return Err(Violation::new("reader op=finish symptom=finish-error", describe(), "Ok", format!("Err({k:?})")));
        }
    }
    Ok(())
}

fn make_case(blocks: &[usize], eof: bool, corrupt: Corrupt, script: Vec<ROp>) -> RCase {
    let file = build_file(blocks, eof, corrupt);
    let expect = run_script_sync(&file, &script);
    let mut flat_starts = Vec::new();
    let mut fs = 0u64;
    for (i, &n) in blocks.iter().enumerate() {
        flat_starts.push((file.offs[i] as u64, fs, n as u64));
        fs += n as u64;
    }
    if eof {
        flat_starts.push(((file.bytes.len() - 28) as u64, fs, 0));
    }
    RCase { file, script, expect, flat_starts, total: fs }
}

fn main() {
    vmc::run("C03", "model_checking", |ctx| {
        use WOp::*;
        ctx.rule("every schedule of {caller, writer/reader thread, pool tasks} within the stated preemption/delay bound x pool size x script x sink-fault position x corrupt block; distinct = distinct (schedule, observation) logs");
        ctx.assume("the model channel/pool/thread primitives of noodles_bgzf::verif behave like crossbeam-channel, rayon::spawn and std::thread (bound by the conformance harness and the free-running pass)");
        ctx.assume("scheduling points are whole channel operations, spawns, joins and channel-end drops; the code under test has no other shared state (no unsafe, atomics or locks)");

        let mkp = |name: &'static str, payload: Payload, ops: Vec<WOp>| WScript { name, reference: reference_bytes(&ops, payload), ops, payload };
        let mk = |name: &'static str, ops: Vec<WOp>| mkp(name, Payload::Zeros, ops);
        let scripts_q = vec![
            mk("3-flushes", vec![W(5), F, W(5), F, W(1)]),
            mk("staging-full", vec![W(65496), W(5)]),
            mk("one-block", vec![W(5)]),
            mk("empty", vec![]),
            // a write that ends exactly where the staging buffer is full, then more
            mk("exact-fill-then-more", vec![W(65495), W(5)]),
            // a large write arriving while a few bytes are staged (no flush in between)
            mk("small-then-large", vec![W(11), W(65495 + 3515)]),
        ];
        let pools = [2usize, 1, 3];
        // finish() called again after an error: also directly after a failed flush with nothing staged
        let scripts_fae = vec![
            mk("3-flushes", vec![W(5), F, W(5), F, W(1)]),
            mk("staging-full", vec![W(65496), W(5)]),
            mk("flush-last", vec![W(5), F, W(5), F]),
        ];

        // W1: schedules without faults, preemption bound 2 (quick) / 3 (thorough)
        let wb = ctx.by_tier(2, 3);
        ctx.harness(Config::new("writer_schedules", wb), |ch| {
            writer_body(ch, &scripts_q, &pools, &[WEnd::Finish, WEnd::Drop], false, CostModel::Preempt)
        });
        // W2: sink faults (each fault costs one deviation) + preemptions, shared budget
        let fb = ctx.by_tier(2, 3);
        ctx.harness(Config::new("writer_faults", fb), |ch| {
            ALL_KINDS.with(|k| k.set(false));
            writer_body(ch, &scripts_q[..3], &pools[..2], &[WEnd::Finish, WEnd::Drop], true, CostModel::Preempt)
        });
        // W2b: any ErrorKind (Other / WouldBlock / TimedOut) x sink stays broken or recovers
        ctx.harness(Config::new("writer_faults_kinds", ctx.by_tier(1, 2)), |ch| {
            ALL_KINDS.with(|k| k.set(true));
            let r = writer_body(ch, &scripts_q[..3], &pools[..2], &[WEnd::Finish], true, CostModel::Preempt);
            ALL_KINDS.with(|k| k.set(false));
            r
        });
        // W3: keep calling finish() after an error was already returned (D6 family)
        ctx.harness(Config::new("writer_finish_after_error", ctx.by_tier(2, 3)), |ch| {
            ALL_KINDS.with(|k| k.set(false));
            writer_body(ch, &scripts_fae, &pools[..2], &[WEnd::FinishAfterError], true, CostModel::Preempt)
        });
        // W1b: the largest pool size the statement names (window = 16 tickets): nothing may depend on it
        ctx.harness(Config::new("writer_pool16", ctx.by_tier(1, 2)), |ch| {
            writer_body(ch, &scripts_q[..2], &[16, 8], &[WEnd::Finish], false, CostModel::Preempt)
        });
        // W1c: block boundaries are a function of the write sequence alone: a write that leaves the staging
        // buffer 2, 1, 0 bytes short of full / exactly full / 1 over, reached by one call or by two, then more data
        // (the single-threaded writer cuts at 65495 staged bytes; cutting anywhere else changes the file and every
        // later virtual position although the payload still round-trips)
        {
            let mut scripts_b: Vec<WScript> = Vec::new();
            for k in [65493usize, 65494, 65495, 65496, 65497] {
                let n1: &'static str = Box::leak(format!("one-write-{k}-then-5").into_boxed_str());
                scripts_b.push(mk(n1, vec![W(k), W(5)]));
                let n2: &'static str = Box::leak(format!("2-plus-{}-then-5", k - 2).into_boxed_str());
                scripts_b.push(mk(n2, vec![W(2), W(k - 2), W(5)]));
                let n3: &'static str = Box::leak(format!("one-write-{k}-flush-3").into_boxed_str());
                scripts_b.push(mk(n3, vec![W(k), F, W(3)]));
            }
            ctx.harness(Config::new("writer_staging_boundaries", ctx.by_tier(0, 1)), |ch| {
                writer_body(ch, &scripts_b, &[2], &[WEnd::Finish], false, CostModel::Preempt)
            });
        }
        // W4: short-write / Interrupted sinks (C14's short-write clause for the multithreaded writer)
        ctx.harness(Config::new("writer_short_sinks", ctx.by_tier(1, 2)), |ch| {
            writer_body_with(ch, &scripts_q[..3], &pools[..2], &[WEnd::Finish, WEnd::Drop], false, CostModel::Preempt, &[SinkMode::OneByte, SinkMode::Half, SinkMode::Alternating])
        });
        // W5: per-thread state in the compression path. The pool is modelled as long-lived workers (a
        // starting task may land on any idle one), the first block is incompressible (level-0 fallback),
        // the rest compresses well: the file must not depend on which worker compressed which block.
        {
            let scripts_m = vec![
                mkp("incompressible-then-zeros", Payload::RandomBlockThenZeros, vec![W(65495), W(70000)]),
                mkp("incompressible-flush-zeros", Payload::RandomBlockThenZeros, vec![W(65495), F, W(10), F, W(10)]),
                mkp("random-2-blocks", Payload::Random, vec![W(65495 + 100)]),
            ];
            // the single-threaded writer's own output must be a function of the script alone
            let hist: Vec<&WScript> = scripts_m.iter().chain(scripts_q.iter()).collect();
            let names: Vec<String> = hist.iter().map(|s| format!("script={} ops={:?}", s.name, s.ops)).collect();
            ctx.sweep("single_threaded_output_history", hist.len() as u64, |i| names[i as usize].clone(), |i| {
                let sc = hist[i as usize];
                let (ops, payload) = (sc.ops.clone(), sc.payload);
                let dirty = std::thread::spawn(move || {
                    let _ = reference_bytes_here(&[W(65495)], Payload::Random);
                    let _ = reference_bytes_here(&[W(100)], Payload::Zeros);
                    reference_bytes_here(&ops, payload)
                })
                .join()
                .expect("writer thread");
                if dirty != sc.reference {
                    return Err(Violation::new(
                        "writer symptom=single-threaded-output-depends-on-thread-history",
                        format!("script={} ops={:?} after writing an incompressible file on the same thread", sc.name, sc.ops),
                        "same bytes as on a brand-new thread",
                        vmc::diff_bytes(&sc.reference, &dirty),
                    ));
                }
                Ok(())
            });
            let quick = !ctx.thorough();
            ctx.harness(Config::new("writer_sticky_workers", ctx.by_tier(1, 2)), |ch| {
                STICKY.with(|k| k.set(true));
                let (sm, pl): (&[WScript], &[usize]) = if quick { (&scripts_m[..2], &[2, 3]) } else { (&scripts_m, &[2, 3, 1]) };
                let r = writer_body(ch, sm, pl, &[WEnd::Finish], false, CostModel::Preempt);
                STICKY.with(|k| k.set(false));
                r
            });
        }
        if ctx.thorough() {
            let scripts_t = vec![
                mk("4-flushes", vec![W(5), F, W(5), F, W(1), F, W(2)]),
                mk("two-staging-full", vec![W(65495 * 2 + 1)]),
            ];
            ctx.harness(Config::new("writer_schedules_4blocks", 2), |ch| {
                writer_body(ch, &scripts_t, &pools, &[WEnd::Finish], false, CostModel::Preempt)
            });
        }

        // reader cases
        use ROp::*;
        let mut cases = Vec::new();
        let layouts: Vec<(Vec<usize>, bool)> = vec![
            (vec![3, 5, 2], true),
            (vec![3, 0, 4], true),
            (vec![4, 2], false),
            (vec![], true),
        ];
        for (blocks, eof) in &layouts {
            cases.push(make_case(blocks, *eof, Corrupt::None, vec![ReadToEnd]));
        }
        cases.push(make_case(&[3, 5, 2], true, Corrupt::None, vec![Read(2), Read(2), ReadExact(4), Read(100), Read(100)]));
        cases.push(make_case(&[3, 5, 2], true, Corrupt::None, vec![FillConsume(1), FillConsume(100), ReadExact(3), ReadToEnd]));
        cases.push(make_case(&[3, 5, 2], true, Corrupt::None, vec![Read(2), Seek(1, 2), ReadToEnd]));
        cases.push(make_case(&[3, 5, 2], true, Corrupt::None, vec![ReadToEnd, Seek(0, 1), Read(1), Seek(2, 0), ReadToEnd]));
        cases.push(make_case(&[3, 0, 4], true, Corrupt::None, vec![Read(1), Seek(1, 0), Read(2), Finish]));
        cases.push(make_case(&[3, 5, 2], true, Corrupt::None, vec![Read(1), Finish]));
        // seek to the end-of-stream position (file length) and to the EOF marker block
        cases.push(make_case(&[3, 5, 2], true, Corrupt::None, vec![Read(2), Seek(4, 0), Read(4), Seek(1, 1), Read(2)]));
        cases.push(make_case(&[3, 5], false, Corrupt::None, vec![ReadToEnd, Seek(2, 0), Read(4), Seek(0, 2), ReadToEnd]));
        cases.push(make_case(&[3, 5, 2], true, Corrupt::None, vec![Read(2), Seek(3, 0), Read(4)]));
        // seeks by uncompressed offset through a gzi: mid-block, first byte of a block, end, back
        cases.push(make_case(&[3, 5, 2], true, Corrupt::None, vec![Read(1), SeekIndex(4), Read(2), SeekIndex(3), Read(9), SeekIndex(10), Read(1), SeekIndex(0), ReadToEnd]));
        cases.push(make_case(&[3, 0, 4], false, Corrupt::None, vec![SeekIndex(3), Read(2), SeekIndex(7), Read(1), SeekIndex(2), ReadToEnd]));
        // more empty members in a row than the reader has buffers (pool + 2), then data (concatenated streams)
        cases.push(make_case(&[3, 0, 0, 0, 0, 0, 0, 4], true, Corrupt::None, vec![ReadToEnd]));
        cases.push(make_case(&[3, 0, 0, 0, 0, 0, 0, 4, 0, 0, 0, 0, 0, 0, 2], true, Corrupt::None, vec![ReadExact(4), ReadExact(4), Read(3), Finish]));
        // read_exact across blocks that asks for more than the stream holds (with and without the EOF
        // marker): UnexpectedEof like the single-threaded reader, never a short Ok
        cases.push(make_case(&[3, 5, 2], true, Corrupt::None, vec![ReadExact(2), ReadExact(9), Read(1)]));
        // a read_exact that starts mid-block and spans three short blocks, all of it present
        cases.push(make_case(&[3, 5, 2], true, Corrupt::None, vec![ReadExact(2), ReadExact(8), Read(1)]));
        cases.push(make_case(&[3, 1, 1, 4], true, Corrupt::None, vec![ReadExact(1), ReadExact(7), ReadExact(1)]));
        cases.push(make_case(&[3, 5], false, Corrupt::None, vec![ReadExact(4), ReadExact(5), Read(1)]));
        // a member with the largest uncompressed size the format allows (65536 bytes; other tools write it,
        // noodles' writers stage at most 65495): seeks into it, to its last byte and past it
        cases.push(make_case(&[65536, 5], true, Corrupt::None, vec![Read(3), Seek(0, 100), Read(4), Seek(0, 65535), Read(3), Seek(1, 2), ReadToEnd]));
        if ctx.thorough() {
            cases.push(make_case(&[4, 65536], true, Corrupt::None, vec![SeekIndex(4 + 65535), Read(2), SeekIndex(300), Read(2), Seek(1, 40000), Read(1)]));
        }
        let n_plain = cases.len();
        for c in [Corrupt::Crc(1), Corrupt::Deflate(1), Corrupt::Magic(1), Corrupt::Crc(0), Corrupt::Magic(2)] {
            cases.push(make_case(&[3, 5, 2], true, c, vec![ReadToEnd]));
            cases.push(make_case(&[3, 5, 2], true, c, vec![Read(3), Read(3), Read(3), Read(3)]));
        }
        cases.push(make_case(&[3, 5, 2], true, Corrupt::Crc(2), vec![Read(2), Seek(1, 1), ReadToEnd]));
        // a spurious Interrupted on the first read of a block header (also the first block, the block a
        // seek lands on, and the EOF marker) changes nothing
        for j in [0usize, 1, 2, 3] {
            cases.push(make_case(&[3, 5, 2], true, Corrupt::InterruptedAt(j), vec![ReadToEnd]));
        }
        cases.push(make_case(&[3, 5, 2], true, Corrupt::InterruptedAt(1), vec![Read(2), Seek(1, 2), ReadToEnd]));
        cases.push(make_case(&[3, 5, 2], true, Corrupt::InterruptedAt(2), vec![ReadExact(4), ReadExact(5), Finish]));
        for c in [Corrupt::TruncateIn(1), Corrupt::IoErrorIn(1), Corrupt::IoErrorIn(0)] {
            cases.push(make_case(&[3, 5, 2], true, c, vec![ReadToEnd]));
            cases.push(make_case(&[3, 5, 2], true, c, vec![Read(3), Read(3), Read(3), Finish]));
        }
        let rpools = [1usize, 2];
        let rb = ctx.by_tier(2, 3);
        ctx.harness(Config::new("reader_delay", rb), |ch| {
            reader_body(ch, &cases, &rpools, CostModel::Delay, true)
        });
        ctx.harness(Config::new("reader_pool16", ctx.by_tier(1, 2)), |ch| {
            reader_body(ch, &cases[..7], &[16], CostModel::Delay, false)
        });
        // every completion order of the in-flight window: preemption bounding on the smallest files
        let small: Vec<RCase> = vec![
            make_case(&[3, 2], true, Corrupt::None, vec![ReadToEnd]),
            make_case(&[3, 2], true, Corrupt::None, vec![Read(1), Seek(1, 1), ReadToEnd]),
            make_case(&[3, 2], true, Corrupt::Crc(1), vec![ReadToEnd]),
        ];
        ctx.harness(Config::new("reader_preempt_small", ctx.by_tier(0, 1)), |ch| {
            reader_body(ch, &small, &rpools, CostModel::Preempt, false)
        });
        let _ = n_plain;
        conformance::run(ctx);
        freerun::run(ctx);
    });
}
