//! Free-running completion-order pass on the REAL crates (no runtime installed, the shim forwards to
//! crossbeam-channel / rayon / std::thread): the `gate` hook holds every pool task at its start and
//! the harness releases them in every permutation. Exhaustive over completion orders of the in-flight
//! window, not over finer interleavings; a cross-check that the model-runtime verdict transfers to the
//! real primitives. Non-deciding.

use std::{
    io::{Cursor, Read, Write},
    sync::{Arc, Condvar, Mutex},
    time::{Duration, Instant},
};

use noodles_bgzf as bgzf;
use vmc::{Ctx, Violation, oracle::bgzf as ob};

#[derive(Default)]
struct GateState {
    arrived: usize,
    released: Vec<usize>,
}

struct Gate {
    st: Mutex<GateState>,
    cv: Condvar,
}

impl Gate {
    fn install() -> Arc<Gate> {
        let g = Arc::new(Gate { st: Mutex::new(GateState::default()), cv: Condvar::new() });
        let g2 = g.clone();
        bgzf::verif::set_gate(Some(Arc::new(move |_kind| {
            let mut st = g2.st.lock().unwrap();
            let me = st.arrived;
            st.arrived += 1;
            g2.cv.notify_all();
            let deadline = Instant::now() + Duration::from_secs(5);
            while !st.released.contains(&me) {
                let (s, t) = g2.cv.wait_timeout(st, Duration::from_millis(50)).unwrap();
                st = s;
                if t.timed_out() && Instant::now() > deadline {
                    break; // never hold a task for ever
                }
            }
        })));
        g
    }
    fn wait_arrived(&self, n: usize) -> bool {
        let deadline = Instant::now() + Duration::from_secs(5);
        let mut st = self.st.lock().unwrap();
        while st.arrived < n {
            let (s, _) = self.cv.wait_timeout(st, Duration::from_millis(20)).unwrap();
            st = s;
            if Instant::now() > deadline {
                return false;
            }
        }
        true
    }
    fn release(&self, i: usize) {
        self.st.lock().unwrap().released.push(i);
        self.cv.notify_all();
    }
}

fn permutations(n: usize) -> Vec<Vec<usize>> {
    fn rec(cur: &mut Vec<usize>, used: &mut Vec<bool>, out: &mut Vec<Vec<usize>>) {
        if cur.len() == used.len() {
            out.push(cur.clone());
            return;
        }
        for i in 0..used.len() {
            if !used[i] {
                used[i] = true;
                cur.push(i);
                rec(cur, used, out);
                cur.pop();
                used[i] = false;
            }
        }
    }
    let mut out = Vec::new();
    rec(&mut Vec::new(), &mut vec![false; n], &mut out);
    out
}

pub fn run(ctx: &mut Ctx) {
    if ctx.is_replay() {
        return;
    }
    let t0 = Instant::now();
    let mut runs = 0u64;
    let mut found = Vec::new();
    let mut distinct = std::collections::BTreeSet::new();
    let max_b = ctx.by_tier(3, 4);

    // writer: B blocks, every completion order
    for b in 1..=max_b {
        let payloads: Vec<Vec<u8>> = (0..b).map(|i| ob::payload(ob::Payload::Text, i as u64 * 100, 5 + i)).collect();
        let mut sw = bgzf::io::Writer::new(Vec::new());
        for p in &payloads {
            sw.write_all(p).unwrap();
            sw.flush().unwrap();
        }
        let reference = sw.finish().unwrap();
        for perm in permutations(b) {
            let gate = Gate::install();
            let mut w = bgzf::io::MultithreadedWriter::new(Vec::new());
            let mut ok = true;
            for (i, p) in payloads.iter().enumerate() {
                w.write_all(p).unwrap();
                w.flush().unwrap();
                ok &= gate.wait_arrived(i + 1);
            }
            for &i in &perm {
                gate.release(i);
                std::thread::sleep(Duration::from_micros(300));
            }
            let out = w.finish();
            bgzf::verif::set_gate(None);
            runs += 1;
            distinct.insert(format!("w{perm:?}"));
            if !ok {
                vmc::machinery("free-running pass: a deflate task never reached the gate");
            }
            match out {
                Ok(bytes) if bytes == reference => {}
                other => found.push((
                    Violation::new(
                        "freerun writer symptom=bytes-differ-from-single-threaded",
                        format!("real rayon pool, {b} blocks, completion order {perm:?}"),
                        format!("{} bytes identical to bgzf::io::Writer", reference.len()),
                        format!("{:?}", other.map(|b| b.len())),
                    ),
                    vmc::json!({"blocks": b, "perm": perm}),
                    1,
                )),
            }
        }
    }

    // reader: B data blocks + EOF block, every completion order of the inflate tasks
    for b in 1..=max_b.min(3) {
        let payloads: Vec<Vec<u8>> = (0..b).map(|i| ob::payload(ob::Payload::Text, i as u64 * 100, 3 + i)).collect();
        let (file, _) = ob::make_file(&payloads, true, 6);
        let flat: Vec<u8> = payloads.concat();
        let n_tasks = b + 1;
        for perm in permutations(n_tasks) {
            let gate = Gate::install();
            let g2 = gate.clone();
            let p2 = perm.clone();
            let controller = std::thread::spawn(move || {
                let ok = g2.wait_arrived(p2.len());
                for &i in &p2 {
                    g2.release(i);
                    std::thread::sleep(Duration::from_micros(300));
                }
                ok
            });
            let mut r = bgzf::io::MultithreadedReader::new(Cursor::new(file.clone()));
            let mut got = Vec::new();
            let res = r.read_to_end(&mut got);
            let vpos = u64::from(r.virtual_position());
            let fin = r.finish().map(|_| ());
            let ok = controller.join().unwrap();
            bgzf::verif::set_gate(None);
            runs += 1;
            distinct.insert(format!("r{perm:?}"));
            if !ok {
                vmc::machinery("free-running pass: an inflate task never reached the gate");
            }
            let mut sr = bgzf::io::Reader::new(Cursor::new(file.clone()));
            let mut want = Vec::new();
            sr.read_to_end(&mut want).unwrap();
            let want_vpos = u64::from(sr.virtual_position());
            if res.is_err() || got != flat || got != want || fin.is_err() || (vpos != want_vpos && (vpos >> 16) != (file.len() as u64 - 28) && (vpos >> 16) != file.len() as u64) {
                found.push((
                    Violation::new(
                        "freerun reader symptom=differs-from-single-threaded",
                        format!("real rayon pool, {b} blocks + EOF, inflate completion order {perm:?}"),
                        format!("{} bytes, vpos {want_vpos:#x}", want.len()),
                        format!("{res:?} {} bytes vpos {vpos:#x} finish {fin:?}", got.len()),
                    ),
                    vmc::json!({"blocks": b, "perm": perm}),
                    1,
                ));
            }
        }
    }

    let mut c = vmc::Custom {
        name: "freerun_completion_orders_real_rayon".into(),
        evaluations: runs,
        distinct: distinct.len() as u64,
        states: distinct.len() as u64,
        transitions: runs,
        exhaustive: true,
        non_deciding: true,
        wall_s: t0.elapsed().as_secs_f64(),
        found,
        ..Default::default()
    };
    c.samples.push("writer 3 blocks, completion order [2, 0, 1] on the real rayon pool".into());
    c.extra.insert("note".into(), vmc::json!("every permutation of the in-flight window on real crossbeam/rayon/std::thread via the gate hook; complete over completion orders, not over finer interleavings"));
    ctx.custom(c);
}
