//! gdocs: small deterministic documents (values, not bytes) shared by C14 and C20, and
//! data-model-level renderings ("keys") used to compare what was read with what was written.
//!
//! Nothing here writes a file; the checks own the writers. The keys are rendered by code in this
//! crate from the public accessors of the value types, not by a noodles writer.

pub mod aln;
pub mod misc;
pub mod var;

/// First differing line of two rendered logs (for `observed`).
pub fn first_diff(expected: &[String], got: &[String]) -> String {
    for (i, (a, b)) in expected.iter().zip(got.iter()).enumerate() {
        if a != b {
            return format!("entry {i}: expected `{a}` got `{b}`");
        }
    }
    if expected.len() != got.len() {
        let extra = if got.len() > expected.len() {
            format!("first extra: `{}`", got[expected.len()])
        } else {
            format!("first missing: `{}`", expected[got.len()])
        };
        return format!("{} entries expected, {} read; {extra}", expected.len(), got.len());
    }
    "equal".into()
}
