//! Alignment documents: a SAM header plus 0..3 records over two tiny reference sequences.

use std::{fmt::Write as _, io};

use noodles_core::Position;
use noodles_fasta as fasta;
use noodles_sam::{
    self as sam,
    alignment::{
        Record, RecordBuf,
        record::{
            Flags, MappingQuality,
            cigar::{Op, op::Kind},
            data::field::Tag,
        },
        record_buf::{
            Cigar, Data, QualityScores, Sequence,
            data::field::{Value, value::Array},
        },
    },
};

#[derive(Clone, Debug)]
pub struct AlnDoc {
    pub name: &'static str,
    pub header: sam::Header,
    pub records: Vec<RecordBuf>,
}

fn ref_bases(seed: u64, len: usize) -> Vec<u8> {
    // deterministic, non-periodic enough that every 8-mer placement is distinguishable
    let mut x = seed;
    (0..len)
        .map(|_| {
            x = x.wrapping_mul(6364136223846793005).wrapping_add(1442695040888963407);
            b"ACGT"[((x >> 33) % 4) as usize]
        })
        .collect()
}

pub fn sq0() -> Vec<u8> {
    ref_bases(1, 50)
}

pub fn sq1() -> Vec<u8> {
    ref_bases(2, 40)
}

pub fn reference_records() -> Vec<fasta::Record> {
    use fasta::record::{Definition, Sequence};
    vec![
        fasta::Record::new(Definition::new("sq0", None), Sequence::from(sq0())),
        fasta::Record::new(Definition::new("sq1", None), Sequence::from(sq1())),
        fasta::Record::new(Definition::new("sqL", None), Sequence::from(sq_long())),
    ]
}

pub fn repository() -> fasta::Repository {
    fasta::Repository::new(reference_records())
}

pub fn md5_hex(bytes: &[u8]) -> String {
    use md5::{Digest, Md5};
    let mut h = Md5::new();
    h.update(bytes);
    let d = h.finalize();
    let mut s = String::new();
    for b in d.iter() {
        let _ = write!(s, "{b:02x}");
    }
    s
}

pub fn header_text() -> String {
    format!(
        "@HD\tVN:1.6\tSO:coordinate\n@SQ\tSN:sq0\tLN:50\tM5:{}\n@SQ\tSN:sq1\tLN:40\tM5:{}\n@RG\tID:rg0\tSM:s0\n@PG\tID:pg0\tPN:vmc\n@CO\tvmc document\n",
        md5_hex(&sq0()),
        md5_hex(&sq1())
    )
}

pub fn header_full() -> sam::Header {
    header_text().parse().expect("gdocs: header text")
}

fn pos(n: usize) -> Position {
    Position::new(n).expect("gdocs: position")
}

fn tag(s: &[u8; 2]) -> Tag {
    Tag::new(s[0], s[1])
}

/// Three records sorted by (reference, position), the last one unmapped.
pub fn records() -> Vec<RecordBuf> {
    let sq0 = sq0();
    let sq1 = sq1();

    // r0: forward, 8M at sq0:5 with one mismatch at read offset 3
    let mut s0: Vec<u8> = sq0[4..12].to_vec();
    s0[3] = if s0[3] == b'A' { b'C' } else { b'A' };
    let r0 = RecordBuf::builder()
        .set_name("r0")
        .set_flags(Flags::empty())
        .set_reference_sequence_id(0)
        .set_alignment_start(pos(5))
        .set_mapping_quality(MappingQuality::new(30).unwrap())
        .set_cigar(Cigar::from(vec![Op::new(Kind::Match, 8)]))
        .set_sequence(Sequence::from(s0))
        .set_quality_scores(QualityScores::from(vec![30, 31, 32, 33, 34, 35, 36, 37]))
        .set_data(
            [
                (tag(b"NH"), Value::UInt8(1)),
                (tag(b"RG"), Value::String("rg0".into())),
                (tag(b"XS"), Value::String("hello world".into())),
            ]
            .into_iter()
            .collect::<Data>(),
        )
        .build();

    // r1: reverse, 2S3M1I2M1D2M at sq1:3
    let mut s1: Vec<u8> = Vec::new();
    s1.extend_from_slice(b"TT"); // soft clip
    s1.extend_from_slice(&sq1[2..5]); // 3M
    s1.push(b'G'); // 1I
    s1.extend_from_slice(&sq1[5..7]); // 2M
    s1.extend_from_slice(&sq1[8..10]); // 1D then 2M
    let r1 = RecordBuf::builder()
        .set_name("r1")
        .set_flags(Flags::REVERSE_COMPLEMENTED)
        .set_reference_sequence_id(1)
        .set_alignment_start(pos(3))
        .set_mapping_quality(MappingQuality::new(60).unwrap())
        .set_cigar(Cigar::from(vec![
            Op::new(Kind::SoftClip, 2),
            Op::new(Kind::Match, 3),
            Op::new(Kind::Insertion, 1),
            Op::new(Kind::Match, 2),
            Op::new(Kind::Deletion, 1),
            Op::new(Kind::Match, 2),
        ]))
        .set_sequence(Sequence::from(s1))
        .set_quality_scores(QualityScores::from(vec![10, 11, 12, 13, 14, 15, 16, 17, 18, 19]))
        .set_data(
            [
                (tag(b"XB"), Value::Array(Array::UInt16(vec![1, 65535]))),
                (tag(b"XF"), Value::Float(1.5)),
                (tag(b"XI"), Value::Int32(-70000)),
            ]
            .into_iter()
            .collect::<Data>(),
        )
        .build();

    // r2: unplaced unmapped with bases and qualities
    let r2 = RecordBuf::builder()
        .set_name("r2")
        .set_flags(Flags::UNMAPPED)
        .set_sequence(Sequence::from(b"NNACGT".to_vec()))
        .set_quality_scores(QualityScores::from(vec![2, 2, 20, 21, 22, 23]))
        .build();

    vec![r0, r1, r2]
}

/// An unplaced unmapped read with bases and qualities (valid under an empty header).
pub fn headerless_record(name: &str) -> RecordBuf {
    RecordBuf::builder()
        .set_name(name)
        .set_flags(Flags::UNMAPPED)
        .set_sequence(Sequence::from(b"ACGTN".to_vec()))
        .set_quality_scores(QualityScores::from(vec![20, 21, 22, 23, 2]))
        .build()
}

/// Header with 3000 additional reference sequences (~190 KB of text: the BAM / SAM.gz header
/// spans several BGZF blocks and the first block is larger than an 8 KiB `BufReader` window).
pub fn header_large() -> sam::Header {
    let mut text = String::new();
    let base = header_text();
    // keep @HD first, @SQ together, then the rest
    let mut lines: Vec<&str> = base.lines().collect();
    let tail: Vec<&str> = lines.split_off(3);
    for l in &lines {
        text.push_str(l);
        text.push('\n');
    }
    let mut x: u64 = 0x243f6a8885a308d3;
    for i in 0..3000 {
        x = x.wrapping_mul(6364136223846793005).wrapping_add(1442695040888963407);
        let _ = writeln!(
            text,
            "@SQ\tSN:c{i:04}_{:06x}\tLN:{}\tM5:{:032x}",
            (x >> 40) & 0xffffff,
            1000 + (x >> 20) % 100_000,
            (x as u128) << 64 | (x.rotate_left(17) as u128)
        );
    }
    for l in &tail {
        text.push_str(l);
        text.push('\n');
    }
    text.parse().expect("gdocs: large header text")
}

/// The record sets of C20: empty header + nothing, header only, 1 record, 3 records, a
/// 3002-reference header with 1 record, and two header-less one-record files.
pub fn docs() -> Vec<AlnDoc> {
    let recs = records();
    vec![
        AlnDoc { name: "empty", header: sam::Header::default(), records: vec![] },
        AlnDoc { name: "header-only", header: header_full(), records: vec![] },
        AlnDoc { name: "1-record", header: header_full(), records: recs[..1].to_vec() },
        AlnDoc { name: "3-records", header: header_full(), records: recs.clone() },
        AlnDoc { name: "large-header", header: header_large(), records: recs[..1].to_vec() },
        // header-less files whose first bytes as SAM text are a read name that begins like a
        // binary magic number ("BAM\x01" cannot occur in SAM text, "BAM" and "CRAM" can)
        AlnDoc { name: "headerless-read-named-BAMBOO", header: sam::Header::default(), records: vec![headerless_record("BAMBOO")] },
        AlnDoc { name: "headerless-read-named-CRAMPON", header: sam::Header::default(), records: vec![headerless_record("CRAMPON")] },
        boundary_doc(),
    ]
}

/// Data-model rendering of a header. `sam::Header` is a plain value type (ordered maps); its
/// derived `Debug` is a faithful structural dump.
pub fn header_key(h: &sam::Header) -> String {
    format!("{h:?}")
}

fn value_key(v: &Value, out: &mut String) {
    // integers compare numerically (SAM text has a single `i` type)
    let int = |n: i64, out: &mut String| {
        let _ = write!(out, "i:{n}");
    };
    match v {
        Value::Character(c) => {
            let _ = write!(out, "A:{}", *c as char);
        }
        Value::Int8(n) => int(*n as i64, out),
        Value::UInt8(n) => int(*n as i64, out),
        Value::Int16(n) => int(*n as i64, out),
        Value::UInt16(n) => int(*n as i64, out),
        Value::Int32(n) => int(*n as i64, out),
        Value::UInt32(n) => int(*n as i64, out),
        Value::Float(f) => {
            let _ = write!(out, "f:{:08x}", f.to_bits());
        }
        Value::String(s) => {
            let _ = write!(out, "Z:{s}");
        }
        Value::Hex(s) => {
            let _ = write!(out, "H:{s}");
        }
        Value::Array(a) => {
            let _ = match a {
                Array::Int8(x) => write!(out, "B:c{x:?}"),
                Array::UInt8(x) => write!(out, "B:C{x:?}"),
                Array::Int16(x) => write!(out, "B:s{x:?}"),
                Array::UInt16(x) => write!(out, "B:S{x:?}"),
                Array::Int32(x) => write!(out, "B:i{x:?}"),
                Array::UInt32(x) => write!(out, "B:I{x:?}"),
                Array::Float(x) => {
                    write!(out, "B:f{:?}", x.iter().map(|f| f.to_bits()).collect::<Vec<_>>())
                }
            };
        }
    }
}

/// Data-model rendering of one owned record.
///
/// * integer aux values numerically, floats by bits, aux fields sorted by tag (SAM: order of
///   optional fields is not significant),
/// * `fold_case`: bases upper-cased (CRAM).
pub fn record_buf_key(r: &RecordBuf, fold_case: bool) -> String {
    let mut s = String::new();
    let name = r.name().map(|n| n.to_string()).unwrap_or_else(|| "*".into());
    let _ = write!(
        s,
        "{name} flags={:#x} ref={:?} pos={:?} mapq={:?} cigar=",
        r.flags().bits(),
        r.reference_sequence_id(),
        r.alignment_start().map(usize::from),
        r.mapping_quality().map(u8::from),
    );
    for op in r.cigar().as_ref() {
        let _ = write!(s, "{}{:?},", op.len(), op.kind());
    }
    let _ = write!(
        s,
        " mref={:?} mpos={:?} tlen={} seq=",
        r.mate_reference_sequence_id(),
        r.mate_alignment_start().map(usize::from),
        r.template_length()
    );
    for &b in r.sequence().as_ref() {
        s.push(if fold_case { b.to_ascii_uppercase() as char } else { b as char });
    }
    let _ = write!(s, " qual={:?} data=", r.quality_scores().as_ref());
    let mut fields: Vec<(Tag, &Value)> = r.data().iter().collect();
    fields.sort_by_key(|(t, _)| <[u8; 2]>::from(*t));
    for (t, v) in fields {
        let t: [u8; 2] = t.into();
        let _ = write!(s, "{}{}:", t[0] as char, t[1] as char);
        value_key(v, &mut s);
        s.push(';');
    }
    s
}

/// Data-model rendering of any alignment record (decodes it through the `Record` trait).
pub fn record_key(header: &sam::Header, r: &dyn Record, fold_case: bool) -> io::Result<String> {
    let buf = RecordBuf::try_from_alignment_record(header, r)?;
    Ok(record_buf_key(&buf, fold_case))
}

/// Expected log of a document: header key followed by one key per record.
pub fn doc_log(doc: &AlnDoc, fold_case: bool) -> Vec<String> {
    let mut v = vec![header_key(&doc.header)];
    v.extend(doc.records.iter().map(|r| record_buf_key(r, fold_case)));
    v
}

// ---------------------------------------------------------------------------------------------
// representation boundaries

fn unmapped(name: Vec<u8>, data: Vec<(Tag, Value)>) -> RecordBuf {
    RecordBuf::builder()
        .set_name(name)
        .set_flags(Flags::UNMAPPED)
        .set_sequence(Sequence::from(b"ACGTN".to_vec()))
        .set_quality_scores(QualityScores::from(vec![20, 21, 22, 23, 2]))
        .set_data(data.into_iter().collect::<Data>())
        .build()
}

fn text(n: usize) -> Vec<u8> {
    (0..n).map(|i| b"abcdefghijklmnopqrstuvwxyz0123456789"[(i * 5 + n) % 36]).collect()
}

/// Read names of 1 and 254 bytes (BAM `l_read_name` 2 and 255), `Z` values of 0 / 1 / 255 / 256
/// bytes and `B` arrays with 0 / 1 / 255 / 256 elements of several subtypes.
pub fn boundary_doc() -> AlnDoc {
    let mut records = Vec::new();
    for (i, n) in [0usize, 1, 255, 256].into_iter().enumerate() {
        let name = match i {
            0 => text(1),
            1 => text(254),
            _ => format!("b{n}").into_bytes(),
        };
        records.push(unmapped(
            name,
            vec![
                (tag(b"XB"), Value::Array(Array::UInt8((0..n).map(|k| k as u8).collect()))),
                (tag(b"XH"), Value::Array(Array::Int16((0..n).map(|k| k as i16 * 100 - 9000).collect()))),
                (tag(b"XI"), Value::Array(Array::UInt32((0..n).map(|k| 4_000_000_000 - k as u32).collect()))),
                (tag(b"XF"), Value::Array(Array::Float((0..n).map(|k| k as f32 * 0.25).collect()))),
                (tag(b"XZ"), Value::String(text(n).into())),
            ],
        ));
    }
    AlnDoc { name: "boundary-lengths", header: header_full(), records }
}

/// Reference for the 65535-operation CIGAR (thorough tier).
pub fn sq_long() -> Vec<u8> {
    ref_bases(3, 33_000)
}

/// A mapped read whose CIGAR has exactly 65535 operations (the largest `n_cigar_op` BAM can
/// store in place): 1M1I1M1I…1M, 65535 bases, reference span 32768.
pub fn cigar_doc() -> AlnDoc {
    let sql = sq_long();
    let header: sam::Header = format!(
        "@HD\tVN:1.6\tSO:coordinate\n@SQ\tSN:sq0\tLN:50\tM5:{}\n@SQ\tSN:sq1\tLN:40\tM5:{}\n@SQ\tSN:sqL\tLN:{}\tM5:{}\n",
        md5_hex(&sq0()),
        md5_hex(&sq1()),
        sql.len(),
        md5_hex(&sql)
    )
    .parse()
    .expect("gdocs: cigar header");
    let mut ops = Vec::with_capacity(65535);
    let mut seq = Vec::with_capacity(65535);
    let mut r = 9usize; // 0-based reference offset of alignment start 10
    for k in 0..65535usize {
        if k % 2 == 0 {
            ops.push(Op::new(Kind::Match, 1));
            seq.push(sql[r]);
            r += 1;
        } else {
            ops.push(Op::new(Kind::Insertion, 1));
            seq.push(b"ACGT"[(k / 2) % 4]);
        }
    }
    let qual: Vec<u8> = (0..65535usize).map(|k| (k % 40) as u8 + 2).collect();
    let rec = RecordBuf::builder()
        .set_name("c65535")
        .set_flags(Flags::empty())
        .set_reference_sequence_id(2)
        .set_alignment_start(pos(10))
        .set_mapping_quality(MappingQuality::new(20).unwrap())
        .set_cigar(Cigar::from(ops))
        .set_sequence(Sequence::from(seq))
        .set_quality_scores(QualityScores::from(qual))
        .build();
    AlnDoc { name: "cigar-65535-ops", header, records: vec![rec] }
}
