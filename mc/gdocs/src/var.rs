//! Variant documents: a VCF header plus 0..3 records with two samples.

use std::{fmt::Write as _, io};

use noodles_vcf::{
    self as vcf,
    variant::{
        Record, RecordBuf,
        record_buf::samples::sample::{Value as SValue, value::genotype::Genotype},
    },
};

#[derive(Clone, Debug)]
pub struct VarDoc {
    pub name: &'static str,
    pub header: vcf::Header,
    pub records: Vec<RecordBuf>,
}

pub const HEADER_TEXT: &str = "##fileformat=VCFv4.3\n\
##INFO=<ID=DP,Number=1,Type=Integer,Description=\"Total Depth\">\n\
##INFO=<ID=AF,Number=A,Type=Float,Description=\"Allele Frequency\">\n\
##INFO=<ID=DB,Number=0,Type=Flag,Description=\"dbSNP membership\">\n\
##INFO=<ID=XS,Number=1,Type=String,Description=\"A string\">\n\
##FILTER=<ID=PASS,Description=\"All filters passed\">\n\
##FILTER=<ID=q10,Description=\"Quality below 10\">\n\
##FORMAT=<ID=GT,Number=1,Type=String,Description=\"Genotype\">\n\
##FORMAT=<ID=DP,Number=1,Type=Integer,Description=\"Read Depth\">\n\
##contig=<ID=sq0,length=50>\n\
##contig=<ID=sq1,length=40>\n\
#CHROM\tPOS\tID\tREF\tALT\tQUAL\tFILTER\tINFO\tFORMAT\ts0\ts1\n";

pub const RECORD_LINES: [&str; 3] = [
    "sq0\t5\trs1\tA\tC\t29.5\tPASS\tDP=14;AF=0.5;DB;XS=abc\tGT:DP\t0|1:7\t1/1:9\n",
    "sq0\t9\t.\tG\tGA,T\t.\tq10\tDP=3;AF=0.25,0.75\tGT:DP\t0/1:3\t./.:4\n",
    "sq1\t2\tid2;id3\tT\tTC\t10\t.\tDP=1\tGT\t0/0\t0/1\n",
];

pub fn header_full() -> vcf::Header {
    let mut r = vcf::io::Reader::new(HEADER_TEXT.as_bytes());
    r.read_header().expect("gdocs: vcf header")
}

pub fn records() -> Vec<RecordBuf> {
    let mut text = String::from(HEADER_TEXT);
    for l in RECORD_LINES {
        text.push_str(l);
    }
    let mut r = vcf::io::Reader::new(text.as_bytes());
    let h = r.read_header().expect("gdocs: vcf header");
    r.record_bufs(&h)
        .collect::<io::Result<Vec<_>>>()
        .expect("gdocs: vcf records")
}

/// Header with 3000 additional contigs (the BCF / VCF.gz header spans several BGZF blocks).
pub fn header_large() -> vcf::Header {
    let (head, chrom_line) = HEADER_TEXT.split_at(HEADER_TEXT.find("#CHROM").unwrap());
    let mut text = String::from(head);
    let mut x: u64 = 0x13198a2e03707344;
    for i in 0..3000 {
        x = x.wrapping_mul(6364136223846793005).wrapping_add(1442695040888963407);
        let _ = writeln!(text, "##contig=<ID=c{i:04}_{:06x},length={}>", (x >> 40) & 0xffffff, 1000 + (x >> 20) % 100_000);
    }
    text.push_str(chrom_line);
    let mut r = vcf::io::Reader::new(text.as_bytes());
    r.read_header().expect("gdocs: large vcf header")
}

pub fn docs() -> Vec<VarDoc> {
    let recs = records();
    vec![
        VarDoc { name: "empty", header: vcf::Header::default(), records: vec![] },
        VarDoc { name: "header-only", header: header_full(), records: vec![] },
        VarDoc { name: "1-record", header: header_full(), records: recs[..1].to_vec() },
        VarDoc { name: "3-records", header: header_full(), records: recs.clone() },
        VarDoc { name: "large-header", header: header_large(), records: recs[..1].to_vec() },
        boundary_doc(),
    ]
}

/// Structural dump of every public part of the header (ordered maps). The private `string_maps`
/// cache (BCF dictionary; a `HashMap`, filled by the BCF reader only) is not part of the data model.
pub fn header_key(h: &vcf::Header) -> String {
    format!(
        "fileformat={:?} infos={:?} filters={:?} formats={:?} alts={:?} contigs={:?} samples={:?} other={:?}",
        h.file_format(),
        h.infos(),
        h.filters(),
        h.formats(),
        h.alternative_alleles(),
        h.contigs(),
        h.sample_names(),
        h.other_records()
    )
}

fn genotype_key(g: &Genotype, out: &mut String) {
    use vcf::variant::record::samples::series::value::genotype::Phasing;
    // the phasing of the first allele is not representable before VCF 4.4: not part of the key
    for (i, a) in g.as_ref().iter().enumerate() {
        if i > 0 {
            out.push(match a.phasing() {
                Phasing::Phased => '|',
                Phasing::Unphased => '/',
            });
        }
        match a.position() {
            Some(p) => {
                let _ = write!(out, "{p}");
            }
            None => out.push('.'),
        }
    }
}

fn sample_value_key(key: &str, v: &SValue, out: &mut String) {
    match v {
        SValue::Genotype(g) => {
            out.push_str("GT(");
            genotype_key(g, out);
            out.push(')');
        }
        SValue::String(s) if key == "GT" => match s.parse::<Genotype>() {
            Ok(g) => {
                out.push_str("GT(");
                genotype_key(&g, out);
                out.push(')');
            }
            Err(_) => {
                let _ = write!(out, "{v:?}");
            }
        },
        SValue::Float(f) => {
            let _ = write!(out, "Float({:08x})", f.to_bits());
        }
        _ => {
            let _ = write!(out, "{v:?}");
        }
    }
}

/// Data-model rendering of one owned record: every column, INFO in record order, per-sample
/// values modulo trailing missing values, GT as allele indices + separators.
pub fn record_buf_key(r: &RecordBuf) -> String {
    use vcf::variant::record_buf::info::field::Value as IValue;
    let mut s = String::new();
    let _ = write!(
        s,
        "{} pos={:?} ids={:?} ref={} alt={:?} qual={:?} filters={:?} info=",
        r.reference_sequence_name(),
        r.variant_start().map(usize::from),
        r.ids().as_ref().iter().collect::<Vec<_>>(),
        r.reference_bases(),
        r.alternate_bases().as_ref(),
        r.quality_score().map(f32::to_bits),
        r.filters().as_ref().iter().collect::<Vec<_>>(),
    );
    for (k, v) in r.info().as_ref() {
        match v {
            Some(IValue::Float(f)) => {
                let _ = write!(s, "{k}=Float({:08x});", f.to_bits());
            }
            Some(v) => {
                let _ = write!(s, "{k}={v:?};");
            }
            None => {
                let _ = write!(s, "{k}=.;");
            }
        }
    }
    let keys: Vec<&String> = r.samples().keys().as_ref().iter().collect();
    let _ = write!(s, " format={keys:?} samples=");
    for sample in r.samples().values() {
        let vals = sample.values();
        let mut n = vals.len();
        while n > 0 && vals[n - 1].is_none() {
            n -= 1;
        }
        s.push('[');
        for (i, v) in vals[..n].iter().enumerate() {
            match v {
                Some(v) => sample_value_key(keys.get(i).map(|k| k.as_str()).unwrap_or(""), v, &mut s),
                None => s.push('.'),
            }
            s.push(',');
        }
        s.push(']');
    }
    s
}

pub fn record_key(header: &vcf::Header, r: &dyn Record) -> io::Result<String> {
    let buf = RecordBuf::try_from_variant_record(header, r)?;
    Ok(record_buf_key(&buf))
}

pub fn doc_log(doc: &VarDoc) -> Vec<String> {
    let mut v = vec![header_key(&doc.header)];
    v.extend(doc.records.iter().map(record_buf_key));
    v
}

// ---------------------------------------------------------------------------------------------
// representation boundaries

/// Header of the boundary document: free-form String / Integer / Float INFO and FORMAT keys and
/// 17 filters, so that every typed BCF value (ID, REF, ALT, INFO string, INFO integer and float
/// arrays, FORMAT string and integer array, FILTER list) can take an exact length.
pub fn boundary_header_text() -> String {
    let mut t = String::from("##fileformat=VCFv4.3\n");
    t.push_str("##INFO=<ID=XS,Number=1,Type=String,Description=\"A string\">\n");
    t.push_str("##INFO=<ID=XA,Number=.,Type=Integer,Description=\"Integers\">\n");
    t.push_str("##INFO=<ID=XF,Number=.,Type=Float,Description=\"Floats\">\n");
    t.push_str("##FILTER=<ID=PASS,Description=\"All filters passed\">\n");
    for i in 0..17 {
        let _ = writeln!(t, "##FILTER=<ID=f{i:02},Description=\"filter {i}\">");
    }
    t.push_str("##FORMAT=<ID=GT,Number=1,Type=String,Description=\"Genotype\">\n");
    t.push_str("##FORMAT=<ID=XS,Number=1,Type=String,Description=\"A string\">\n");
    t.push_str("##FORMAT=<ID=XI,Number=.,Type=Integer,Description=\"Integers\">\n");
    t.push_str("##contig=<ID=sq0,length=50>\n##contig=<ID=sq1,length=40>\n");
    t.push_str("#CHROM\tPOS\tID\tREF\tALT\tQUAL\tFILTER\tINFO\tFORMAT\ts0\ts1\n");
    t
}

/// One record in which every variable-length typed value has exactly `len` elements / bytes
/// (BCF writes a length `>= 15` as descriptor `0xF?` followed by a typed integer).
pub fn boundary_line(pos: usize, len: usize) -> String {
    assert!(len >= 1);
    let letters = |n: usize, alphabet: &[u8]| -> String {
        (0..n).map(|i| alphabet[(i * 7 + n) % alphabet.len()] as char).collect()
    };
    let id = letters(len, b"abcdefghijklmnopqrstuvwxyz0123456789");
    let reference = letters(len, b"ACGT");
    let alt = letters(len, b"TGCA");
    let filters: Vec<String> = (0..len).map(|i| format!("f{i:02}")).collect();
    let xs = letters(len, b"ABCDEFGHIJKLMNOPQRSTUVWXYZ_");
    let xa: Vec<String> = (0..len).map(|i| format!("{}", i as i32 * 3 - 7)).collect();
    let xf: Vec<String> = (0..len).map(|i| format!("{}", i as f32 * 0.5)).collect();
    let fs = letters(len, b"mnopqrstuvwxyz");
    let fi: Vec<String> = (0..len).map(|i| format!("{}", 100 + i)).collect();
    // s1 carries shorter values: the per-sample width of the record is decided by s0
    format!(
        "sq0\t{pos}\t{id}\t{reference}\t{alt}\t{}\t{}\tXS={xs};XA={};XF={}\tGT:XS:XI\t0/1:{fs}:{}\t1|1:z:5\n",
        len,
        filters.join(";"),
        xa.join(","),
        xf.join(","),
        fi.join(",")
    )
}

/// Lengths around the BCF typed-descriptor boundary (15) and the smallest ones.
pub const BOUNDARY_LENGTHS: [usize; 6] = [1, 2, 14, 15, 16, 17];

pub fn boundary_doc() -> VarDoc {
    let mut text = boundary_header_text();
    for (i, len) in BOUNDARY_LENGTHS.iter().enumerate() {
        text.push_str(&boundary_line(2 + i, *len));
    }
    let mut r = vcf::io::Reader::new(text.as_bytes());
    let header = r.read_header().expect("gdocs: boundary vcf header");
    let records = r
        .record_bufs(&header)
        .collect::<io::Result<Vec<_>>>()
        .expect("gdocs: boundary vcf records");
    VarDoc { name: "boundary-typed-lengths", header, records }
}
