//! FASTA / FASTQ / GFF / BED records and index values.

use std::num::NonZero;

use bstr::BString;
use noodles_bam as bam;
use noodles_bed as bed;
use noodles_bgzf as bgzf;
use noodles_core::Position;
use noodles_cram::crai;
use noodles_csi::{
    self as csi,
    binning_index::{
        Indexer,
        index::{
            Header as CsiHeader,
            reference_sequence::{bin::Chunk, index::{BinnedIndex, LinearIndex}},
        },
    },
};
use noodles_fasta::{self as fasta, fai};
use noodles_fastq as fastq;
use noodles_gff as gff;
use noodles_tabix as tabix;

fn pos(n: usize) -> Position {
    Position::new(n).expect("gdocs: position")
}

/// Two FASTA records; the second is longer than one 80-column line and has a description.
pub fn fasta_records() -> Vec<fasta::Record> {
    use fasta::record::{Definition, Sequence};
    let long: Vec<u8> = (0..170).map(|i| b"ACGTN"[(i * 7 + i / 5) % 5]).collect();
    vec![
        fasta::Record::new(Definition::new("sq0", None), Sequence::from(crate::aln::sq0())),
        fasta::Record::new(
            Definition::new("long", Some(BString::from("170 bases, three lines"))),
            Sequence::from(long),
        ),
    ]
}

pub fn fastq_records() -> Vec<fastq::Record> {
    use fastq::record::Definition;
    vec![
        fastq::Record::new(Definition::new("r0", ""), "ACGT", "IIII"),
        fastq::Record::new(Definition::new("r1", "LN:6 second"), "NNACGT", "!!5678"),
        fastq::Record::new(Definition::new("r2", ""), "G", "@"),
    ]
}

pub fn gff_lines() -> Vec<gff::LineBuf> {
    use gff::{
        DirectiveBuf, LineBuf,
        directive_buf::{Value, key},
        feature::{
            RecordBuf,
            record::{Phase, Strand},
            record_buf::{Attributes, attributes::field::Value as AValue},
        },
    };
    let gene = RecordBuf::builder()
        .set_reference_sequence_name("sq0")
        .set_source("vmc")
        .set_type("gene")
        .set_start(pos(1))
        .set_end(pos(40))
        .set_strand(Strand::Forward)
        .set_attributes(
            [
                (BString::from("ID"), AValue::String(BString::from("g0"))),
                (BString::from("Name"), AValue::String(BString::from("gene zero"))),
            ]
            .into_iter()
            .collect::<Attributes>(),
        )
        .build();
    let cds = RecordBuf::builder()
        .set_reference_sequence_name("sq0")
        .set_source("vmc")
        .set_type("CDS")
        .set_start(pos(4))
        .set_end(pos(30))
        .set_score(0.5)
        .set_strand(Strand::Reverse)
        .set_phase(Phase::One)
        .set_attributes(
            [
                (BString::from("ID"), AValue::String(BString::from("c0"))),
                (
                    BString::from("Parent"),
                    AValue::Array(vec![BString::from("g0"), BString::from("g1")]),
                ),
            ]
            .into_iter()
            .collect::<Attributes>(),
        )
        .build();
    vec![
        LineBuf::Directive(DirectiveBuf::new(
            key::GFF_VERSION,
            Some(Value::GffVersion(Default::default())),
        )),
        LineBuf::Comment(BString::from("vmc document")),
        LineBuf::Record(gene),
        LineBuf::Record(cds),
    ]
}

pub fn bed3_records() -> Vec<bed::feature::RecordBuf<3>> {
    vec![
        bed::feature::RecordBuf::<3>::builder()
            .set_reference_sequence_name("sq0")
            .set_feature_start(pos(1))
            .set_feature_end(pos(10))
            .build(),
        bed::feature::RecordBuf::<3>::builder()
            .set_reference_sequence_name("sq1")
            .set_feature_start(pos(8))
            .set_feature_end(pos(13))
            .build(),
    ]
}

pub fn bed6_records() -> Vec<bed::feature::RecordBuf<6>> {
    use bed::feature::record::Strand;
    vec![
        bed::feature::RecordBuf::<6>::builder()
            .set_reference_sequence_name("sq0")
            .set_feature_start(pos(1))
            .set_feature_end(pos(10))
            .set_name("f0")
            .set_score(7)
            .set_strand(Strand::Forward)
            .build(),
        bed::feature::RecordBuf::<6>::builder()
            .set_reference_sequence_name("sq1")
            .set_feature_start(pos(8))
            .set_feature_end(pos(13))
            .set_name("f1")
            .set_score(1000)
            .set_strand(Strand::Reverse)
            .build(),
    ]
}

fn vp(c: u64, u: u16) -> bgzf::VirtualPosition {
    bgzf::VirtualPosition::try_from((c, u)).expect("gdocs: virtual position")
}

fn add_records<I>(ix: &mut Indexer<I>)
where
    I: csi::binning_index::index::reference_sequence::Index + Default,
{
    // (ref, start, end, mapped, chunk)
    let recs: [(usize, usize, usize, bool, (u64, u16), (u64, u16)); 4] = [
        (0, 5, 12, true, (0, 100), (0, 180)),
        (0, 20000, 20100, true, (0, 180), (0, 260)),
        (1, 3, 11, true, (211, 0), (211, 90)),
        (1, 30, 39, false, (211, 90), (211, 150)),
    ];
    for (r, s, e, m, a, b) in recs {
        ix.add_record(Some((r, pos(s), pos(e), m)), Chunk::new(vp(a.0, a.1), vp(b.0, b.1)))
            .expect("gdocs: indexer");
    }
    ix.add_record(None, Chunk::new(vp(211, 150), vp(211, 200))).expect("gdocs: indexer");
}

pub fn bai_index() -> bam::bai::Index {
    let mut ix = Indexer::<LinearIndex>::default();
    add_records(&mut ix);
    ix.build(2)
}

pub fn csi_index() -> csi::Index {
    let mut ix = Indexer::<BinnedIndex>::default();
    add_records(&mut ix);
    ix.build(2)
}

pub fn tabix_index() -> tabix::Index {
    let mut ix = tabix::index::Indexer::default();
    ix.set_header(CsiHeader::default());
    let recs: [(&str, usize, usize, (u64, u16), (u64, u16)); 3] = [
        ("sq0", 5, 12, (0, 100), (0, 180)),
        ("sq0", 20000, 20100, (0, 180), (0, 260)),
        ("sq1", 3, 11, (211, 0), (211, 90)),
    ];
    for (n, s, e, a, b) in recs {
        ix.add_record(n, pos(s), pos(e), Chunk::new(vp(a.0, a.1), vp(b.0, b.1)))
            .expect("gdocs: tabix indexer");
    }
    ix.build()
}

pub fn gzi_index() -> bgzf::gzi::Index {
    bgzf::gzi::Index::from(vec![(211, 65280), (4312, 130560), (70000, 195840)])
}

pub fn fai_index() -> fai::Index {
    let nz = |n: u64| NonZero::new(n).unwrap();
    fai::Index::from(vec![
        fai::Record::new("sq0", 50, 5, nz(50), nz(51)),
        fai::Record::new("long", 170, 84, nz(80), nz(81)),
    ])
}

pub fn crai_index() -> Vec<crai::Record> {
    vec![
        crai::Record::new(Some(0), Position::new(5), 8, 26, 120, 311),
        crai::Record::new(Some(1), Position::new(3), 9, 26, 431, 290),
        crai::Record::new(None, None, 0, 1042, 98, 170),
    ]
}

pub fn fastq_fai_records() -> Vec<fastq::fai::Record> {
    vec![
        fastq::fai::Record::new("r0", 4, 4, 4, 5, 11),
        fastq::fai::Record::new("r1", 6, 33, 6, 7, 42),
    ]
}
