//! Standalone confirmation of the C07 findings through the public noodles API only (no harness
//! code, no hooks): `cargo run --release --offline -p c07 --example confirm`.
//! Every case prints what was written and what came back.

use std::{io, num::NonZero, panic};

use noodles_core::Position;
use noodles_cram::{
    self as cram,
    codecs::{Encoder, aac, rans_4x8, rans_nx16},
    container::{BlockContentEncoderMap, compression_header::data_series_encodings::DataSeries},
};
use noodles_fasta as fasta;
use noodles_sam::{
    self as sam,
    alignment::{
        RecordBuf,
        io::Write as _,
        record::{
            Flags,
            cigar::{Op, op::Kind},
            data::field::Tag,
        },
        record_buf::{QualityScores, Sequence, data::field::Value},
    },
    header::record::value::{Map, map::ReferenceSequence},
};

const SQ0: &[u8] = b"ACGTACGTACACGTACGTACGGGGACGTTT";
const SQ1: &[u8] = b"TTGACCAGTAGATTACAGGCACGTTG";

fn setup() -> (fasta::Repository, sam::Header) {
    use fasta::record::{Definition, Sequence};
    let recs = vec![
        fasta::Record::new(Definition::new("sq0", None), Sequence::from(SQ0.to_vec())),
        fasta::Record::new(Definition::new("sq1", None), Sequence::from(SQ1.to_vec())),
    ];
    let header = sam::Header::builder()
        .add_reference_sequence("sq0", Map::<ReferenceSequence>::new(NonZero::new(SQ0.len()).unwrap()))
        .add_reference_sequence("sq1", Map::<ReferenceSequence>::new(NonZero::new(SQ1.len()).unwrap()))
        .add_read_group("rg0", Map::<sam::header::record::value::map::ReadGroup>::default())
        .build();
    (fasta::Repository::new(recs), header)
}

fn mapped(name: &str, flags: u16, rid: usize, pos: usize, len: usize) -> RecordBuf {
    let refseq = if rid == 0 { SQ0 } else { SQ1 };
    RecordBuf::builder()
        .set_name(name)
        .set_flags(Flags::from(flags))
        .set_reference_sequence_id(rid)
        .set_alignment_start(Position::new(pos).unwrap())
        .set_mapping_quality(sam::alignment::record::MappingQuality::new(30).unwrap())
        .set_cigar([Op::new(Kind::Match, len)].into_iter().collect())
        .set_sequence(Sequence::from(refseq[pos - 1..pos - 1 + len].to_vec()))
        .set_quality_scores(QualityScores::from(vec![30; len]))
        .build()
}

fn unmapped(name: &str, bases: &[u8], quals: &[u8]) -> RecordBuf {
    RecordBuf::builder()
        .set_name(name)
        .set_flags(Flags::UNMAPPED)
        .set_sequence(Sequence::from(bases.to_vec()))
        .set_quality_scores(QualityScores::from(quals.to_vec()))
        .build()
}

fn write(map: Option<BlockContentEncoderMap>, records: &[RecordBuf]) -> io::Result<Vec<u8>> {
    let (repo, header) = setup();
    let mut b = cram::io::writer::Builder::default().set_reference_sequence_repository(repo);
    if let Some(m) = map {
        b = b.set_block_content_encoder_map(m);
    }
    let mut w = b.build_from_writer(Vec::new());
    w.write_header(&header)?;
    for r in records {
        w.write_alignment_record(&header, r)?;
    }
    w.try_finish(&header)?;
    Ok(w.into_inner())
}

fn read(bytes: &[u8]) -> io::Result<Vec<String>> {
    let (repo, _) = setup();
    let mut r = cram::io::reader::Builder::default().set_reference_sequence_repository(repo).build_from_reader(bytes);
    let header = r.read_header()?;
    let mut out = Vec::new();
    for rec in r.records(&header) {
        let rec = rec?;
        let mut line = Vec::new();
        let mut w = sam::io::Writer::new(&mut line);
        match w.write_alignment_record(&header, &rec) {
            Ok(()) => out.push(String::from_utf8_lossy(&line).trim_end().replace('\t', " ")),
            Err(e) => out.push(format!("<not renderable as SAM: {e}> name={:?} flags={:?} pos={:?}", rec.name(), rec.flags(), rec.alignment_start())),
        }
    }
    Ok(out)
}

fn round_trip(title: &str, map: Option<BlockContentEncoderMap>, records: Vec<RecordBuf>) {
    println!("--- {title}");
    let (_, header) = setup();
    for r in &records {
        let mut line = Vec::new();
        sam::io::Writer::new(&mut line).write_alignment_record(&header, r).unwrap();
        println!("  in : {}", String::from_utf8_lossy(&line).trim_end().replace('\t', " "));
    }
    let res = panic::catch_unwind(move || -> Result<Vec<String>, String> {
        let bytes = write(map, &records).map_err(|e| format!("write: Err({e})"))?;
        println!("  file: {} bytes, version {}.{}", bytes.len(), bytes[4], bytes[5]);
        read(&bytes).map_err(|e| format!("read: Err({e})"))
    });
    match res {
        Ok(Ok(lines)) => {
            for l in lines {
                println!("  out: {l}");
            }
        }
        Ok(Err(e)) => println!("  {e}"),
        Err(p) => println!(
            "  PANIC: {}",
            p.downcast_ref::<String>().cloned().or(p.downcast_ref::<&str>().map(|s| s.to_string())).unwrap_or_default()
        ),
    }
}

fn main() {
    panic::set_hook(Box::new(|_| {}));
    let mut no_qual = unmapped("u1", b"ACGT", &[]);
    round_trip("D8a unmapped read with bases, no qualities", None, vec![no_qual.clone()]);
    round_trip("D8b unmapped read with neither bases nor qualities", None, vec![unmapped("u1", b"", &[])]);
    let mut m = mapped("m1", 0, 0, 1, 8);
    *m.quality_scores_mut() = QualityScores::default();
    round_trip("D8c mapped read without qualities followed by a read with qualities", None, vec![m.clone(), mapped("m2", 0, 0, 5, 8)]);
    let mut m1 = mapped("m1", 0, 0, 1, 1);
    *m1.quality_scores_mut() = QualityScores::default();
    round_trip("D8d mapped read 1M without qualities", None, vec![m1]);
    let mut s = mapped("m1", 0, 0, 1, 8);
    *s.sequence_mut() = Sequence::default();
    *s.quality_scores_mut() = QualityScores::default();
    round_trip("N1 mapped read with SEQ * (CIGAR 8M)", None, vec![s]);
    *no_qual.flags_mut() = Flags::UNMAPPED;
    let mut pu = unmapped("u1", b"", &[]);
    *pu.reference_sequence_id_mut() = Some(0);
    *pu.alignment_start_mut() = Position::new(5);
    round_trip("N2 placed unmapped read without bases", None, vec![pu]);
    // P1: placed unmapped read whose bases would run past the reference end (unmapped mate near the end)
    let mut near_end = unmapped("u1", b"ACGTACGT", &[30; 8]);
    *near_end.reference_sequence_id_mut() = Some(0);
    *near_end.alignment_start_mut() = Position::new(SQ0.len() - 2);
    round_trip("P1 placed unmapped read (8 bases) at the third-last reference base", None, vec![near_end]);
    let mut nameless = mapped("x", 0, 0, 1, 8);
    *nameless.name_mut() = None;
    round_trip("N3 read without a name followed by named reads", None, vec![nameless, mapped("r1", 0, 0, 3, 8), mapped("r2", 0, 0, 5, 8)]);

    // pairs: flags 0x1 paired, 0x40 first, 0x80 last, 0x20 mate reverse, 0x10 reverse
    let mut a = mapped("p", 0x1 | 0x40 | 0x20, 0, 5, 8);
    let mut b = mapped("p", 0x1 | 0x80 | 0x10, 1, 3, 8);
    *a.mate_reference_sequence_id_mut() = Some(1);
    *a.mate_alignment_start_mut() = Position::new(3);
    *b.mate_reference_sequence_id_mut() = Some(0);
    *b.mate_alignment_start_mut() = Position::new(5);
    round_trip("N4 mates on different references in one slice (TLEN 0)", None, vec![a, b]);

    let mut a = mapped("p", 0x1 | 0x40 | 0x8, 0, 5, 8);
    let mut b = unmapped("p", b"ACGTACGT", &[30; 8]);
    *b.flags_mut() = Flags::from(0x1 | 0x80 | 0x4);
    *b.reference_sequence_id_mut() = Some(0);
    *b.alignment_start_mut() = Position::new(5);
    *a.mate_reference_sequence_id_mut() = Some(0);
    *a.mate_alignment_start_mut() = Position::new(5);
    *b.mate_reference_sequence_id_mut() = Some(0);
    *b.mate_alignment_start_mut() = Position::new(5);
    round_trip("N5 mapped read with a placed unmapped mate (TLEN 0)", None, vec![a, b]);

    let mut a = mapped("p", 0x1 | 0x2 | 0x40 | 0x20, 0, 2, 8);
    let mut sup = mapped("p", 0x1 | 0x2 | 0x40 | 0x20 | 0x800, 0, 10, 6);
    let mut b = mapped("p", 0x1 | 0x2 | 0x80 | 0x10, 0, 20, 8);
    for (r, mp, tl) in [(&mut a, 20, 26), (&mut sup, 20, 18), (&mut b, 2, -26)] {
        *r.mate_reference_sequence_id_mut() = Some(0);
        *r.mate_alignment_start_mut() = Position::new(mp);
        *r.template_length_mut() = tl;
    }
    round_trip("N6 pair plus a supplementary alignment of the first segment", None, vec![a, sup, b]);

    // encoders
    let tagged = {
        let mut r = mapped("t1", 0, 0, 1, 8);
        r.data_mut().insert(Tag::new(b'X', b'Z'), Value::from("hello"));
        r
    };
    round_trip(
        "N7 default encoder = rANS Nx16 (tag blocks) -> file still declares version 3.0",
        Some(BlockContentEncoderMap::builder().set_default_encoder(Some(Encoder::RansNx16(rans_nx16::Flags::CAT))).build()),
        vec![tagged.clone()],
    );
    round_trip(
        "N8 core data encoder = adaptive arithmetic coder (core block is empty)",
        Some(BlockContentEncoderMap::builder().set_core_data_encoder(Some(Encoder::AdaptiveArithmeticCoding(aac::Flags::empty()))).build()),
        vec![tagged.clone()],
    );
    round_trip(
        "D9a read-length series with rANS 4x8 order 1",
        Some(BlockContentEncoderMap::builder().set_data_series_encoder(DataSeries::ReadLengths, Some(Encoder::Rans4x8(rans_4x8::Order::One))).build()),
        vec![tagged.clone()],
    );
    // fqzcomp: a read base feature (non-ACGTN mismatch) puts one more byte into the QS series than the
    // read length the writer passes to the codec
    let fqz = || Some(BlockContentEncoderMap::builder().set_data_series_encoder(DataSeries::QualityScores, Some(Encoder::Fqzcomp)).build());
    round_trip("F1 fqzcomp on QS, ordinary read", fqz(), vec![mapped("q1", 0, 0, 1, 8)]);
    let mut k = mapped("q1", 0, 0, 1, 8);
    k.sequence_mut().as_mut()[3] = b'K';
    round_trip("F2 fqzcomp on QS, read with a non-ACGTN mismatch (read base feature)", fqz(), vec![k]);

    // fqzcomp: declared raw size of the QS block
    println!("--- S4 fqzcomp block: declared raw size");
    let recs = vec![mapped("q1", 0, 0, 1, 8), mapped("q2", 0, 0, 3, 8), mapped("q3", 0, 0, 5, 8)];
    let res = panic::catch_unwind(|| {
        write(
            Some(BlockContentEncoderMap::builder().set_data_series_encoder(DataSeries::QualityScores, Some(Encoder::Fqzcomp)).build()),
            &recs,
        )
    });
    match res {
        Ok(Ok(bytes)) => {
            println!("  file version {}.{}", bytes[4], bytes[5]);
            // block header: method 7 (fqzcomp), content type 4 (external), content id 28 (QS)
            if let Some(i) = bytes.windows(3).position(|w| w == [7, 4, 28]) {
                println!("  QS block: compressed size {} declared raw size {} (3 reads x 8 qualities = 24)", bytes[i + 3], bytes[i + 4]);
            } else {
                println!("  no fqzcomp QS block found");
            }
        }
        Ok(Err(e)) => println!("  write: Err({e})"),
        Err(_) => println!("  write: PANIC"),
    }
}
