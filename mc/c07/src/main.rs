//! C07 — CRAM files round-trip their records and are structurally conformant containers.
//!
//! E1 (k-deviation record grammar × layouts × writer options × encoder assignments). Per execution
//! the stream is written with the real writer, (1) read back with the real reader and the same
//! repository and compared record by record on a normalised SAM rendering, (2) walked by the
//! independent container walker (`gcram::walk`). Every case is executed twice (the writer iterates
//! `HashMap`s; bytes of two writes are never compared).

use gcram::{
    io::{DATA_SERIES, Enc, OpOutcome, REJECTS, Target, WriteCfg, WriteOp, read_cram, write_cram, write_cram_ops},
    rec,
    refs::{self, RefSeq},
    stream::{self, BASE_STREAMS, DevSet},
    walk,
};
use vmc::{Chooser, Config, Outcome, Violation};

const LAYOUTS: [Option<usize>; 4] = [None, Some(1), Some(2), Some(3)];

struct Env {
    refs: Vec<RefSeq>,
}

fn fp(stage: &str, cfg: &WriteCfg, symptom: &str) -> String {
    format!("stage={stage} series={} encoder={} symptom={symptom}", cfg.target.name(), cfg.enc_class())
}

/// One write → walk → read → compare pass. `Err((fingerprint, expected, observed))`.
fn one_pass(
    ch: &Chooser,
    env: &Env,
    st: &stream::Stream,
    cfg: &WriteCfg,
    first: bool,
) -> Result<(), (String, String, String)> {
    let recs = &st.recs;
    let names: Vec<&str> = env.refs.iter().map(|r| r.name).collect();
    let repo = refs::repository(&env.refs);
    let header = refs::header(&env.refs);

    let bytes = match write_cram(&repo, &header, recs, cfg) {
        Ok(b) => b,
        Err((step, f)) => {
            // The statement quantifies over streams "the CRAM writer accepts, under every writer option
            // [and] codec assignment": a write that returns `Err` means the stream is not accepted under
            // that option (undeclared read group; a codec that has no encoding of this block, e.g. rANS
            // 4x8 order 1 on fewer than 4 bytes). Refusals are counted, not judged. A *panic* is judged,
            // and so is an `Err` under the default map other than the read-group refusal (the grammar
            // only produces valid SAM records, which the default writer has no reason to refuse).
            if f.symptom.starts_with("err:InvalidInput:invalid_read_group_name") {
                if first {
                    ch.tag("writer refused the stream (undeclared read group)");
                    ch.obs("refused");
                }
                return Ok(());
            }
            if f.symptom.starts_with("err:") && cfg.target != Target::DefaultMap {
                if first {
                    ch.tag("writer refused the stream under the chosen encoder (Err, not judged)");
                    ch.obs(format!("refused {} {} {}", cfg.target.name(), cfg.enc_class(), f.symptom));
                }
                return Ok(());
            }
            // Panics in generic indexing code share one panic site; name the input shape when it is not
            // the known N1 shape (mapped record with SEQ *), so that another cause is not filed under N1.
            let n1_shape = recs.iter().any(|r| !r.is_unmapped() && r.seq.is_empty() && !r.cigar.is_empty());
            let past_end = recs.iter().any(|r| {
                r.is_unmapped()
                    && matches!((r.rid, r.pos), (Some(rid), Some(p)) if p + r.seq.len().max(1) - 1 > env.refs[rid].seq.len())
            });
            let ctx = if !n1_shape && past_end { " ctx=placed-unmapped-read-past-reference-end" } else { "" };
            return Err((
                fp("write", cfg, &format!("{}{ctx}", f.symptom)),
                "the writer accepts the stream or refuses it with Err (no panic; no refusal of a valid stream under the default map)".into(),
                format!("{} (during {step})", f.detail),
            ));
        }
    };

    // (2) container walker
    let w = match walk::walk(&bytes).and_then(|w| walk::check_against_records(&w, recs, &env.refs).map(|_| w)) {
        Ok(w) => w,
        Err(e) => {
            return Err((
                fp("walk", cfg, &e.what.replace(' ', "_")),
                "container invariants of CRAM v3 §7–§9 hold".into(),
                e.detail,
            ));
        }
    };
    let want_31 = cfg.target != Target::DefaultMap && cfg.enc.is_3_1();
    if first {
        if w.version == (3, 1) {
            ch.tag("version 3.1 file");
        } else {
            ch.tag("version 3.0 file");
        }
        if w.containers.len() > 1 {
            ch.tag("several containers");
        }
        if w.containers.iter().any(|c| c.slices.iter().any(|s| s.ref_id == -2)) {
            ch.tag("multi-reference slice");
        }
        if walk::loose_multi_slices(&w, recs) > 0 {
            ch.tag("multi-reference slice header over single-reference content (legal, not judged)");
        }
        if w.containers.iter().any(|c| c.slices.iter().any(|s| s.ref_id == -1)) {
            ch.tag("unmapped slice");
        }
        if w.n_blocks_not_independent > 0 {
            ch.tag("blocks whose raw size was established by noodles' own decoder (not independent)");
        }
        for (m, n) in w.methods_seen.iter().enumerate() {
            if *n > 0 {
                ch.tag(match m {
                    0 => "block method raw",
                    1 => "block method gzip",
                    2 => "block method bzip2",
                    3 => "block method lzma",
                    4 => "block method rans4x8",
                    5 => "block method ransNx16",
                    6 => "block method aac",
                    7 => "block method fqzcomp",
                    _ => "block method tok3",
                });
            }
        }
        ch.steps(w.n_blocks_total as u64);
    }
    let _ = want_31;

    // (1) read back
    let (h2, got) = match read_cram(&bytes, &repo) {
        Ok(x) => x,
        Err((step, f)) => {
            return Err((fp("read", cfg, &f.symptom), format!("{} records", recs.len()), format!("{} (during {step})", f.detail)));
        }
    };
    let refs_back: Vec<(String, usize)> =
        h2.reference_sequences().iter().map(|(k, v)| (k.to_string(), usize::from(v.length()))).collect();
    let refs_in: Vec<(String, usize)> = env.refs.iter().map(|r| (r.name.to_string(), r.seq.len())).collect();
    if refs_back != refs_in || h2.read_groups().len() != refs::READ_GROUPS.len() {
        return Err((
            fp("compare", cfg, "header-differs"),
            format!("{refs_in:?} + {} read groups", refs::READ_GROUPS.len()),
            format!("{refs_back:?} + {} read groups", h2.read_groups().len()),
        ));
    }
    if got.len() != recs.len() {
        return Err((
            fp("compare", cfg, "record-count-differs"),
            format!("{} records", recs.len()),
            format!("{} records", got.len()),
        ));
    }
    let accept_gen = !cfg.preserve_names;
    for (i, (e, o)) in recs.iter().zip(got.iter()).enumerate() {
        if let Some((col, ev, ov)) = rec::first_diff(e, o, &names, accept_gen) {
            let class = &st.classes[i];
            // default encoders: which column of which kind of record; a non-default encoder that
            // returns other bytes garbles whatever the series carries, so the class is the encoder
            let symptom = if cfg.target == Target::DefaultMap {
                format!("field-differs:{col} rec={class}")
            } else {
                "field-differs".to_string()
            };
            return Err((
                fp("compare", cfg, &symptom),
                format!("record {i} {col} = {ev}   (whole line: {})", e.sam_line(&names)),
                format!("record {i} {col} = {ov}   (whole line: {})", o.sam_line(&names)),
            ));
        }
        if first && e.tag_order() != o.tag_order() {
            ch.tag("tag order changed on read (not judged: CRAM stores RG apart)");
        }
    }
    if accept_gen {
        // generated names: the segments of one template must still share a name
        for i in 0..recs.len() {
            for j in i + 1..recs.len() {
                // primary alignments only: a detached secondary / supplementary line keeps its real
                // name while an attached primary pair gets a generated one (inherent to dropping names)
                let primary = |r: &rec::Rec| r.flags & rec::PAIRED != 0 && r.flags & (rec::SECONDARY | rec::SUPPLEMENTARY) == 0;
                let same_in = recs[i].name.is_some() && recs[i].name == recs[j].name && primary(&recs[i]) && primary(&recs[j]);
                if same_in && got[i].name != got[j].name {
                    return Err((
                        fp("compare", cfg, "field-differs:name(mates-no-longer-share-a-name)"),
                        format!("records {i} and {j} share a name"),
                        format!(
                            "{:?} vs {:?}",
                            got[i].name.as_ref().map(|n| String::from_utf8_lossy(n).into_owned()),
                            got[j].name.as_ref().map(|n| String::from_utf8_lossy(n).into_owned())
                        ),
                    ));
                }
            }
        }
    }
    if first {
        let lines: Vec<String> = got.iter().map(|r| r.sam_line(&names)).collect();
        ch.obs_hash((&lines, w.containers.len(), w.n_blocks_total, w.methods_seen, w.version));
    }
    Ok(())
}

fn run_case(ch: &Chooser, env: &Env, stream_name: &str, st: &stream::Stream, cfg: &WriteCfg, taken: &[String]) -> Outcome {
    let names: Vec<&str> = env.refs.iter().map(|r| r.name).collect();
    let describe = || {
        format!(
            "stream={} deviations=[{}] {} ; records: [{}] ; rendered: {}",
            stream_name,
            taken.join(","),
            cfg.describe(),
            st.recs.iter().map(|r| r.literal()).collect::<Vec<_>>().join(", "),
            stream::describe(&st.recs, &names),
        )
    };
    ch.desc(describe);
    // every case twice: hash iteration order in the writer is not controlled
    let a = one_pass(ch, env, st, cfg, true);
    let b = one_pass(ch, env, st, cfg, false);
    if a.is_ok() && b.is_ok() {
        return Ok(());
    }
    // what was observed of a failing execution is its failure (keeps the observation log meaningful
    // when a change makes every execution of a harness fail)
    if let Err((f, _, _)) = &a {
        let lines: Vec<String> = st.recs.iter().map(|r| r.sam_line(&names)).collect();
        ch.obs_hash((f, &lines, cfg.describe()));
    }
    // A failure. Which block fails first can depend on the hash order, so the passes are repeated and
    // the smallest fingerprint is reported (keeps the verdict and its class reproducible).
    let mut fails: Vec<(String, String, String)> = Vec::new();
    let mut passes = 0;
    for r in [a, b] {
        match r {
            Ok(()) => passes += 1,
            Err(f) => fails.push(f),
        }
    }
    // only an assignment that touches several blocks (tag blocks, all-same maps) can fail in a block
    // that depends on the iteration order
    let extra = if matches!(cfg.target, Target::Tags | Target::AllSame) { 14 } else { 0 };
    for _ in 0..extra {
        match one_pass(ch, env, st, cfg, false) {
            Ok(()) => passes += 1,
            Err(f) => fails.push(f),
        }
    }
    // attribution: a stream that also fails under the default map (same layout and options) is a
    // default-path finding, not the encoder's
    if cfg.target != Target::DefaultMap {
        let dcfg = WriteCfg { target: Target::DefaultMap, enc: Enc::Gzip(6), ..cfg.clone() };
        if let Err((f, e, o)) = one_pass(ch, env, st, &dcfg, false) {
            return Err(Violation::new(f, describe(), e, format!("{o}   [fails identically with the default encoder map]")));
        }
    }
    let classes: std::collections::BTreeSet<&str> = fails.iter().map(|f| f.0.as_str()).collect();
    if passes > 0 || classes.len() > 1 {
        ch.tag("repeated writes of one case gave different verdicts (hash order dependent)");
    }
    let n_classes = classes.len();
    let (f, e, mut o) = fails.iter().min_by(|x, y| x.0.cmp(&y.0)).cloned().unwrap();
    if passes > 0 || n_classes > 1 {
        o.push_str(&format!("   [{} writes of this case: {passes} passed, {n_classes} distinct failure classes — depends on HashMap order]", 2 + extra));
    }
    Err(Violation::new(f, describe(), e, o))
}

/// Harness A: the default encoder map; stream × layout × options free, record fields deviate.
fn body_default(
    ch: &Chooser,
    env: &Env,
    devs: DevSet,
    streams: &[usize],
    layouts: &[Option<usize>],
    opts: &[(bool, bool)],
) -> Outcome {
    let which = *ch.pick_free("stream", streams);
    let layout = *ch.pick_free("layout", layouts);
    let (preserve, delta) = *ch.pick_free("options", opts);
    let mut protos = stream::base_stream(which);
    let mut taken = Vec::new();
    for p in protos.iter_mut() {
        stream::deviate(ch, p, devs, &mut taken);
    }
    let st = stream::finalise(protos, &env.refs);
    let cfg = WriteCfg { records_per_slice: layout, preserve_names: preserve, pos_delta: delta, ..Default::default() };
    run_case(ch, env, BASE_STREAMS[which], &st, &cfg, &taken)
}

/// Harness B: one encoder varied at a time against the default map, plus the all-same maps.
fn body_encoders(
    ch: &Chooser,
    env: &Env,
    assignments: &[(Target, Enc)],
    streams: &[usize],
    layouts: &[Option<usize>],
    devs: DevSet,
) -> Outcome {
    let (target, enc) = ch.pick_free("assignment", assignments).clone();
    let which = *ch.pick_free("stream", streams);
    let layout = *ch.pick_free("layout", layouts);
    let preserve = *ch.pick_free("preserve_read_names", &[true, false]);
    let mut protos = stream::base_stream(which);
    let mut taken = Vec::new();
    for p in protos.iter_mut() {
        stream::deviate(ch, p, devs, &mut taken);
    }
    let st = stream::finalise(protos, &env.refs);
    let cfg = WriteCfg { records_per_slice: layout, slices_per_container: 1, preserve_names: preserve, pos_delta: true, target, enc };
    run_case(ch, env, BASE_STREAMS[which], &st, &cfg, &taken)
}

/// Harness C: blocks whose sizes straddle the ITF8 width boundaries (2/3 bytes at 16384, 3 bytes up to
/// 32767/32768): `total` quality scores in reads of 50 bases on sq2, QS (and for unplaced reads BA)
/// stored raw, so that compressed size = raw size = `total` enters the block size, the container
/// length and the landmarks.
fn body_big_blocks(ch: &Chooser, env: &Env, totals: &[usize]) -> Outcome {
    let total = *ch.pick_free("total_quality_scores", totals);
    let unplaced = *ch.pick_free("placement", &[false, true]);
    let r = &env.refs[2];
    let mut recs = Vec::new();
    let mut left = total;
    let mut i = 0usize;
    let mut x: u32 = 12345;
    while left > 0 {
        let len = left.min(50);
        left -= len;
        let pos = 1 + (i * 150) / (total / 50 + 1); // non-decreasing, <= 150
        let qual: Vec<u8> = (0..len)
            .map(|_| {
                x = x.wrapping_mul(1103515245).wrapping_add(12345);
                ((x >> 16) % 41) as u8
            })
            .collect();
        let seq: Vec<u8> = r.seq[pos - 1..pos - 1 + len].iter().map(|b| b.to_ascii_uppercase()).collect();
        recs.push(if unplaced {
            rec::Rec {
                name: Some(format!("b{i}").into_bytes()),
                flags: rec::UNMAPPED,
                rid: None,
                pos: None,
                mapq: Some(0),
                cigar: Vec::new(),
                mrid: None,
                mpos: None,
                tlen: 0,
                seq,
                qual,
                tags: Vec::new(),
            }
        } else {
            rec::Rec {
                name: Some(format!("b{i}").into_bytes()),
                flags: 0,
                rid: Some(2),
                pos: Some(pos),
                mapq: Some(30),
                cigar: vec![(b'M', len)],
                mrid: None,
                mpos: None,
                tlen: 0,
                seq,
                qual,
                tags: Vec::new(),
            }
        });
        i += 1;
    }
    let n = recs.len();
    let st = stream::Stream {
        recs,
        protos: Vec::new(),
        classes: vec![if unplaced { "unplaced/single".to_string() } else { "mapped/single".to_string() }; n],
    };
    // QS raw; for unplaced reads the bases (BA) are stored too: all-same raw map
    let cfg = WriteCfg {
        target: if unplaced { Target::AllSame } else { Target::Series(27) },
        enc: Enc::None,
        ..Default::default()
    };
    let taken = vec![format!("total={total}"), format!("reads={n}")];
    let names: Vec<&str> = env.refs.iter().map(|r| r.name).collect();
    let _ = names;
    run_case_brief(ch, env, &st, &cfg, &taken)
}

/// `run_case` with a short description (hundreds of records are not spelled out).
fn run_case_brief(ch: &Chooser, env: &Env, st: &stream::Stream, cfg: &WriteCfg, taken: &[String]) -> Outcome {
    let describe = || {
        format!(
            "stream=big-blocks [{}] {} ; records: reads of 50 bases (last one shorter) named b0.. on sq2 (or unplaced), CIGAR <len>M, bases = reference, LCG qualities",
            taken.join(","),
            cfg.describe()
        )
    };
    ch.desc(describe);
    let a = one_pass(ch, env, st, cfg, true);
    let b = one_pass(ch, env, st, cfg, false);
    match a.and(b) {
        Ok(()) => Ok(()),
        Err((f, e, o)) => {
            ch.obs(&f);
            Err(Violation::new(f, describe(), e, o))
        }
    }
}

/// Harness D (G2): writer state after a refused record. On ONE writer instance the accepted records
/// of a base stream are interleaved with records the writer must refuse; every refusal must be an
/// `Err`, every other write `Ok`, and the finished file must read back to exactly the accepted
/// records and pass the walker (record counters, base counts, contexts).
fn body_rejects(ch: &Chooser, env: &Env, streams: &[usize]) -> Outcome {
    let which = *ch.pick_free("stream", streams);
    let layout = *ch.pick_free("layout", &[Some(1), Some(2), None, Some(3)]);
    let kind = *ch.pick_free("reject", &REJECTS);
    let preserve = *ch.pick_free("preserve_read_names", &[true, false]);
    let st = stream::finalise(stream::base_stream(which), &env.refs);
    let n = st.recs.len();
    // where the refused records go: before record i (i = n: after the last); one or two places
    let first = ch.free("reject_before", n + 1);
    let second = ch.free("second_reject_before", n + 2); // 0 = none
    let mut ops: Vec<WriteOp> = Vec::new();
    for (i, r) in st.recs.iter().enumerate() {
        if i == first {
            ops.push(WriteOp::Reject(kind));
        }
        if second != 0 && i == second - 1 {
            ops.push(WriteOp::Reject(kind));
        }
        ops.push(WriteOp::Accept(r.clone()));
    }
    if first == n {
        ops.push(WriteOp::Reject(kind));
    }
    if second != 0 && second - 1 == n {
        ops.push(WriteOp::Reject(kind));
    }
    let cfg = WriteCfg { records_per_slice: layout, preserve_names: preserve, ..Default::default() };
    let names: Vec<&str> = env.refs.iter().map(|r| r.name).collect();
    let shape: String = ops.iter().map(|o| if matches!(o, WriteOp::Accept(_)) { 'a' } else { 'R' }).collect();
    let describe = || {
        format!(
            "one writer, ops [{shape}] (a = records of stream {} in order, R = {}) {} ; accepted records: {}",
            BASE_STREAMS[which],
            kind.describe(),
            cfg.describe(),
            stream::describe(&st.recs, &names)
        )
    };
    ch.desc(describe);
    let fpr = |what: &str| format!("op=rejected-record kind={kind:?} {what}");
    let repo = refs::repository(&env.refs);
    let header = refs::header(&env.refs);
    let (outcomes, fin, bytes) = write_cram_ops(&repo, &header, &ops, &cfg);
    for (k, (op, o)) in ops.iter().zip(outcomes.iter()).enumerate() {
        match (op, o) {
            (WriteOp::Reject(_), OpOutcome::Err(m)) => {
                if m.starts_with("(sam::Record::try_from)") {
                    ch.tag("refused before the writer (SAM line splitter) - does not exercise the writer");
                } else {
                    ch.tag("refused by the writer with Err");
                }
            }
            (WriteOp::Accept(_), OpOutcome::Ok) => {}
            (WriteOp::Reject(_), OpOutcome::Ok) => {
                return Err(Violation::new(fpr("symptom=accepted"), describe(), format!("write {k} returns Err"), "Ok(())"));
            }
            (WriteOp::Reject(_), OpOutcome::Panic(m)) => {
                return Err(Violation::new(
                    fpr(&format!("symptom=panic:{}", vmc::normalise_msg(m.split(" in ").next().unwrap_or(m)))),
                    describe(),
                    format!("write {k} returns Err"),
                    format!("panic: {m}"),
                ));
            }
            (WriteOp::Accept(_), other) => {
                return Err(Violation::new(
                    fpr("symptom=later-write-fails"),
                    describe(),
                    format!("write {k} (an ordinary record) returns Ok"),
                    format!("{other:?}"),
                ));
            }
        }
    }
    if fin != OpOutcome::Ok {
        return Err(Violation::new(fpr("symptom=finish-fails"), describe(), "try_finish returns Ok", format!("{fin:?}")));
    }
    let recs = &st.recs;
    let w = match walk::walk(&bytes).and_then(|w| walk::check_against_records(&w, recs, &env.refs).map(|_| w)) {
        Ok(w) => w,
        Err(e) => {
            return Err(Violation::new(
                fpr(&format!("symptom=walk:{}", e.what.replace(' ', "_"))),
                describe(),
                "container invariants hold for exactly the accepted records",
                e.detail,
            ));
        }
    };
    let got = match read_cram(&bytes, &repo) {
        Ok((_, g)) => g,
        Err((step, f)) => {
            return Err(Violation::new(fpr(&format!("symptom=read:{}", f.symptom)), describe(), format!("{n} records"), format!("{} (during {step})", f.detail)));
        }
    };
    if got.len() != n {
        return Err(Violation::new(fpr("symptom=record-count-differs"), describe(), format!("{n} records"), format!("{} records", got.len())));
    }
    for (i, (e, o)) in recs.iter().zip(got.iter()).enumerate() {
        if let Some((col, ev, ov)) = rec::first_diff(e, o, &names, !preserve) {
            return Err(Violation::new(
                fpr(&format!("symptom=field-differs:{col}")),
                describe(),
                format!("record {i} {col} = {ev}"),
                format!("record {i} {col} = {ov}"),
            ));
        }
    }
    ch.steps(ops.len() as u64);
    ch.obs_hash((&shape, w.containers.len(), w.n_blocks_total, got.iter().map(|r| r.sam_line(&names)).collect::<Vec<_>>()));
    if w.containers.len() > 1 {
        ch.tag("several containers");
    }
    ch.tag("every refusal was an Err and the file holds exactly the accepted records");
    Ok(())
}

fn assignments(nx16: &[u8], aac: &[u8], gz: &[u32]) -> Vec<(Target, Enc)> {
    let mut encs: Vec<Enc> = vec![Enc::None];
    encs.extend(gz.iter().map(|l| Enc::Gzip(*l)));
    encs.extend([Enc::Bzip2(9), Enc::Lzma(6), Enc::R4x8o0, Enc::R4x8o1]);
    encs.extend(nx16.iter().map(|f| Enc::Nx16(*f)));
    encs.extend(aac.iter().map(|f| Enc::Aac(*f)));
    let mut out = Vec::new();
    let mut targets = vec![Target::Core, Target::Tags];
    targets.extend((0..DATA_SERIES.len()).map(Target::Series));
    targets.push(Target::AllSame);
    for t in &targets {
        for e in &encs {
            out.push((t.clone(), e.clone()));
        }
    }
    // the two special-purpose codecs on the series they are made for
    out.push((Target::Series(6), Enc::Tok3));
    out.push((Target::Series(27), Enc::Fqz));
    out
}

fn main() {
    vmc::run("C07", "model_checking", |ctx| {
        ctx.rule(
            "harness default_map_*: base stream x records-per-slice {default,1,2,3} x (preserve_read_names, position deltas) enumerated \
             completely, every record field (CIGAR shape, position, reference, placement, bases, qualities, name, strand, flags, MAPQ, \
             tag set, read group) deviates from its base value under the bound k; harness encoders_*: every (target in core / each of \
             the 28 data series / tag blocks / all-same) x encoder of the alphabet, one at a time against the default map, x stream x \
             layout x preserve_read_names; harness rejected_records: on one writer instance the records of a base stream interleaved with one or two \
             records the writer must refuse (12 kinds, every insertion point) x layout x preserve_read_names; harness big_blocks: quality-score totals straddling the ITF8 width boundaries (16383/16384, 32767/32768) \
             stored raw, mapped and unplaced; each case is written twice; distinct = distinct (rendered records, container count, block \
             count) logs; transitions = blocks walked",
        );
        ctx.assume("gcram::walk (own ITF8/LTF8, crc32fast, md-5, miniz_oxide inflate, bzip2 and lzma-rust2 crates) is correct; calibrated on default-writer files of ordinary reads");
        ctx.assume("raw sizes of rANS 4x8 / rANS Nx16 / AAC / fqzcomp / tok3 blocks are established with noodles' own decoders (hook H3) - not independent; for rANS 4x8 the sizes inside the stream are also checked");
        ctx.assume("CRAM cannot represent =/X (become M), adjacent equal CIGAR ops merge, RG is stored apart from the tag list: CIGAR is compared after that normalisation and tags as a multiset");
        ctx.assume("hash iteration order inside the writer is not controlled; every case runs twice and disagreements are counted");
        ctx.assume("verdicts use slices_per_container = 1 only");
        let env = Env { refs: refs::references() };
        let all_opts = [(true, true), (false, true), (true, false), (false, false)];
        let q_nx16 = [0u8, 0x01, 0x20, 0x40, 0x80, 0x08, 0x04, 0x10, 0xc1];
        let q_aac = [0u8, 0x01, 0x20, 0x40, 0x80, 0x08, 0x04];
        let only = std::env::var("C07_ONLY").unwrap_or_default();
        let want = |name: &str| only.is_empty() || name.contains(&only);
        let content = DevSet { content: true, ..DevSet::NONE };
        if ctx.quick() {
            let q_opts = [(true, true), (false, false)];
            if want("default_map_k1") {
                ctx.harness(Config::new("default_map_k1", 1), |ch| body_default(ch, &env, DevSet::ALL, &[0, 1, 2, 3, 4, 5], &LAYOUTS, &q_opts));
            }
            if want("default_map_k2_single") {
                ctx.harness(Config::new("default_map_k2_single", 2), |ch| {
                    body_default(ch, &env, DevSet::ALL, &[0], &[None], &[(true, true)])
                });
            }
            if want("big_blocks") {
                ctx.harness(Config::new("big_blocks", 0), |ch| body_big_blocks(ch, &env, &[16383, 16384, 20000, 32767, 32768]));
            }
            if want("rejected_records") {
                ctx.harness(Config::new("rejected_records", 0), |ch| body_rejects(ch, &env, &[0, 1]));
            }
            if want("encoders_k0") {
                let asg = assignments(&q_nx16, &q_aac, &[1, 9]);
                ctx.harness(Config::new("encoders_k0", 0), |ch| body_encoders(ch, &env, &asg, &[5], &[None], DevSet::NONE));
            }
        } else {
            if want("default_map_k2") {
                ctx.harness(Config::new("default_map_k2", 2), |ch| {
                    body_default(ch, &env, DevSet::ALL, &[0, 1, 3, 4], &[None, Some(2)], &[(true, true)])
                });
                ctx.harness(Config::new("default_map_k2_pairs", 2), |ch| {
                    body_default(ch, &env, DevSet::ALL, &[2], &[None], &[(true, true)])
                });
            }
            if want("big_blocks") {
                let totals: Vec<usize> = vec![127, 128, 16383, 16384, 16385, 20000, 32767, 32768, 32769, 40000];
                ctx.harness(Config::new("big_blocks", 0), |ch| body_big_blocks(ch, &env, &totals));
            }
            if want("rejected_records") {
                ctx.harness(Config::new("rejected_records", 0), |ch| body_rejects(ch, &env, &[0, 1, 2, 3, 5]));
            }
            if want("default_map_k1_all_options") {
                ctx.harness(Config::new("default_map_k1_all_options", 1), |ch| {
                    body_default(ch, &env, DevSet::ALL, &[0, 1, 2, 3, 4, 5], &LAYOUTS, &all_opts)
                });
            }
            if want("default_map_k3_single") {
                // k = 3 over the fields that shape the record layout (no tag / name / flag alphabets)
                let core = DevSet { tags: false, naming: false, flags: false, ..DevSet::ALL };
                ctx.harness(Config::new("default_map_k3_single", 3), |ch| body_default(ch, &env, core, &[0], &[None], &[(true, true)]));
            }
            if want("encoders_all_flag_sets_k0") {
                // every flag set of rANS Nx16 and of the arithmetic coder on ten representative targets
                let all: Vec<u8> = (0..=255u8).filter(|f| f & 0x02 == 0).collect();
                let keep = ["core", "tags", "all", "RN", "QS", "BA", "AP", "RL", "FN", "TL"];
                let asg: Vec<(Target, Enc)> = assignments(&all, &all, &[0, 1, 6, 9])
                    .into_iter()
                    .filter(|(t, _)| keep.contains(&t.name().as_str()))
                    .collect();
                ctx.harness(Config::new("encoders_all_flag_sets_k0", 0), |ch| {
                    body_encoders(ch, &env, &asg, &[5, 1], &[None, Some(2)], DevSet::NONE)
                });
            }
            if want("encoders_all_targets_k0") {
                let asg = assignments(&q_nx16, &q_aac, &[1, 9]);
                ctx.harness(Config::new("encoders_all_targets_k0", 0), |ch| {
                    body_encoders(ch, &env, &asg, &[5, 1, 3], &[None, Some(2)], DevSet::NONE)
                });
            }
            if want("encoders_k1_content") {
                // content deviations (bases / qualities / unmapped read length) under the encoders that
                // work on ordinary reads
                let asg1 = assignments(&[0x20, 0x21, 0x24], &[0x20], &[6]);
                ctx.harness(Config::new("encoders_k1_content", 1), |ch| {
                    body_encoders(ch, &env, &asg1, &[5], &[None], content)
                });
            }
        }
    });
}
