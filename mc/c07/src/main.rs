fn main() {
    println!("MACHINERY-ERROR property=C07 check not built yet");
    std::process::exit(2);
}
