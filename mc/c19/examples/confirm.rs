//! Standalone confirmation of the C19 findings through the public noodles API only:
//! `cargo run --release --offline -p c19 --example confirm`.
//!
//! Two 4-base reads, one on each of two references, written with the default writer (one slice, so a
//! multi-reference slice). D3a: `cram::fs::index` panics. D3b: `query("sq0:1-5")` through a
//! hand-made index also returned the read of `sq1` (both repaired since). G4-a: sequential reading after
//! the end of the stream returns an error instead of "no more records".

use std::{io::Write, num::NonZero, panic};

use noodles_core::Position;
use noodles_cram::{self as cram, crai};
use noodles_fasta as fasta;
use noodles_sam::{
    self as sam,
    alignment::{
        RecordBuf,
        io::Write as _,
        record::{
            Flags,
            cigar::{Op, op::Kind},
        },
        record_buf::{QualityScores, Sequence},
    },
    header::record::value::{Map, map::ReferenceSequence},
};

fn main() -> Result<(), Box<dyn std::error::Error>> {
    use fasta::record::{Definition, Sequence as FaSequence};
    let refs = vec![
        fasta::Record::new(Definition::new("sq0", None), FaSequence::from(b"ACGTACGTAC".to_vec())),
        fasta::Record::new(Definition::new("sq1", None), FaSequence::from(b"TTGACCAGTA".to_vec())),
    ];
    let header = sam::Header::builder()
        .add_reference_sequence("sq0", Map::<ReferenceSequence>::new(NonZero::new(10).unwrap()))
        .add_reference_sequence("sq1", Map::<ReferenceSequence>::new(NonZero::new(10).unwrap()))
        .build();
    let repo = fasta::Repository::new(refs);
    let rec = |name: &str, rid: usize, seq: &[u8]| {
        RecordBuf::builder()
            .set_name(name)
            .set_flags(Flags::empty())
            .set_reference_sequence_id(rid)
            .set_alignment_start(Position::MIN)
            .set_cigar([Op::new(Kind::Match, 4)].into_iter().collect())
            .set_sequence(Sequence::from(seq.to_vec()))
            .set_quality_scores(QualityScores::from(vec![30; 4]))
            .build()
    };

    let mut w = cram::io::writer::Builder::default().set_reference_sequence_repository(repo.clone()).build_from_writer(Vec::new());
    w.write_header(&header)?;
    w.write_alignment_record(&header, &rec("on_sq0", 0, b"ACGT"))?;
    w.write_alignment_record(&header, &rec("on_sq1", 1, b"TTGA"))?;
    w.try_finish(&header)?;
    let bytes = w.into_inner();
    let mut tmp = tempfile::NamedTempFile::new()?;
    tmp.write_all(&bytes)?;
    tmp.flush()?;

    // D3a
    let path = tmp.path().to_path_buf();
    panic::set_hook(Box::new(|_| {}));
    match panic::catch_unwind(|| cram::fs::index(&path)) {
        Ok(Ok(i)) => println!("D3a fs::index: Ok({i:?})"),
        Ok(Err(e)) => println!("D3a fs::index: Err({e})"),
        Err(p) => println!("D3a fs::index: PANIC {:?}", p.downcast_ref::<&str>().map(|s| s.to_string()).or(p.downcast_ref::<String>().cloned())),
    }

    // D3b: the index this file should have (container offset = position after the header)
    let mut r = cram::io::reader::Builder::default().set_reference_sequence_repository(repo).build_from_reader(std::io::Cursor::new(bytes));
    let h = r.read_header()?;
    let offset = r.position()?;
    let _ = offset;
    // (the index entries carry the landmark of their slice; a query reads the indexed slice only)
    let index: crai::Index = cram::fs::index(&path)?;
    let region = "sq0:1-5".parse()?;
    let q = r.query(&h, &index, &region)?;
    for res in q.records() {
        let rec = res?;
        println!(
            "D3b query(sq0:1-5) returned {:?} on reference id {:?}",
            rec.name().map(|n| n.to_string()),
            rec.reference_sequence_id()
        );
    }

    // M1: two slices in one container (as other writers produce; here hook H4): each record once?
    #[cfg(noodles_verif)]
    {
        let refs = vec![
            fasta::Record::new(Definition::new("sq0", None), FaSequence::from(b"ACGTACGTAC".to_vec())),
            fasta::Record::new(Definition::new("sq1", None), FaSequence::from(b"TTGACCAGTA".to_vec())),
        ];
        let repo = fasta::Repository::new(refs);
        let mut w = cram::io::writer::Builder::default().set_reference_sequence_repository(repo.clone()).build_from_writer(Vec::new());
        w.verif_set_layout(1, 2);
        w.write_header(&header)?;
        w.write_alignment_record(&header, &rec("a", 0, b"ACGT"))?;
        w.write_alignment_record(&header, &rec("b", 0, b"ACGT"))?;
        w.try_finish(&header)?;
        let mut tmp = tempfile::NamedTempFile::new()?;
        tmp.write_all(&w.into_inner())?;
        tmp.flush()?;
        let index = cram::fs::index(tmp.path())?;
        println!("M1 index: {} entries, offsets {:?}, landmarks {:?}", index.len(), index.iter().map(|r| r.offset()).collect::<Vec<_>>(), index.iter().map(|r| r.landmark()).collect::<Vec<_>>());
        let mut rd = cram::io::reader::Builder::default().set_reference_sequence_repository(repo).build_from_path(tmp.path())?;
        let hh = rd.read_header()?;
        let region = "sq0".parse()?;
        let names: Vec<String> = rd.query(&hh, &index, &region)?.records().map(|r| r.map(|r| r.name().map(|n| n.to_string()).unwrap_or_default())).collect::<Result<_, _>>()?;
        println!("M1 query(sq0) on a container with two one-record slices returned {names:?}");
    }

    // X1/X2: fs::index on a multi-reference slice that holds a placed read without bases (flag 0x4,
    // RNAME/POS set, SEQ *, CIGAR *), e.g. an unmapped mate stored without sequence
    for (label, pos) in [("X1 placed SEQ-less read at POS 1", 1usize), ("X2 placed SEQ-less read at POS 5", 5)] {
        let refs = vec![
            fasta::Record::new(Definition::new("sq0", None), FaSequence::from(b"ACGTACGTAC".to_vec())),
            fasta::Record::new(Definition::new("sq1", None), FaSequence::from(b"TTGACCAGTA".to_vec())),
        ];
        let repo = fasta::Repository::new(refs);
        let mut w = cram::io::writer::Builder::default().set_reference_sequence_repository(repo).build_from_writer(Vec::new());
        w.write_header(&header)?;
        w.write_alignment_record(&header, &rec("on_sq0", 0, b"ACGT"))?;
        let placed = RecordBuf::builder()
            .set_name("placed")
            .set_flags(Flags::UNMAPPED)
            .set_reference_sequence_id(1)
            .set_alignment_start(Position::new(pos).unwrap())
            .build();
        w.write_alignment_record(&header, &placed)?;
        w.try_finish(&header)?;
        let mut tmp = tempfile::NamedTempFile::new()?;
        tmp.write_all(&w.into_inner())?;
        tmp.flush()?;
        let path = tmp.path().to_path_buf();
        match panic::catch_unwind(|| cram::fs::index(&path)) {
            Ok(Ok(i)) => println!("{label}: fs::index Ok, {} entries", i.len()),
            Ok(Err(e)) => println!("{label}: fs::index Err({e})"),
            Err(p) => println!("{label}: fs::index PANIC {:?}", p.downcast_ref::<&str>().map(|s| s.to_string()).or(p.downcast_ref::<String>().cloned())),
        }
    }

    // X3: query_unmapped on a file without unplaced records
    {
        let refs = vec![
            fasta::Record::new(Definition::new("sq0", None), FaSequence::from(b"ACGTACGTAC".to_vec())),
            fasta::Record::new(Definition::new("sq1", None), FaSequence::from(b"TTGACCAGTA".to_vec())),
        ];
        let repo = fasta::Repository::new(refs);
        let mut w = cram::io::writer::Builder::default().set_reference_sequence_repository(repo.clone()).build_from_writer(Vec::new());
        w.write_header(&header)?;
        w.write_alignment_record(&header, &rec("on_sq0", 0, b"ACGT"))?;
        w.try_finish(&header)?;
        let bytes = w.into_inner();
        let mut rd = cram::io::reader::Builder::default().set_reference_sequence_repository(repo).build_from_reader(std::io::Cursor::new(bytes));
        let hh = rd.read_header()?;
        let offset = rd.position()?;
        let index: crai::Index = vec![crai::Record::new(Some(0), Position::new(1), 4, offset, 0, 0)];
        let mut it = rd.query_unmapped(&hh, &index)?;
        match it.next() {
            None => println!("X3 query_unmapped on a file without unplaced records: no records"),
            Some(Ok(_)) => println!("X3 query_unmapped: a record"),
            Some(Err(e)) => println!("X3 query_unmapped on a file without unplaced records: Err({e}) - seeks to End(0), behind the EOF container, and reads a container header"),
        }
    }

    // G4-a: sequential reading again after the end of the stream was reached
    let n = r.records(&h).count();
    println!("G4-a after the query: records() to the end yields {n} more records");
    match r.records(&h).next() {
        None => println!("G4-a records() again at the end of the stream: None (end of stream)"),
        Some(Ok(_)) => println!("G4-a records() again at the end of the stream: a record"),
        Some(Err(e)) => println!("G4-a records() again at the end of the stream: Err({e}) - the body of the EOF container is parsed as a container header"),
    }
    Ok(())
}
