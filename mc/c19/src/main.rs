//! C19 — CRAM indexing and region queries return exactly the scan-filtered records.
//!
//! E1: base stream × slice layout (records per slice via hook H4, one slice per container) are
//! enumerated completely; the record fields that decide where a record lies (CIGAR shape, position,
//! reference, mapped / placed-unmapped / unplaced) deviate under a bound. Every execution writes a
//! real file with `cram::io::Writer`, indexes it with `cram::fs::index`, compares the index with the
//! one computed from the independent container walker + the written records, and runs every region
//! of the region alphabet through `IndexedReader::query` / `Reader::query`, comparing with
//! `filter(scan)` where the filter (reference and SAM span rule) is the harness's own.

use std::{fs::File, io::Write as _};

use gcram::{
    io::{WriteCfg, write_cram},
    rec::Rec,
    refs::{self, RefSeq},
    stream::{self, BASE_STREAMS, DevSet},
    walk::{self, IndexEntry},
};
use noodles_core::{Position, Region};
use noodles_cram::{self as cram, crai};
use vmc::{Chooser, Config, Outcome, Violation};

/// (records per slice, slices per container). One slice per container is what noodles' writer produces;
/// several slices per container are a legal layout that other writers produce (one crai line per slice
/// and reference, several lines sharing a container offset), reachable here through hook H4.
type Layout = (Option<usize>, usize);
const LAYOUTS: [Layout; 5] = [(None, 1), (Some(1), 1), (Some(2), 1), (Some(3), 1), (Some(2), 2)];
const LAYOUTS_THOROUGH: [Layout; 8] =
    [(None, 1), (Some(1), 1), (Some(2), 1), (Some(3), 1), (Some(2), 2), (Some(1), 3), (Some(3), 2), (Some(2), 3)];
const SEQ_LAYOUTS: [Layout; 5] = [(None, 1), (Some(1), 1), (Some(2), 1), (Some(3), 1), (Some(2), 2)];
const SHAPE_LAYOUTS: [Layout; 12] = [
    (None, 1),
    (Some(1), 1),
    (Some(2), 1),
    (Some(3), 1),
    (Some(4), 1),
    (Some(5), 1),
    (Some(7), 1),
    (Some(2), 2),
    (Some(3), 2),
    (Some(2), 3),
    (Some(4), 3),
    (Some(1), 3),
];

#[derive(Clone, Debug)]
enum Reg {
    Closed(usize, usize),
    Whole,
    From(usize),
    To(usize),
}

impl Reg {
    fn kind(&self, len: usize) -> &'static str {
        match self {
            Reg::Closed(a, _) if *a > len => "beyond-end",
            Reg::Closed(a, b) if a == b => "point",
            Reg::Closed(..) => "closed",
            Reg::Whole => "whole",
            Reg::From(_) => "from",
            Reg::To(_) => "to",
        }
    }
    fn bounds(&self) -> (usize, usize) {
        match self {
            Reg::Closed(a, b) => (*a, *b),
            Reg::Whole => (1, usize::MAX),
            Reg::From(a) => (*a, usize::MAX),
            Reg::To(b) => (1, *b),
        }
    }
    fn region(&self, name: &str) -> Region {
        let p = |n: usize| Position::new(n).expect("position");
        match self {
            Reg::Closed(a, b) => Region::new(name, p(*a)..=p(*b)),
            Reg::Whole => Region::new(name, ..),
            Reg::From(a) => Region::new(name, p(*a)..),
            Reg::To(b) => Region::new(name, ..=p(*b)),
        }
    }
    fn text(&self, name: &str) -> String {
        match self {
            Reg::Closed(a, b) => format!("{name}:{a}-{b}"),
            Reg::Whole => name.to_string(),
            Reg::From(a) => format!("{name}:{a}"),
            Reg::To(b) => format!("{name}:1-{b} (..={b})"),
        }
    }
}

/// The region alphabet of one reference: every `[a,b]` on short references (or on all in the
/// complete mode), otherwise every `[a,b]` over the breakpoints of the records on it (each start and
/// end ± 1, 1, L, L+1); plus whole reference, open bounds and regions beyond the end.
fn regions(len: usize, recs: &[Rec], rid: usize, complete_up_to: usize) -> Vec<Reg> {
    let mut pts: Vec<usize> = Vec::new();
    if len <= complete_up_to {
        pts.extend(1..=len + 1);
    } else {
        pts.extend([1, len, len + 1]);
        for r in recs.iter().filter(|r| r.rid == Some(rid)) {
            if let Some(p) = r.pos {
                // the end by the CIGAR (SAM rule; POS itself for a CIGAR-less read) and the end a reader
                // would get from the read length instead - both are breakpoints, each with +-1
                let e = r.end().unwrap_or(p);
                let l = p + r.seq.len().max(1) - 1;
                for x in [p.saturating_sub(1), p, p + 1, e.saturating_sub(1), e, e + 1, l.saturating_sub(1), l, l + 1] {
                    if x >= 1 && x <= len + 1 {
                        pts.push(x);
                    }
                }
            }
        }
        pts.sort();
        pts.dedup();
    }
    let mut out = vec![Reg::Whole];
    for (i, &a) in pts.iter().enumerate() {
        for &b in &pts[i..] {
            out.push(Reg::Closed(a, b));
        }
        out.push(Reg::From(a));
        out.push(Reg::To(a));
    }
    out.push(Reg::Closed(len + 2, len + 9));
    out
}

#[derive(PartialEq)]
enum Want {
    Must,
    No,
}

/// The harness's own filter, the overlap rule of the SAM specification computed from the CIGAR: on
/// the named reference and `POS <= b && end >= a` with `end = POS + sum(M,D,N,=,X) - 1`; a read without
/// reference span (placed unmapped read, no CIGAR) covers exactly `[POS, POS]` (SAM section 5.3 / the
/// binning rule: "unmapped reads or reads without CIGAR are treated as having length 1"; this is also
/// what `RecordBuf::alignment_end` gives). Its bases do not count.
fn want(r: &Rec, rid: usize, a: usize, b: usize) -> Want {
    if r.rid != Some(rid) {
        return Want::No;
    }
    let Some(p) = r.pos else { return Want::No };
    let e = r.end().unwrap_or(p);
    if p <= b && e >= a { Want::Must } else { Want::No }
}

fn fp_layout(multi: bool) -> &'static str {
    if multi { "multi-reference-slice" } else { "single-reference-slices" }
}

struct Env {
    refs: Vec<RefSeq>,
    complete_up_to: usize,
    devs: DevSet,
    /// also run every region through the async reader
    async_side: bool,
}

fn body(ch: &Chooser, env: &Env, streams: &[usize], layouts: &[Layout]) -> Outcome {
    let which = *ch.pick_free("stream", streams);
    let layout = *ch.pick_free("layout", layouts);
    let mut protos = stream::base_stream(which);
    let mut taken = Vec::new();
    for p in protos.iter_mut() {
        stream::deviate(ch, p, env.devs, &mut taken);
    }
    let st = stream::finalise(protos, &env.refs);
    let recs = &st.recs;
    let names: Vec<&str> = env.refs.iter().map(|r| r.name).collect();
    let cfg = WriteCfg { records_per_slice: layout.0, slices_per_container: layout.1, ..Default::default() };
    let describe = || {
        format!(
            "stream={} deviations=[{}] {} records: {}",
            BASE_STREAMS[which],
            taken.join(","),
            cfg.describe(),
            stream::describe(recs, &names)
        )
    };
    ch.desc(describe);

    let repo = refs::repository(&env.refs);
    let header = refs::header(&env.refs);

    // write (real writer) into a temp file
    let bytes = match write_cram(&repo, &header, recs, &cfg) {
        Ok(b) => b,
        Err((step, f)) => {
            // the statement is about files noodles wrote; a refused / failed write is C07's subject
            ch.tag("write failed (not judged here, see C07)");
            ch.obs(format!("write-failed {step} {}", f.symptom));
            return Ok(());
        }
    };
    let mut tmp = tempfile::Builder::new().prefix("c19-").suffix(".cram").tempfile().expect("harness: temp file");
    tmp.write_all(&bytes).expect("harness: write temp file");
    tmp.flush().expect("harness: flush temp file");
    let path = tmp.path().to_path_buf();

    // independent walk
    let w = match walk::walk(&bytes).and_then(|w| walk::check_against_records(&w, recs, &env.refs).map(|_| w)) {
        Ok(w) => w,
        Err(e) => {
            return Err(Violation::new(
                format!("op=walk what={}", vmc::normalise_msg(&e.what)),
                describe(),
                "a structurally valid CRAM file (independent walker)",
                e.detail,
            ));
        }
    };
    let expected: Vec<Vec<IndexEntry>> = walk::expected_index(&w, recs);
    let multi = expected.iter().any(|s| s.len() > 1);
    let multi_slice = w.containers.iter().any(|c| c.slices.len() > 1);
    let layout_class = format!("{}{}", fp_layout(multi), if multi_slice { "+multi-slice-container" } else { "" });
    let layout_class = layout_class.as_str();
    if multi_slice {
        ch.tag("layout with several slices in one container");
    }
    if multi {
        ch.tag("layout with a multi-reference slice");
    } else {
        ch.tag("layout with single-reference / unmapped slices only");
    }
    if w.containers.len() > 1 {
        ch.tag("several containers");
    }
    ch.obs_hash(
        expected
            .iter()
            .map(|s| s.iter().map(|e| (e.rid, e.start, e.span_hi, e.offset, e.landmark, e.slice_length)).collect::<Vec<_>>())
            .collect::<Vec<_>>(),
    );

    // scan (real reader)
    let scan: Vec<Rec> = match gcram::io::read_cram(&bytes, &repo) {
        Ok((_, v)) => v,
        Err((step, f)) => {
            ch.tag("scan failed (not judged here, see C07)");
            ch.obs(format!("scan-failed {step} {}", f.symptom));
            return Ok(());
        }
    };
    if scan.len() != recs.len()
        || scan.iter().zip(recs.iter()).any(|(a, b)| (a.rid, a.pos, a.end()) != (b.rid, b.pos, b.end()))
    {
        ch.tag("scan differs from the input in placement (C07's subject); scan is the baseline");
    }

    // (1) fs::index
    let idx = vmc::catch(|| cram::fs::index(&path));
    let index: crai::Index = match idx {
        Ok(Ok(index)) => {
            ch.tag("fs::index succeeded");
            // group by slice in order of appearance
            let mut groups: Vec<((u64, u64), Vec<&crai::Record>)> = Vec::new();
            for r in &index {
                let key = (r.offset(), r.landmark());
                match groups.last_mut() {
                    Some((k, g)) if *k == key => g.push(r),
                    _ => groups.push((key, vec![r])),
                }
            }
            let bad = |field: &str, detail: String| {
                Err(Violation::new(
                    format!("op=fs::index layout={} outcome=entries-differ field={field}", layout_class),
                    describe(),
                    format!("index entries {:?}", expected),
                    detail,
                ))
            };
            if groups.len() != expected.len() {
                return bad("slice-count", format!("{} slices indexed, file has {}: {index:?}", groups.len(), expected.len()));
            }
            for (k, ((key, got), exp)) in groups.iter().zip(expected.iter()).enumerate() {
                if *key != (exp[0].offset, exp[0].landmark) {
                    let f = if key.0 != exp[0].offset { "container-offset" } else { "landmark" };
                    return bad(f, format!("slice {k}: offset/landmark {key:?}, expected ({}, {})", exp[0].offset, exp[0].landmark));
                }
                if got.len() != exp.len() {
                    return bad("entries-per-slice", format!("slice {k}: {} entries {got:?}, expected {}", got.len(), exp.len()));
                }
                for e in exp {
                    let Some(g) = got.iter().find(|g| g.reference_sequence_id() == e.rid) else {
                        return bad("reference", format!("slice {k}: no entry for reference {:?} among {got:?}", e.rid));
                    };
                    if g.slice_length() != e.slice_length {
                        return bad("slice-length", format!("slice {k}: {} expected {}", g.slice_length(), e.slice_length));
                    }
                    let gs = g.alignment_start().map(usize::from).unwrap_or(0);
                    if gs != e.start {
                        return bad("start", format!("slice {k} ref {:?}: start {gs}, expected {}", e.rid, e.start));
                    }
                    if g.alignment_span() < e.span_lo || g.alignment_span() > e.span_hi {
                        return bad(
                            "span",
                            format!("slice {k} ref {:?}: span {}, expected {}..={}", e.rid, g.alignment_span(), e.span_lo, e.span_hi),
                        );
                    }
                }
            }
            index
        }
        other => {
            let (outcome, msg, detail) = match other {
                Ok(Err(e)) => ("error", vmc::normalise_msg(&e.to_string()), format!("Err({e})")),
                Err((m, f)) => ("panic", vmc::normalise_msg(&m), format!("panic: {m} in {f}")),
                Ok(Ok(_)) => unreachable!(),
            };
            if !multi {
                return Err(Violation::new(
                    format!("op=fs::index layout={} outcome={outcome} msg={msg}", layout_class),
                    describe(),
                    "Ok(index)",
                    detail,
                ));
            }
            // known D3a: judged, then the query is still exercised through the walker-built index
            ch.tag("fs::index failed on a multi-reference slice; query exercised through the walker-built index");
            let idx: crai::Index = expected
                .iter()
                .flatten()
                .map(|e| {
                    crai::Record::new(e.rid, Position::new(e.start), e.span_hi, e.offset, e.landmark, e.slice_length)
                })
                .collect();
            // the violation is reported after the queries ran, so that both halves are observed
            let v = Violation::new(
                format!("op=fs::index layout={} outcome={outcome} msg={msg}", layout_class),
                describe(),
                "Ok(index) with one entry per reference of the multi-reference slice",
                detail,
            );
            let q = run_queries(ch, env, &path, &repo, &header, idx, false, multi, layout_class, &scan, recs, &describe);
            // both halves are genuine findings; one execution reports one violation: the query
            // failure when there is one (more specific), the index failure otherwise
            return match q {
                Err(qv) => Err(qv),
                Ok(()) => Err(v),
            };
        }
    };
    run_queries(ch, env, &path, &repo, &header, index, true, multi, layout_class, &scan, recs, &describe)
}

#[allow(clippy::too_many_arguments)]
fn run_queries(
    ch: &Chooser,
    env: &Env,
    path: &std::path::Path,
    repo: &noodles_fasta::Repository,
    header: &noodles_sam::Header,
    index: crai::Index,
    index_from_fs: bool,
    _multi: bool,
    layout_class: &str,
    scan: &[Rec],
    recs: &[Rec],
    describe: &dyn Fn() -> String,
) -> Outcome {
    let which_index = if index_from_fs { "fs" } else { "walker" };
    let file = File::open(path).expect("harness: reopen temp file");
    let mut reader = cram::io::indexed_reader::Builder::default()
        .set_reference_sequence_repository(repo.clone())
        .set_index(index.clone())
        .build_from_reader(file)
        .expect("harness: indexed reader");
    let _ = vmc::catch(|| reader.read_header());
    // the async reader over the same bytes (Ready source: the poll adversaries are C16's subject)
    let bytes = std::fs::read(path).expect("harness: read temp file");
    let mut areader = cram::r#async::io::reader::Builder::default()
        .set_reference_sequence_repository(repo.clone())
        .build_from_reader(std::io::Cursor::new(bytes));
    let aheader = match vmc::catch(|| vrt::block_on(areader.read_header())) {
        Ok(Ok(h)) => h,
        other => {
            return Err(Violation::new(
                "op=query api=async step=read_header outcome=failed",
                describe(),
                "Ok(header)",
                format!("{:?}", other.map(|r| r.map(|_| ()))),
            ));
        }
    };
    let limit = scan.len() * 4 + 16;
    let names: Vec<&str> = env.refs.iter().map(|r| r.name).collect();
    let show = |v: &[&Rec]| -> String {
        v.iter()
            .map(|r| {
                format!(
                    "{}@{}:{}-{}",
                    String::from_utf8_lossy(r.name.as_deref().unwrap_or(b"*")),
                    r.rid.map(|i| names[i]).unwrap_or("*"),
                    r.pos.unwrap_or(0),
                    r.end().or(r.pos).unwrap_or(0)
                )
            })
            .collect::<Vec<_>>()
            .join(",")
    };
    let mut n_queries = 0u64;
    let mut n_hits = 0u64;
    let mut log: Vec<u32> = Vec::new();
    for (rid, r) in env.refs.iter().enumerate() {
        let regs = regions(r.seq.len(), recs, rid, env.complete_up_to);
        for (qi, reg) in regs.iter().enumerate() {
            let (a, b) = reg.bounds();
            let region = reg.region(r.name);
            let kind = reg.kind(r.seq.len());
            // every 7th region also through Reader::query (same machinery, other entry point)
            let sync_got: Result<std::io::Result<Vec<Rec>>, (String, String)> = if qi % 7 == 3 {
                vmc::catch(|| {
                    let f = File::open(path)?;
                    let mut rd = cram::io::reader::Builder::default()
                        .set_reference_sequence_repository(repo.clone())
                        .build_from_reader(f);
                    let hh = rd.read_header()?;
                    let q = rd.query(&hh, &index, &region)?;
                    let mut out = Vec::new();
                    for res in q.records() {
                        out.push(Rec::from_record_buf(&res?));
                        if out.len() > limit {
                            break;
                        }
                    }
                    Ok(out)
                })
            } else {
                vmc::catch(|| {
                    let q = reader.query(header, &region)?;
                    let mut out = Vec::new();
                    for res in q.records() {
                        out.push(Rec::from_record_buf(&res?));
                        if out.len() > limit {
                            break;
                        }
                    }
                    Ok(out)
                })
            };
            let async_got: Result<std::io::Result<Vec<Rec>>, (String, String)> = if !env.async_side {
                Ok(Ok(Vec::new()))
            } else {
                vmc::catch(|| {
                vrt::block_on(async {
                    let mut q = areader.query(&aheader, &index, &region)?;
                    let mut out = Vec::new();
                    let mut rec = noodles_sam::alignment::RecordBuf::default();
                    while q.read_record_buf(&mut rec).await? != 0 {
                        out.push(Rec::from_record_buf(&rec));
                        if out.len() > limit {
                            break;
                        }
                    }
                    Ok(out)
                })
                })
            };
            let must: Vec<&Rec> = scan.iter().filter(|x| want(x, rid, a, b) == Want::Must).collect();
            for (api, got) in [("sync", sync_got), ("async", async_got)] {
                if api == "async" && !env.async_side {
                    continue;
                }
                let viol = |outcome: &str, expected: String, observed: String| {
                    Err(Violation::new(
                        format!("op=query api={api} index={which_index} layout={} region={kind} outcome={outcome}", layout_class),
                        format!("{} ; region {} ; api {api}", describe(), reg.text(r.name)),
                        expected,
                        observed,
                    ))
                };
                n_queries += 1;
                let got = match got {
                    Ok(Ok(v)) => v,
                    Ok(Err(e)) => return viol(&format!("error:{}", vmc::normalise_msg(&e.to_string())), "Ok(records)".into(), format!("Err({e})")),
                    Err((m, f)) => return viol(&format!("panic:{}", vmc::normalise_msg(&m)), "Ok(records)".into(), format!("panic: {m} in {f}")),
                };
                if let Err((outcome, detail)) = judge_region(scan, rid, a, b, &got, false) {
                    // which kind of record the verdict is about (class level)
                    let about = got
                        .iter()
                        .chain(scan.iter())
                        .find(|x| x.rid == Some(rid) && x.ref_span() == 0 && x.pos.is_some())
                        .map(|_| " doc=has-cigarless-placed-read")
                        .unwrap_or("");
                    return viol(
                        &format!("{outcome}{about}"),
                        format!("[{}] each once, in file order", show(&must)),
                        format!("[{}] ({detail})", show(&got.iter().collect::<Vec<_>>())),
                    );
                }
                n_hits += got.len() as u64;
                log.push(got.len() as u32);
            }
        }
    }
    ch.steps(n_queries);
    ch.obs_hash(&log);
    if n_hits > 0 {
        ch.tag("queries returning records");
    }
    if log.iter().any(|n| *n == 0) {
        ch.tag("queries returning nothing");
    }
    if scan.iter().any(|x| x.pos.is_some() && x.ref_span() == 0) {
        ch.tag("document with a CIGAR-less placed read (covers [POS,POS])");
    }
    if index_from_fs {
        ch.tag("queries through the index built by fs::index (sync and async)");
    } else {
        ch.tag("queries through the walker-built index");
    }
    Ok(())
}

// ---------------------------------------------------------------------------------------------
// G4: multi-step use of ONE reader. Every answer must be what it would be on a fresh reader.

#[derive(Clone, Copy, Debug, PartialEq)]
enum Step {
    /// region query, answer read to the end
    Q(usize, usize, usize),
    /// region query of which only the first record is taken, then the iterator is dropped
    QTakeOne(usize, usize, usize),
    Whole(usize),
    Unmapped,
    /// sequential `records()` to the end of the file
    Scan,
    /// sequential `records()`, two records taken, then dropped
    ScanTwo,
}

impl Step {
    fn kind(&self) -> &'static str {
        match self {
            Step::Q(..) => "query",
            Step::QTakeOne(..) => "query-take-one",
            Step::Whole(_) => "query-whole-reference",
            Step::Unmapped => "query_unmapped",
            Step::Scan => "sequential-scan",
            Step::ScanTwo => "sequential-two-records",
        }
    }
}

const STEPS: [Step; 9] = [
    Step::Q(0, 1, 12),
    Step::Q(0, 25, 60),
    Step::Whole(0),
    Step::Q(0, 62, 69),
    Step::Whole(1),
    Step::QTakeOne(0, 20, 60),
    Step::Unmapped,
    Step::Scan,
    Step::ScanTwo,
];

/// Order-preserving comparison of a query answer with filter(scan).
fn judge_region(scan: &[Rec], rid: usize, a: usize, b: usize, got: &[Rec], only_first: bool) -> Result<(), (String, String)> {
    let must: Vec<usize> = (0..scan.len()).filter(|&k| want(&scan[k], rid, a, b) == Want::Must).collect();
    let mut cursor = 0usize;
    let mut matched = vec![false; scan.len()];
    for g in got {
        let found = (cursor..scan.len()).find(|&k| &scan[k] == g);
        match found {
            Some(k) => {
                if want(&scan[k], rid, a, b) == Want::No {
                    let why = if scan[k].rid != Some(rid) { "record-of-another-reference" } else { "record-outside-region" };
                    return Err((format!("extra:{why}"), format!("record {k} of the scan")));
                }
                matched[k] = true;
                cursor = k + 1;
            }
            None => {
                let dup = scan.iter().any(|s| s == g);
                return Err(((if dup { "duplicate-or-out-of-order" } else { "record-not-in-scan" }).to_string(), format!("{:?}", g.name.as_ref().map(|n| String::from_utf8_lossy(n).into_owned()))));
            }
        }
    }
    if only_first {
        // the one record taken must be the first the filter keeps
        if got.is_empty() && !must.is_empty() {
            return Err(("missing-record".into(), format!("first of {} expected records", must.len())));
        }
        if let (Some(&first_must), Some(k)) = (must.first(), matched.iter().position(|m| *m)) {
            if k > first_must {
                return Err(("missing-record".into(), format!("record {first_must} of the scan skipped")));
            }
        }
        return Ok(());
    }
    for k in must {
        if !matched[k] {
            return Err(("missing-record".into(), format!("record {k} of the scan")));
        }
    }
    Ok(())
}

fn body_sequences(ch: &Chooser, env: &Env, streams: &[usize]) -> Outcome {
    let which = *ch.pick_free("stream", streams);
    let layout = *ch.pick_free("layout", &SEQ_LAYOUTS);
    let indexed = *ch.pick_free("reader", &[true, false]);
    let mut steps: Vec<Step> = Vec::new();
    steps.push(*ch.pick_free("step1", &STEPS));
    steps.push(*ch.pick_free("step2", &STEPS));
    let third = ch.free("step3", STEPS.len() + 1);
    if third > 0 {
        steps.push(STEPS[third - 1]);
    }
    let st = stream::finalise(stream::base_stream(which), &env.refs);
    let recs = &st.recs;
    let names: Vec<&str> = env.refs.iter().map(|r| r.name).collect();
    let cfg = WriteCfg { records_per_slice: layout.0, slices_per_container: layout.1, ..Default::default() };
    let describe = || {
        format!(
            "one {} ; steps {:?} ; stream={} {} records: {}",
            if indexed { "IndexedReader" } else { "Reader (+ index passed to query)" },
            steps,
            BASE_STREAMS[which],
            cfg.describe(),
            stream::describe(recs, &names)
        )
    };
    ch.desc(describe);
    let repo = refs::repository(&env.refs);
    let header = refs::header(&env.refs);
    let bytes = match write_cram(&repo, &header, recs, &cfg) {
        Ok(b) => b,
        Err(_) => {
            ch.tag("write failed (not judged here, see C07)");
            ch.obs("write-failed");
            return Ok(());
        }
    };
    let mut tmp = tempfile::Builder::new().prefix("c19-").suffix(".cram").tempfile().expect("harness: temp file");
    tmp.write_all(&bytes).expect("harness: write temp file");
    tmp.flush().expect("harness: flush temp file");
    let path = tmp.path().to_path_buf();
    let w = match walk::walk(&bytes) {
        Ok(w) => w,
        Err(e) => return Err(Violation::new(format!("op=walk what={}", e.what.replace(' ', "_")), describe(), "valid file", e.detail)),
    };
    let mut boundaries = vec![0usize];
    for c in &w.containers {
        boundaries.push(boundaries.last().unwrap() + c.n_records as usize);
    }
    let scan: Vec<Rec> = match gcram::io::read_cram(&bytes, &repo) {
        Ok((_, v)) => v,
        Err(_) => {
            ch.tag("scan failed (not judged here, see C07)");
            ch.obs("scan-failed");
            return Ok(());
        }
    };
    let index = match vmc::catch(|| cram::fs::index(&path)) {
        Ok(Ok(i)) => i,
        Ok(Err(e)) => return Err(Violation::new("op=fs::index outcome=error (sequence harness)", describe(), "Ok(index)", format!("Err({e})"))),
        Err((m, f)) => return Err(Violation::new(format!("op=fs::index outcome=panic msg={} (sequence harness)", vmc::normalise_msg(&m)), describe(), "Ok(index)", format!("panic: {m} in {f}"))),
    };

    enum Rd {
        Indexed(cram::io::IndexedReader<File>),
        Plain(cram::io::Reader<File>),
    }
    let file = File::open(&path).expect("harness: reopen");
    let mut rd = if indexed {
        Rd::Indexed(
            cram::io::indexed_reader::Builder::default()
                .set_reference_sequence_repository(repo.clone())
                .set_index(index.clone())
                .build_from_reader(file)
                .expect("harness: indexed reader"),
        )
    } else {
        Rd::Plain(cram::io::reader::Builder::default().set_reference_sequence_repository(repo.clone()).build_from_reader(file))
    };
    let hdr = match &mut rd {
        Rd::Indexed(r) => vmc::catch(|| r.read_header()),
        Rd::Plain(r) => vmc::catch(|| r.read_header()),
    };
    let hdr = match hdr {
        Ok(Ok(h)) => h,
        other => return Err(Violation::new("op=sequence step=read_header outcome=failed", describe(), "Ok(header)", format!("{:?}", other.map(|r| r.map(|_| ()))))),
    };

    let limit = scan.len() * 4 + 16;
    let mut log: Vec<(usize, usize)> = Vec::new();
    let mut prev = "read_header";
    for (si, step) in steps.iter().enumerate() {
        let viol = |outcome: &str, exp: String, obs: String| {
            Err(Violation::new(
                format!(
                    "op=sequence reader={} layout={} step={} after={prev} outcome={outcome}",
                    if indexed { "indexed" } else { "plain" },
                    if w.containers.iter().any(|c| c.slices.len() > 1) { "multi-slice-container" } else { "one-slice-per-container" },
                    step.kind()
                ),
                format!("{} ; failing step {} = {:?}", describe(), si + 1, step),
                exp,
                obs,
            ))
        };
        let collect = |it: &mut dyn Iterator<Item = std::io::Result<noodles_sam::alignment::RecordBuf>>, take: usize| -> std::io::Result<Vec<Rec>> {
            let mut out = Vec::new();
            for res in it {
                out.push(Rec::from_record_buf(&res?));
                if out.len() >= take {
                    break;
                }
            }
            Ok(out)
        };
        let got: Result<std::io::Result<Vec<Rec>>, (String, String)> = match *step {
            Step::Q(rid, a, b) | Step::QTakeOne(rid, a, b) => {
                let take = if matches!(step, Step::QTakeOne(..)) { 1 } else { limit };
                let region = Reg::Closed(a, b).region(env.refs[rid].name);
                match &mut rd {
                    Rd::Indexed(r) => vmc::catch(|| collect(&mut r.query(&hdr, &region)?.records(), take)),
                    Rd::Plain(r) => vmc::catch(|| collect(&mut r.query(&hdr, &index, &region)?.records(), take)),
                }
            }
            Step::Whole(rid) => {
                let region = Reg::Whole.region(env.refs[rid].name);
                match &mut rd {
                    Rd::Indexed(r) => vmc::catch(|| collect(&mut r.query(&hdr, &region)?.records(), limit)),
                    Rd::Plain(r) => vmc::catch(|| collect(&mut r.query(&hdr, &index, &region)?.records(), limit)),
                }
            }
            Step::Unmapped => match &mut rd {
                Rd::Indexed(r) => vmc::catch(|| collect(&mut r.query_unmapped(&hdr)?, limit)),
                Rd::Plain(r) => vmc::catch(|| collect(&mut r.query_unmapped(&hdr, &index)?, limit)),
            },
            Step::Scan | Step::ScanTwo => {
                let take = if *step == Step::ScanTwo { 2 } else { limit };
                match &mut rd {
                    Rd::Indexed(r) => vmc::catch(|| collect(&mut r.records(&hdr), take)),
                    Rd::Plain(r) => vmc::catch(|| collect(&mut r.records(&hdr), take)),
                }
            }
        };
        // Sequential reading is not part of C19's statement (indexing and region queries): these steps only
        // perturb the reader's state between queries; what they return is recorded, not judged.
        if matches!(step, Step::Scan | Step::ScanTwo) {
            match &got {
                Ok(Ok(v)) => log.push((si, v.len())),
                Ok(Err(_)) => {
                    ch.tag("sequential step after the end of the stream returned Err (recorded, not judged)");
                    log.push((si, usize::MAX));
                }
                Err((m, f)) => return viol(&format!("panic:{}", vmc::normalise_msg(m)), "no panic".into(), format!("panic: {m} in {f}")),
            }
            prev = step.kind();
            continue;
        }
        let got = match got {
            Ok(Ok(v)) => v,
            Ok(Err(e)) => return viol(&format!("error:{}", vmc::normalise_msg(&e.to_string())), "Ok(records)".into(), format!("Err({e})")),
            Err((m, f)) => return viol(&format!("panic:{}", vmc::normalise_msg(&m)), "Ok(records)".into(), format!("panic: {m} in {f}")),
        };
        let show = |v: &[Rec]| v.iter().map(|r| String::from_utf8_lossy(r.name.as_deref().unwrap_or(b"*")).into_owned()).collect::<Vec<_>>().join(",");
        match *step {
            Step::Q(rid, a, b) => {
                if let Err((o, d)) = judge_region(&scan, rid, a, b, &got, false) {
                    return viol(&o, format!("filter(scan) for {}:{a}-{b}", env.refs[rid].name), format!("[{}] ({d})", show(&got)));
                }
            }
            Step::QTakeOne(rid, a, b) => {
                if let Err((o, d)) = judge_region(&scan, rid, a, b, &got, true) {
                    return viol(&o, format!("first record of filter(scan) for {}:{a}-{b}", env.refs[rid].name), format!("[{}] ({d})", show(&got)));
                }
            }
            Step::Whole(rid) => {
                if let Err((o, d)) = judge_region(&scan, rid, 1, usize::MAX, &got, false) {
                    return viol(&o, format!("filter(scan) for {}", env.refs[rid].name), format!("[{}] ({d})", show(&got)));
                }
            }
            Step::Unmapped => {
                // every unplaced record, in order, each once; placed unmapped reads may appear (the
                // statement does not say whether they belong to "unmapped"); nothing mapped
                let mut cursor = 0usize;
                let mut matched = vec![false; scan.len()];
                for g in &got {
                    match (cursor..scan.len()).find(|&k| &scan[k] == g) {
                        Some(k) => {
                            if !scan[k].is_unmapped() {
                                return viol("extra:mapped-record", "unmapped records only".into(), format!("[{}]", show(&got)));
                            }
                            matched[k] = true;
                            cursor = k + 1;
                        }
                        None => return viol("duplicate-or-out-of-order", "each unplaced record once, in file order".into(), format!("[{}]", show(&got))),
                    }
                }
                if (0..scan.len()).any(|k| scan[k].rid.is_none() && scan[k].is_unmapped() && !matched[k]) {
                    return viol("missing-record", "every unplaced record".into(), format!("[{}]", show(&got)));
                }
            }
            Step::Scan | Step::ScanTwo => {
                // sequential reading continues at a container boundary: the answer is a run of the scan
                // that starts at one (at record 0 when nothing was read before) and, for a full scan,
                // goes to the end
                let ok = boundaries.iter().any(|&b0| {
                    if si == 0 && b0 != 0 {
                        return false;
                    }
                    let rest = &scan[b0.min(scan.len())..];
                    if *step == Step::Scan { rest == &got[..] } else { got.len() == rest.len().min(2) && rest[..got.len()] == got[..] }
                });
                if !ok {
                    return viol(
                        "not-a-run-of-the-scan-from-a-container-boundary",
                        format!("scan[b..] for a container boundary b in {boundaries:?}{}", if si == 0 { " (b = 0: nothing was read before)" } else { "" }),
                        format!("[{}]", show(&got)),
                    );
                }
            }
        }
        log.push((si, got.len()));
        prev = step.kind();
    }
    ch.steps(steps.len() as u64);
    ch.obs_hash((&log, which, layout));
    ch.tag("every step of the sequence answered as on a fresh reader");
    Ok(())
}

/// Development filter: `C19_ONLY=<substring>` runs the matching harnesses only.
struct Filtered<'a> {
    ctx: &'a mut vmc::Ctx,
    only: String,
}

impl Filtered<'_> {
    fn harness<F>(&mut self, cfg: Config, body: F)
    where
        F: Fn(&Chooser) -> Outcome + Sync,
    {
        if self.only.is_empty() || cfg.name.contains(&self.only) {
            self.ctx.harness(cfg, body);
        }
    }
    fn quick(&self) -> bool {
        self.ctx.quick()
    }
}

fn main() {
    vmc::run("C19", "model_checking", |ctx| {
        ctx.rule(
            "harness layouts_regions_*: base stream x layout (records per slice {default,1,2,3} with one slice per container, and 2 records x 2 slices \
             per container; thorough also 1x3, 3x2, 2x3) enumerated completely; \
             per record the fields that decide placement (CIGAR shape, position, reference, mapped/placed-unmapped/unplaced) \
             deviate under the bound; per execution every region of the alphabet (all [a,b] on short references; on longer ones all [a,b] over \
             the breakpoints start, CIGAR end, read-length end of every record, each -1/0/+1, plus 1, L, L+1; whole reference, open bounds, beyond the \
             end) is queried through the sync IndexedReader/Reader AND the async Reader (vrt::block_on, Ready source); harness shapes_regions: the \
             22-record 'shapes' document (clips, insertions, deletions, skips, pads, CIGAR-less placed reads with and without bases, position 1 and \
             last base, mate-only differences, earlier reference at higher coordinates, three references + unplaced tail) x records per slice \
             {default,1,2,3,4,5,7} with one slice per container and 2x2, 3x2, 2x3, 4x3, 1x3 (records x slices per container); harness reader_sequences: one reader, every sequence of 2-3 steps over 9 step kinds; distinct = distinct \
             (expected index, per-region answer sizes) logs; transitions = region queries executed (sync + async)",
        );
        ctx.assume("the container walker (gcram::walk: own ITF8/LTF8, crc32fast, md-5, miniz_oxide) reads slice boundaries correctly; it is calibrated on default-writer files in C07");
        ctx.assume("the full scan of noodles' own reader is the baseline list the statement names; the filter is the harness's: reference id and the SAM overlap rule from the CIGAR (POS + sum of M/D/N/=/X - 1); a CIGAR-less placed read covers [POS,POS]");
        ctx.assume("index spans of slices that hold CIGAR-less placed reads may end anywhere between the mapped records' end and POS + read length - 1 (a wider span only costs a container read)");
        ctx.assume("the async side runs on a Ready in-memory source under vrt::block_on; poll schedules are C16's subject");
        ctx.assume("layouts with several slices per container come from hook H4 (the unhooked writer always writes one); a stream whose slices of one container have different reference contexts is refused by the writer and then not judged");
        let refs = refs::references();
        let only = std::env::var("C19_ONLY").unwrap_or_default();
        let mut ctx = Filtered { ctx, only };
        let ctx = &mut ctx;
        // streams: single, multi, pairs, pairs-special
        if ctx.quick() {
            // quick: breakpoint regions on every reference here (the answer can only change at a
            // breakpoint); all [a,b] on the 24 bp reference in shapes_regions and in the thorough tier
            let env = Env { refs: refs.clone(), complete_up_to: 0, devs: DevSet::GEOMETRY, async_side: true };
            ctx.harness(Config::new("layouts_regions_k1", 1), |ch| body(ch, &env, &[0, 1, 2, 3], &LAYOUTS));
            let env0 = Env { refs: refs.clone(), complete_up_to: 24, devs: DevSet::NONE, async_side: true };
            ctx.harness(Config::new("shapes_regions", 0), |ch| body(ch, &env0, &[6], &SHAPE_LAYOUTS));
            // `single` has no unplaced read: query_unmapped on a file without an unplaced index entry
            ctx.harness(Config::new("reader_sequences", 0), |ch| body_sequences(ch, &env, &[0, 1, 3]));
        } else {
            let env = Env { refs: refs.clone(), complete_up_to: 60, devs: DevSet::GEOMETRY, async_side: true };
            ctx.harness(Config::new("layouts_regions_k1_complete60", 1), |ch| body(ch, &env, &[0, 1, 2, 3], &LAYOUTS_THOROUGH));
            let env2 = Env { refs: refs.clone(), complete_up_to: 24, devs: DevSet::GEOMETRY, async_side: true };
            // the k = 2 harnesses query through the sync readers only (the async side is complete at k = 1)
            let env2s = Env { refs: refs.clone(), complete_up_to: 24, devs: DevSet::GEOMETRY, async_side: false };
            let env0 = Env { refs: refs.clone(), complete_up_to: 60, devs: DevSet::NONE, async_side: true };
            ctx.harness(Config::new("shapes_regions", 0), |ch| body(ch, &env0, &[6], &SHAPE_LAYOUTS));
            ctx.harness(Config::new("shapes_regions_k1", 1), |ch| body(ch, &env2, &[6], &[(None, 1), (Some(3), 1), (Some(3), 2)]));
            ctx.harness(Config::new("reader_sequences", 0), |ch| body_sequences(ch, &env, &[0, 1, 2, 3, 6]));
            ctx.harness(Config::new("layouts_regions_k2_multi", 2), |ch| body(ch, &env2s, &[1], &[(None, 1), (Some(2), 1)]));
            ctx.harness(Config::new("layouts_regions_k2_single", 2), |ch| body(ch, &env2s, &[0], &[(Some(1), 1), (Some(3), 1)]));
        }
    });
}
