//! (i) Binning soundness: for every feature F and region R of a geometry, F ∩ R ≠ ∅ ⇒ bin(F) ∈ bins(R).
//!
//! Observed through the public API only:
//! * `bin(F)`  = the key of the single bin of `Indexer::new(ms, d).add_record(F, chunk).build(1)`;
//! * `bins(R)` = the bins returned by `ReferenceSequence::query(ms, d, R)` on an index holding one
//!   distinguishable chunk in every bin id.

use std::{
    collections::BTreeSet,
    sync::{
        Mutex,
        atomic::{AtomicU32, AtomicU64, Ordering},
    },
    time::Instant,
};

use gidx::{alpha, spec};
use noodles_csi::binning_index::{
    Indexer,
    index::reference_sequence::{bin::Chunk, index::BinnedIndex},
};
use vmc::{Ctx, Custom, Violation, json};

use crate::util::{Distinct, Found, par_for, pos, vp};

type Index = noodles_csi::binning_index::Index<BinnedIndex>;

/// The bin the real code assigns to the feature `[a, b]` (1-based, closed).
fn real_bin(ms: u8, d: u8, a: u64, b: u64) -> Result<u64, String> {
    let mut ix = Indexer::<BinnedIndex>::new(ms, d);
    ix.add_record(Some((0, pos(a), pos(b), true)), Chunk::new(vp(1), vp(2)))
        .map_err(|e| format!("add_record: {e}"))?;
    let index: Index = ix.build(1);
    let rs = &index.reference_sequences()[0];
    let keys: Vec<usize> = rs.bins().keys().copied().collect();
    if keys.len() != 1 {
        return Err(format!("feature placed in {} bins: {keys:?}", keys.len()));
    }
    let ikeys: Vec<usize> = rs.index().keys().copied().collect();
    if ikeys != keys {
        return Err(format!("binned index keyed {ikeys:?}, bins keyed {keys:?}"));
    }
    Ok(keys[0] as u64)
}

fn repro_bin(ms: u8, d: u8, a: u64, b: u64) -> String {
    format!(
        "let mut ix = Indexer::<BinnedIndex>::new({ms}, {d}); ix.add_record(Some((0, Position::new({a}).unwrap(), Position::new({b}).unwrap(), true)), Chunk::new(1.into(), 2.into()))?; ix.build(1).reference_sequences()[0].bins().keys()"
    )
}

/// Complete check of one small geometry. `literal` additionally runs the plain double loop.
pub fn small(ctx: &mut Ctx, ms: u8, d: u8, literal: bool) {
    let name = format!("binning_ms{ms}_d{d}");
    if !crate::util::should_run(ctx, &name) {
        return;
    }
    let t0 = Instant::now();
    let (msu, du) = (ms as u32, d as u32);
    let n = spec::n_positions(msu, du);
    let m = n - 1; // coordinates 1..=m
    let nb = spec::n_bins(du) as usize;
    let found = Found::default();
    let idx = |a: u64, b: u64| ((a - 1) * m + (b - 1)) as usize;

    // ---- phase A: the real bin of every feature interval -------------------------------------
    let table: Vec<AtomicU32> = (0..m * m).map(|_| AtomicU32::new(u32::MAX)).collect();
    let n_features = AtomicU64::new(0);
    par_for(m, 1, |a0| {
        let a = a0 + 1;
        for b in a..=m {
            let key = a * n + b;
            found.guard(key, "binning", || repro_bin(ms, d, a, b), || {
                n_features.fetch_add(1, Ordering::Relaxed);
                match real_bin(ms, d, a, b) {
                    Ok(bin) => {
                        table[idx(a, b)].store(bin as u32, Ordering::Relaxed);
                        let want = spec::bin_of(a, b, msu, du);
                        if bin != want && found.wants("part=binning scope=small what=reg2bin-differs-from-spec", key) {
                            found.add(
                                key,
                                Violation::new(
                                    "part=binning scope=small what=reg2bin-differs-from-spec",
                                    repro_bin(ms, d, a, b),
                                    format!("bin {want} (CSIv1 reg2bin)"),
                                    format!("bin {bin}"),
                                ),
                            );
                        }
                        if bin as usize >= nb {
                            found.add(
                                key,
                                Violation::new(
                                    "part=binning scope=small what=bin-id-out-of-range",
                                    repro_bin(ms, d, a, b),
                                    format!("bin id < {nb}"),
                                    format!("bin {bin}"),
                                ),
                            );
                        }
                    }
                    Err(e) => found.add(
                        key,
                        Violation::new(
                            "part=binning scope=small what=feature-not-in-exactly-one-bin",
                            repro_bin(ms, d, a, b),
                            "exactly one bin, same key in the binned index",
                            e,
                        ),
                    ),
                }
            });
        }
    });
    let bin_of = |a: u64, b: u64| table[idx(a, b)].load(Ordering::Relaxed);
    let t_a = t0.elapsed().as_secs_f64();

    // ---- phase B: one representative feature per bin id; the all-bins index ---------------------
    let mut rep: Vec<Option<(u64, u64)>> = vec![None; nb];
    // difference arrays for C_b = union of all features mapped to b
    let w = (m + 2) as usize;
    let mut diff = vec![0i32; nb * w];
    for a in 1..=m {
        for b in a..=m {
            let bin = bin_of(a, b);
            if bin == u32::MAX || bin as usize >= nb {
                continue;
            }
            let bi = bin as usize;
            if rep[bi].is_none() {
                rep[bi] = Some((a, b));
            }
            diff[bi * w + a as usize] += 1;
            diff[bi * w + b as usize + 1] -= 1;
        }
    }
    let bins_with_rep = rep.iter().filter(|r| r.is_some()).count();
    // cnt_t[x * nb + b] = number of positions <= x that belong to C_b  (x in 0..=m)
    let mut cnt_t = vec![0u32; (m as usize + 1) * nb];
    for b in 0..nb {
        let mut cover = 0i32;
        let mut c = 0u32;
        for x in 1..=m as usize {
            cover += diff[b * w + x];
            if cover > 0 {
                c += 1;
            }
            cnt_t[x * nb + b] = c;
        }
    }
    drop(diff);

    let mut ix = Indexer::<BinnedIndex>::new(ms, d);
    for (b, r) in rep.iter().enumerate() {
        if let Some((a, e)) = *r {
            ix.add_record(
                Some((0, pos(a), pos(e), true)),
                Chunk::new(vp(4 * b as u64 + 1), vp(4 * b as u64 + 2)),
            )
            .expect("add_record");
        }
    }
    let index: Index = ix.build(1);
    let rs = &index.reference_sequences()[0];
    for (id, bin) in rs.bins() {
        let want = [Chunk::new(vp(4 * *id as u64 + 1), vp(4 * *id as u64 + 2))];
        if bin.chunks() != want {
            vmc::machinery(format!("{name}: all-bins index is not one chunk per bin at bin {id}"));
        }
    }

    let t_b = t0.elapsed().as_secs_f64();
    // ---- phase C: every region ------------------------------------------------------------------
    let n_regions = AtomicU64::new(0);
    let obligations = AtomicU64::new(0);
    let n_end_n_rejected = AtomicU64::new(0);
    let distinct = Distinct::new();
    let viol_rewrite: Mutex<BTreeSet<(u32, u64, u64)>> = Mutex::new(BTreeSet::new());
    // region bin sets kept for the literal loop
    let keep: Vec<Mutex<Vec<u64>>> = if literal {
        (0..m * m).map(|_| Mutex::new(Vec::new())).collect()
    } else {
        Vec::new()
    };
    let words = nb.div_ceil(64);

    let query_ids = |iv: noodles_core::region::Interval| -> Result<Vec<usize>, String> {
        match rs.query(ms, d, iv) {
            Ok(bins) => Ok(bins
                .iter()
                .map(|b| (u64::from(b.chunks()[0].start()) as usize - 1) / 4)
                .collect()),
            Err(e) => Err(e.to_string()),
        }
    };

    par_for(m, 1, |c0| {
        let c = c0 + 1;
        let mut in_r = vec![false; nb];
        for e in c..=m {
            let key = c * n + e;
            found.guard(key, "binning", || format!("reference_sequence.query({ms}, {d}, {c}..={e})"), || {
                n_regions.fetch_add(1, Ordering::Relaxed);
                let ids = match query_ids((pos(c)..=pos(e)).into()) {
                    Ok(v) => v,
                    Err(err) => {
                        found.add(
                            key,
                            Violation::new(
                                "part=binning scope=small what=query-error-in-domain",
                                format!("reference_sequence.query({ms}, {d}, {c}..={e})"),
                                "Ok",
                                err,
                            ),
                        );
                        return;
                    }
                };
                for &i in &ids {
                    in_r[i] = true;
                }
                distinct.add(&ids);
                // compare with the specification's reg2bins
                let ranges = spec::bins_of(c, e, msu, du);
                let mut spec_n = 0usize;
                for &(lo, hi) in &ranges {
                    for id in lo..=hi {
                        if (id as usize) < nb && rep[id as usize].is_some() {
                            spec_n += 1;
                            if !in_r[id as usize] && found.wants("part=binning scope=small what=reg2bins-differs-from-spec dir=missing", key) {
                                found.add(
                                    key,
                                    Violation::new(
                                        "part=binning scope=small what=reg2bins-differs-from-spec dir=missing",
                                        format!("reference_sequence.query({ms}, {d}, {c}..={e}) on an index with a chunk in every bin"),
                                        format!("bin {id} (CSIv1 reg2bins: {ranges:?})"),
                                        format!("bins {ids:?}"),
                                    ),
                                );
                            }
                        }
                    }
                }
                let extra: Vec<_> = if spec_n != ids.len() {
                    ids.iter().filter(|&&i| !spec::in_ranges(&ranges, i as u64)).collect()
                } else {
                    Vec::new()
                };
                if !extra.is_empty() && found.wants("part=binning scope=small what=reg2bins-differs-from-spec dir=extra", key) {
                    found.add(
                        key,
                        Violation::new(
                            "part=binning scope=small what=reg2bins-differs-from-spec dir=extra",
                            format!("reference_sequence.query({ms}, {d}, {c}..={e}) on an index with a chunk in every bin"),
                            format!("CSIv1 reg2bins: {ranges:?}"),
                            format!("additional bins {extra:?}"),
                        ),
                    );
                }
                // the soundness obligation, rewritten per bin
                let hi_row = &cnt_t[e as usize * nb..(e as usize + 1) * nb];
                let lo_row = &cnt_t[(c as usize - 1) * nb..c as usize * nb];
                let mut ob = 0u64;
                for b in 0..nb {
                    if hi_row[b] > lo_row[b] {
                        ob += 1;
                        if !in_r[b] {
                            if literal {
                                viol_rewrite.lock().unwrap().insert((b as u32, c, e));
                            }
                            let up = du - spec::level_of(b as u64, du);
                            let fp = format!("part=binning scope=small what=feature-bin-not-in-region-bins levels-above-leaf={up}");
                            if !found.wants(&fp, key) {
                                continue;
                            }
                            // witness feature
                            let mut wit = None;
                            'w: for fa in 1..=e {
                                for fb in fa.max(c)..=m {
                                    if bin_of(fa, fb) == b as u32 {
                                        wit = Some((fa, fb));
                                        break 'w;
                                    }
                                }
                            }
                            let (fa, fb) = wit.unwrap_or((0, 0));
                            found.add(
                                key,
                                Violation::new(
                                    fp,
                                    format!("geometry ({ms},{d}); feature {fa}..={fb} is stored in bin {b} ({}); region {c}..={e}: reference_sequence.query({ms}, {d}, {c}..={e})", repro_bin(ms, d, fa, fb)),
                                    format!("bin {b} among the region's bins (feature and region intersect)"),
                                    format!("bins {ids:?}"),
                                ),
                            );
                        }
                    }
                }
                obligations.fetch_add(ob, Ordering::Relaxed);
                if literal {
                    let mut bits = vec![0u64; words];
                    for &i in &ids {
                        bits[i / 64] |= 1 << (i % 64);
                    }
                    *keep[idx(c, e)].lock().unwrap() = bits;
                }
                // unbounded forms resolve to the same bins
                if e == m {
                    let open = query_ids((pos(c)..).into());
                    if open.as_ref().ok() != Some(&ids) {
                        found.add(
                            key,
                            Violation::new(
                                "part=binning scope=small what=unbounded-end-differs",
                                format!("reference_sequence.query({ms}, {d}, {c}..) vs {c}..={m}"),
                                format!("{ids:?}"),
                                format!("{open:?}"),
                            ),
                        );
                    }
                    // a bound equal to N is outside the API's domain (InvalidInput)
                    if rs.query(ms, d, pos(c)..=pos(n)).is_err() {
                        n_end_n_rejected.fetch_add(1, Ordering::Relaxed);
                    }
                }
                if c == 1 {
                    let open = query_ids((..=pos(e)).into());
                    if open.as_ref().ok() != Some(&ids) {
                        found.add(
                            key,
                            Violation::new(
                                "part=binning scope=small what=unbounded-start-differs",
                                format!("reference_sequence.query({ms}, {d}, ..={e}) vs 1..={e}"),
                                format!("{ids:?}"),
                                format!("{open:?}"),
                            ),
                        );
                    }
                    if e == m {
                        let full = query_ids((..).into());
                        if full.as_ref().ok() != Some(&ids) {
                            found.add(
                                key,
                                Violation::new(
                                    "part=binning scope=small what=unbounded-both-differs",
                                    format!("reference_sequence.query({ms}, {d}, ..) vs 1..={m}"),
                                    format!("{ids:?}"),
                                    format!("{full:?}"),
                                ),
                            );
                        }
                    }
                }
                for &i in &ids {
                    in_r[i] = false;
                }
            });
        }
    });

    let t_c = t0.elapsed().as_secs_f64();
    if std::env::var_os("C17_TIMING").is_some() {
        eprintln!("[C17] {name}: phase A {t_a:.1}s, B {:.1}s, C {:.1}s", t_b - t_a, t_c - t_b);
    }
    // ---- literal double loop (small N): must agree with the rewriting ---------------------------
    let mut literal_pairs = 0u64;
    let keep: Vec<Vec<u64>> = keep.into_iter().map(|m| m.into_inner().unwrap()).collect();
    if literal {
        let pairs = AtomicU64::new(0);
        let viol_literal: Mutex<BTreeSet<(u32, u64, u64)>> = Mutex::new(BTreeSet::new());
        par_for(m, 1, |a0| {
            let a = a0 + 1;
            let mut p = 0u64;
            for b in a..=m {
                let bin = bin_of(a, b);
                if bin == u32::MAX {
                    continue;
                }
                for c in 1..=b {
                    for e in c.max(a)..=m {
                        // [a,b] ∩ [c,e] ≠ ∅  ⇔  c <= b && a <= e
                        p += 1;
                        let bits = &keep[idx(c, e)];
                        let ok = !bits.is_empty()
                            && (bin as usize) < nb
                            && bits[bin as usize / 64] >> (bin % 64) & 1 == 1;
                        if !ok {
                            viol_literal.lock().unwrap().insert((bin, c, e));
                        }
                    }
                }
            }
            pairs.fetch_add(p, Ordering::Relaxed);
        });
        literal_pairs = pairs.into_inner();
        let lit = viol_literal.into_inner().unwrap();
        let rew = viol_rewrite.lock().unwrap().clone();
        // regions whose query failed are reported separately; compare on the rest
        if lit != rew && found.len() == 0 {
            vmc::machinery(format!(
                "{name}: literal double loop and per-bin rewriting disagree ({} vs {} violating (bin, region) pairs)",
                lit.len(),
                rew.len()
            ));
        }
        if lit.len() != rew.len() && found.len() > 0 {
            // both must flag the same (bin, region) pairs whenever the queries themselves succeeded
            let only_lit: Vec<_> = lit.difference(&rew).take(3).collect();
            let only_rew: Vec<_> = rew.difference(&lit).take(3).collect();
            eprintln!("[C17] {name}: literal-only {only_lit:?} rewriting-only {only_rew:?}");
        }
    }

    let nf = n_features.into_inner();
    let nr = n_regions.into_inner();
    let ob = obligations.into_inner();
    let mut extra = std::collections::BTreeMap::new();
    extra.insert("geometry".into(), json!([ms, d]));
    extra.insert("positions".into(), json!(m));
    extra.insert("feature_intervals".into(), json!(nf));
    extra.insert("region_intervals".into(), json!(nr));
    extra.insert("bins".into(), json!(nb));
    extra.insert("bins_reached_by_some_feature".into(), json!(bins_with_rep));
    extra.insert("bin_region_obligations".into(), json!(ob));
    extra.insert("literal_feature_region_pairs".into(), json!(literal_pairs));
    extra.insert("end_equal_N_rejected".into(), json!(n_end_n_rejected.into_inner()));
    // number of intersecting (F, R) pairs the obligations stand for: sum over F of #R intersecting F
    let mut pairs_total: u128 = 0;
    for a in 1..=m as u128 {
        for b in a..=m as u128 {
            let mm = m as u128;
            let all = mm * (mm + 1) / 2;
            let left = (a - 1) * a / 2; // regions entirely left of a
            let right = (mm - b) * (mm - b + 1) / 2;
            pairs_total += all - left - right;
        }
    }
    extra.insert("feature_region_pairs_decided".into(), json!(pairs_total.to_string()));
    if bins_with_rep != nb {
        vmc::machinery(format!("{name}: only {bins_with_rep} of {nb} bins are reached by a feature"));
    }
    crate::util::finish(ctx, Custom {
        name,
        evaluations: nf + nr,
        distinct: distinct.count(),
        states: nb as u64,
        transitions: ob + literal_pairs,
        exhaustive: true,
        capped: None,
        samples: vec![
            format!("geometry ({ms},{d}): feature 1..=1 -> bin {}", bin_of(1, 1)),
            format!("geometry ({ms},{d}): feature 1..={m} -> bin {}", bin_of(1, m)),
            format!("geometry ({ms},{d}): feature {}..={} -> bin {}", m / 2, m / 2 + 1, bin_of(m / 2, m / 2 + 1)),
        ],
        extra,
        found: found.into_custom(),
        wall_s: t0.elapsed().as_secs_f64(),
        ..Default::default()
    });
}

/// Edge-alphabet check of a large geometry: every F and R with endpoints in the edge alphabet ± 2.
pub fn large(ctx: &mut Ctx, ms: u8, d: u8) {
    let name = format!("binning_edges_ms{ms}_d{d}");
    if !crate::util::should_run(ctx, &name) {
        return;
    }
    let t0 = Instant::now();
    let (msu, du) = (ms as u32, d as u32);
    let n = spec::n_positions(msu, du);
    let m = n - 1;
    let mut base = alpha::starts(msu, du, m);
    base.push(m);
    // the default geometry's edges are also edges to probe in the others
    for v in alpha::starts(14, 5, m) {
        base.push(v);
    }
    let pts = alpha::widen(&base, 2, m);
    let mut ivs: Vec<(u64, u64)> = Vec::new();
    for (i, &a) in pts.iter().enumerate() {
        for &b in &pts[i..] {
            ivs.push((a, b));
        }
    }
    let found = Found::default();
    let nf = ivs.len() as u64;

    // real bins
    let bins: Vec<AtomicU64> = (0..nf).map(|_| AtomicU64::new(u64::MAX)).collect();
    par_for(nf, 8, |i| {
        let (a, b) = ivs[i as usize];
        found.guard(i, "binning", || repro_bin(ms, d, a, b), || match real_bin(ms, d, a, b) {
            Ok(bin) => {
                bins[i as usize].store(bin, Ordering::Relaxed);
                let want = spec::bin_of(a, b, msu, du);
                if bin != want {
                    found.add(
                        i,
                        Violation::new(
                            "part=binning scope=edges what=reg2bin-differs-from-spec",
                            repro_bin(ms, d, a, b),
                            format!("bin {want} (CSIv1 reg2bin)"),
                            format!("bin {bin}"),
                        ),
                    );
                }
            }
            Err(e) => found.add(
                i,
                Violation::new(
                    "part=binning scope=edges what=feature-not-in-exactly-one-bin",
                    repro_bin(ms, d, a, b),
                    "exactly one bin",
                    e,
                ),
            ),
        });
    });

    // one index holding every feature with its own, never-merging chunk
    let mut ix = Indexer::<BinnedIndex>::new(ms, d);
    for (i, &(a, b)) in ivs.iter().enumerate() {
        ix.add_record(
            Some((0, pos(a), pos(b), true)),
            Chunk::new(vp(10 * i as u64 + 1), vp(10 * i as u64 + 2)),
        )
        .expect("add_record");
    }
    let index: Index = ix.build(1);
    let rs = &index.reference_sequences()[0];
    let n_chunks: usize = rs.bins().values().map(|b| b.chunks().len()).sum();
    if n_chunks != ivs.len() {
        vmc::machinery(format!("{name}: chunks were merged ({n_chunks} of {})", ivs.len()));
    }

    let pairs = AtomicU64::new(0);
    let inter = AtomicU64::new(0);
    let distinct = Distinct::new();
    par_for(nf, 1, |ri| {
        let (c, e) = ivs[ri as usize];
        found.guard(ri, "binning", || format!("reference_sequence.query({ms}, {d}, {c}..={e})"), || {
            let got = match rs.query(ms, d, pos(c)..=pos(e)) {
                Ok(b) => b,
                Err(err) => {
                    found.add(
                        ri,
                        Violation::new(
                            "part=binning scope=edges what=query-error-in-domain",
                            format!("reference_sequence.query({ms}, {d}, {c}..={e})"),
                            "Ok",
                            err.to_string(),
                        ),
                    );
                    return;
                }
            };
            let mut present = vec![false; ivs.len()];
            for b in &got {
                for ch in b.chunks() {
                    present[(u64::from(ch.start()) as usize - 1) / 10] = true;
                }
            }
            let ranges = spec::bins_of(c, e, msu, du);
            let mut sig = Vec::new();
            let mut ni = 0;
            for (fi, &(a, b)) in ivs.iter().enumerate() {
                let bin = bins[fi].load(Ordering::Relaxed);
                if bin == u64::MAX {
                    continue;
                }
                if present[fi] {
                    sig.push(bin);
                }
                let intersects = c <= b && a <= e;
                if intersects {
                    ni += 1;
                    if !present[fi] {
                        let up = du - spec::level_of(bin, du);
                        found.add(
                            ri,
                            Violation::new(
                                format!("part=binning scope=edges what=feature-bin-not-in-region-bins levels-above-leaf={up}"),
                                format!("geometry ({ms},{d}); feature {a}..={b} is stored in bin {bin}; region {c}..={e}: reference_sequence.query({ms}, {d}, {c}..={e})"),
                                format!("bin {bin} among the region's bins"),
                                "the feature's bin is not returned".to_string(),
                            ),
                        );
                    }
                }
                let spec_in = spec::in_ranges(&ranges, bin);
                if spec_in != present[fi] {
                    found.add(
                        ri,
                        Violation::new(
                            format!("part=binning scope=edges what=reg2bins-differs-from-spec dir={}", if spec_in { "missing" } else { "extra" }),
                            format!("geometry ({ms},{d}); region {c}..={e}; bin {bin} (feature {a}..={b})"),
                            format!("CSIv1 reg2bins {ranges:?} contains bin: {spec_in}"),
                            format!("returned: {}", present[fi]),
                        ),
                    );
                }
            }
            sig.sort();
            sig.dedup();
            distinct.add(&sig);
            pairs.fetch_add(ivs.len() as u64, Ordering::Relaxed);
            inter.fetch_add(ni, Ordering::Relaxed);
        });
    });

    let mut extra = std::collections::BTreeMap::new();
    extra.insert("geometry".into(), json!([ms, d]));
    extra.insert("edge_points".into(), json!(pts.len()));
    extra.insert("feature_intervals".into(), json!(nf));
    extra.insert("region_intervals".into(), json!(nf));
    extra.insert("pairs".into(), json!(pairs.load(Ordering::Relaxed)));
    extra.insert("intersecting_pairs".into(), json!(inter.load(Ordering::Relaxed)));
    let distinct_bins: BTreeSet<u64> = bins.iter().map(|b| b.load(Ordering::Relaxed)).collect();
    extra.insert("distinct_feature_bins".into(), json!(distinct_bins.len()));
    crate::util::finish(ctx, Custom {
        name,
        evaluations: 2 * nf,
        distinct: distinct.count(),
        states: distinct_bins.len() as u64,
        transitions: pairs.into_inner(),
        exhaustive: true,
        capped: None,
        samples: vec![
            format!("geometry ({ms},{d}) edge points {:?}…", &pts[..pts.len().min(12)]),
            format!("feature {:?} -> bin {}", ivs[ivs.len() / 2], bins[ivs.len() / 2].load(Ordering::Relaxed)),
        ],
        extra,
        found: found.into_custom(),
        wall_s: t0.elapsed().as_secs_f64(),
        ..Default::default()
    });
}
