//! (iii, continued) Count fields at and above every internal cap.
//!
//! The index readers bound their pre-allocations for untrusted counts (`with_capacity(n.min(1 << 16))`).
//! A bound must limit the reservation only, never the number of elements read. For every count field of
//! every index format — n_ref; bins per reference; chunks per bin; linear-index intervals; tabix/CSI-aux
//! names (count and bytes of one name); gzi entries; fai / crai lines — hand-built indexes with the count at
//! 0, 1, cap − 1, cap, cap + 1 and well above (cap = 65536, plus the 8/15/16/17-bit and bin-count
//! boundaries in the thorough tier) go through the blocking writer and BOTH the blocking and the async reader.
//! Oracle: the index read back is equal to the one written (these indexes are built so that no format
//! normalisation applies). Bin ids beyond the geometry (needed to exceed 65536 bins at depth 5) are not
//! structurally valid: there a reader may also reject (`Err`), but not return something else.

use std::{io, num::NonZero};

use bstr::BString;
use indexmap::IndexMap;
use noodles_bam::bai;
use noodles_bgzf::gzi;
use noodles_core::Position;
use noodles_cram::crai;
use noodles_csi::{
    self as csi,
    binning_index::index::{
        ReferenceSequence,
        header::{Builder as HeaderBuilder, ReferenceSequenceNames},
        reference_sequence::{
            Bin,
            bin::Chunk,
            index::{BinnedIndex, LinearIndex},
        },
    },
};
use noodles_fasta::fai;
use noodles_tabix as tabix;
use vmc::{Ctx, Outcome, Violation};

use crate::util::{Distinct, vp};

#[derive(Clone, Copy, Debug, PartialEq)]
pub enum Field {
    BaiRefs,
    BaiBins,
    BaiChunks,
    BaiIntervals,
    CsiRefs,
    /// depth 6 (299 593 bins) so that more than 65 536 bin ids are valid
    CsiBinsDepth6,
    /// depth 5: ids beyond 37 448 lie outside the geometry
    CsiBinsDepth5,
    CsiChunks,
    CsiAuxNames,
    TabixRefsAndNames,
    TabixBins,
    TabixChunks,
    TabixIntervals,
    TabixNameBytes,
    GziEntries,
    FaiLines,
    CraiLines,
}

pub const FIELDS: [Field; 17] = [
    Field::BaiRefs,
    Field::BaiBins,
    Field::BaiChunks,
    Field::BaiIntervals,
    Field::CsiRefs,
    Field::CsiBinsDepth6,
    Field::CsiBinsDepth5,
    Field::CsiChunks,
    Field::CsiAuxNames,
    Field::TabixRefsAndNames,
    Field::TabixBins,
    Field::TabixChunks,
    Field::TabixIntervals,
    Field::TabixNameBytes,
    Field::GziEntries,
    Field::FaiLines,
    Field::CraiLines,
];

pub const COUNTS_QUICK: [usize; 6] = [0, 1, 65535, 65536, 65537, 70000];
pub const COUNTS_THOROUGH: [usize; 22] = [
    0, 1, 2, 127, 128, 255, 256, 257, 32767, 32768, 32769, 37448, 37449, 37450, 37451, 65535, 65536, 65537, 70000, 131071,
    131072, 131073,
];

pub fn block_on<F: std::future::Future>(f: F) -> F::Output {
    thread_local! {
        static RT: tokio::runtime::Runtime = tokio::runtime::Builder::new_current_thread().build().expect("tokio runtime");
    }
    RT.with(|rt| rt.block_on(f))
}

fn chunk(i: usize) -> Chunk {
    Chunk::new(vp(0x1_0000 * (i as u64 + 1)), vp(0x1_0000 * (i as u64 + 1) + 0x20))
}

/// `n` bins with ascending ids from 0 (each with one distinguishable chunk), skipping 37450 — the
/// metadata pseudo-bin of depth 5, which a data bin must not use.
fn bins(n: usize) -> IndexMap<usize, Bin> {
    (0..).filter(|&i| i != 37450).take(n).map(|i| (i, Bin::new(vec![chunk(i)]))).collect()
}

/// ASCII names mixed with valid multibyte UTF-8 names (2-, 3- and 4-byte characters).
fn names(n: usize) -> ReferenceSequenceNames {
    (0..n)
        .map(|i| {
            BString::from(match i % 4 {
                0 => format!("c{i}"),
                1 => format!("c\u{3b1}{i}"),
                2 => format!("\u{67d3}{i}"),
                _ => format!("c\u{1d7d9}{i}"),
            })
        })
        .collect()
}

/// A last, non-empty reference sequence so that a truncated or misaligned read cannot look right.
fn marker_linear() -> ReferenceSequence<LinearIndex> {
    ReferenceSequence::new(bins(2), vec![vp(5), vp(0), vp(7)], None)
}

fn marker_binned() -> ReferenceSequence<BinnedIndex> {
    let b = bins(2);
    let ix: BinnedIndex = b.keys().map(|&k| (k, vp(3 + k as u64))).collect();
    ReferenceSequence::new(b, ix, None)
}

fn linear_refs(n: usize) -> Vec<ReferenceSequence<LinearIndex>> {
    let mut v: Vec<_> = (0..n).map(|_| ReferenceSequence::new(IndexMap::new(), LinearIndex::new(), None)).collect();
    if let Some(last) = v.last_mut() {
        *last = marker_linear();
    }
    v
}

fn binned_refs(n: usize) -> Vec<ReferenceSequence<BinnedIndex>> {
    let mut v: Vec<_> = (0..n).map(|_| ReferenceSequence::new(IndexMap::new(), BinnedIndex::new(), None)).collect();
    if let Some(last) = v.last_mut() {
        *last = marker_binned();
    }
    v
}

fn one_linear(b: IndexMap<usize, Bin>, lin: LinearIndex) -> Vec<ReferenceSequence<LinearIndex>> {
    vec![ReferenceSequence::new(b, lin, None), marker_linear()]
}

fn one_binned(b: IndexMap<usize, Bin>) -> Vec<ReferenceSequence<BinnedIndex>> {
    let ix: BinnedIndex = b.keys().map(|&k| (k, vp(1 + k as u64))).collect();
    vec![ReferenceSequence::new(b, ix, None), marker_binned()]
}

fn many_chunks(n: usize) -> IndexMap<usize, Bin> {
    [(4681usize, Bin::new((0..n).map(chunk).collect()))].into_iter().collect()
}

fn verdict<T: PartialEq>(
    field: Field,
    n: usize,
    reader: &str,
    beyond_geometry: bool,
    want: &T,
    got: io::Result<T>,
    summary: impl Fn(&T) -> String,
) -> Outcome {
    let decoded = || {
        format!(
            "{field:?} with count {n}: hand-built index (see mc/c17/src/counts.rs::build) -> blocking writer -> {reader} reader"
        )
    };
    match got {
        Ok(back) => {
            if &back == want {
                Ok(())
            } else {
                Err(Violation::new(
                    format!("part=roundtrip-counts field={field:?} reader={reader} what=index-differs count={}", class(n)),
                    decoded(),
                    summary(want),
                    summary(&back),
                ))
            }
        }
        Err(_) if beyond_geometry => Ok(()),
        Err(e) => Err(Violation::new(
            format!("part=roundtrip-counts field={field:?} reader={reader} what=read-error kind={:?} count={}", e.kind(), class(n)),
            decoded(),
            "Ok(index equal to the one written)",
            e.to_string(),
        )),
    }
}

/// Class of a count relative to the 65 536 cap (for the fingerprint).
fn class(n: usize) -> &'static str {
    if n > 65536 {
        ">65536"
    } else if n == 65536 {
        "=65536"
    } else {
        "<65536"
    }
}

fn sum_binning<I>(ix: &csi::binning_index::Index<I>) -> String
where
    I: csi::binning_index::index::reference_sequence::Index,
{
    use csi::BinningIndex;
    let rs = ix.reference_sequences();
    let bins: usize = rs.iter().map(|r| r.bins().len()).sum();
    let chunks: usize = rs.iter().flat_map(|r| r.bins().values()).map(|b| b.chunks().len()).sum();
    format!(
        "{} reference sequences, {bins} bins, {chunks} chunks, {} names, n_no_coor {:?}",
        rs.len(),
        ix.header().map(|h| h.reference_sequence_names().len()).unwrap_or(0),
        ix.unplaced_unmapped_record_count()
    )
}

fn sum_linear(ix: &bai::Index) -> String {
    let iv: usize = ix.reference_sequences().iter().map(|r| r.index().len()).sum();
    format!("{}, {iv} intervals", sum_binning(ix))
}

fn check_bai(field: Field, n: usize, refs: Vec<ReferenceSequence<LinearIndex>>, beyond: bool, d: &Distinct) -> Outcome {
    let ix = bai::Index::builder().set_reference_sequences(refs).set_unplaced_unmapped_record_count(7).build();
    let mut buf = Vec::new();
    if let Err(e) = bai::io::Writer::new(&mut buf).write_index(&ix) {
        return Err(Violation::new(format!("part=roundtrip-counts field={field:?} what=write-error"), format!("count {n}"), "Ok", e.to_string()));
    }
    d.add((field as u8 as usize, n, buf.len()));
    verdict(field, n, "blocking", beyond, &ix, bai::io::Reader::new(&buf[..]).read_index(), sum_linear)?;
    let got = block_on(async { bai::r#async::io::Reader::new(&buf[..]).read_index().await });
    verdict(field, n, "async", beyond, &ix, got, sum_linear)
}

fn check_tabix(field: Field, n: usize, refs: Vec<ReferenceSequence<LinearIndex>>, nm: ReferenceSequenceNames, beyond: bool, d: &Distinct) -> Outcome {
    let header = HeaderBuilder::vcf().set_reference_sequence_names(nm).build();
    let ix = tabix::Index::builder().set_header(header).set_reference_sequences(refs).set_unplaced_unmapped_record_count(7).build();
    let mut buf = Vec::new();
    let w = (|| {
        let mut w = tabix::io::Writer::new(&mut buf);
        w.write_index(&ix)?;
        w.try_finish()
    })();
    if let Err(e) = w {
        return Err(Violation::new(format!("part=roundtrip-counts field={field:?} what=write-error"), format!("count {n}"), "Ok", e.to_string()));
    }
    d.add((field as u8 as usize, n, buf.len()));
    verdict(field, n, "blocking", beyond, &ix, tabix::io::Reader::new(&buf[..]).read_index(), sum_linear)?;
    let got = block_on(async { tabix::r#async::io::Reader::new(&buf[..]).read_index().await });
    verdict(field, n, "async", beyond, &ix, got, sum_linear)?;
    // async writer -> blocking reader
    let got = crate::roundtrip::tabix_async_write(&ix).and_then(|b| tabix::io::Reader::new(&b[..]).read_index());
    verdict(field, n, "blocking-after-async-writer", beyond, &ix, got, sum_linear)
}

fn check_csi(field: Field, n: usize, depth: u8, refs: Vec<ReferenceSequence<BinnedIndex>>, nm: Option<ReferenceSequenceNames>, beyond: bool, d: &Distinct) -> Outcome {
    let mut b = csi::Index::builder().set_min_shift(14).set_depth(depth).set_reference_sequences(refs).set_unplaced_unmapped_record_count(7);
    if let Some(nm) = nm {
        b = b.set_header(HeaderBuilder::vcf().set_reference_sequence_names(nm).build());
    }
    let ix = b.build();
    let mut buf = Vec::new();
    let w = (|| {
        let mut w = csi::io::Writer::new(&mut buf);
        w.write_index(&ix)?;
        w.into_inner().finish().map(|_| ())
    })();
    if let Err(e) = w {
        return Err(Violation::new(format!("part=roundtrip-counts field={field:?} what=write-error"), format!("count {n}"), "Ok", e.to_string()));
    }
    d.add((field as u8 as usize, n, buf.len()));
    verdict(field, n, "blocking", beyond, &ix, csi::io::Reader::new(&buf[..]).read_index(), sum_binning)?;
    let got = block_on(async { csi::r#async::io::Reader::new(&buf[..]).read_index().await });
    verdict(field, n, "async", beyond, &ix, got, sum_binning)?;
    let got = crate::roundtrip::csi_async_write(&ix).and_then(|b| csi::io::Reader::new(&b[..]).read_index());
    verdict(field, n, "blocking-after-async-writer", beyond, &ix, got, sum_binning)
}

fn check(field: Field, n: usize, d: &Distinct) -> Outcome {
    match field {
        Field::BaiRefs => check_bai(field, n, linear_refs(n), false, d),
        Field::BaiBins => check_bai(field, n, one_linear(bins(n), vec![vp(9)]), n > 37449, d),
        Field::BaiChunks => check_bai(field, n, one_linear(many_chunks(n), vec![vp(9)]), false, d),
        Field::BaiIntervals => check_bai(field, n, one_linear(bins(1), (0..n).map(|i| vp(i as u64 % 5)).collect()), false, d),
        Field::CsiRefs => check_csi(field, n, 5, binned_refs(n), None, false, d),
        Field::CsiBinsDepth6 => check_csi(field, n, 6, one_binned(bins(n)), None, false, d),
        Field::CsiBinsDepth5 => check_csi(field, n, 5, one_binned(bins(n)), None, n > 37449, d),
        Field::CsiChunks => check_csi(field, n, 5, one_binned(many_chunks(n)), None, false, d),
        Field::CsiAuxNames => check_csi(field, n, 5, binned_refs(2), Some(names(n)), false, d),
        Field::TabixRefsAndNames => check_tabix(field, n, linear_refs(n), names(n), false, d),
        Field::TabixBins => check_tabix(field, n, one_linear(bins(n), vec![vp(9)]), names(2), n > 37449, d),
        Field::TabixChunks => check_tabix(field, n, one_linear(many_chunks(n), vec![vp(9)]), names(2), false, d),
        Field::TabixIntervals => check_tabix(field, n, one_linear(bins(1), (0..n).map(|i| vp(i as u64 % 5)).collect()), names(2), false, d),
        Field::TabixNameBytes => {
            // one name of n bytes (n = 0: the empty name) followed by a short one
            // (n bytes made of 2-byte characters, padded with one ASCII byte when n is odd)
            let mut long = "\u{3b1}".repeat(n / 2).into_bytes();
            long.resize(n, b'x');
            let nm: ReferenceSequenceNames = [BString::from(long), BString::from("tail")].into_iter().collect();
            check_tabix(field, n, linear_refs(2), nm, false, d)
        }
        Field::GziEntries => {
            let entries: Vec<(u64, u64)> = (0..n as u64).map(|i| (100 * (i + 1), 65280 * (i + 1))).collect();
            let ix = gzi::Index::from(entries);
            let mut buf = Vec::new();
            if let Err(e) = gzi::io::Writer::new(&mut buf).write_index(&ix) {
                return Err(Violation::new(format!("part=roundtrip-counts field={field:?} what=write-error"), format!("count {n}"), "Ok", e.to_string()));
            }
            d.add((field as u8 as usize, n, buf.len()));
            let s = |x: &gzi::Index| format!("{} entries", x.as_ref().len());
            verdict(field, n, "blocking", false, &ix, gzi::io::Reader::new(&buf[..]).read_index(), s)?;
            let got = block_on(async { gzi::r#async::io::Reader::new(&buf[..]).read_index().await });
            verdict(field, n, "async", false, &ix, got, s)
        }
        Field::FaiLines => {
            let recs: Vec<fai::Record> = (0..n as u64)
                .map(|i| fai::Record::new(format!("s{i}"), i, 10 * i, NonZero::new(60).unwrap(), NonZero::new(61).unwrap()))
                .collect();
            let ix = fai::Index::from(recs);
            let mut buf = Vec::new();
            if let Err(e) = fai::io::Writer::new(&mut buf).write_index(&ix) {
                return Err(Violation::new(format!("part=roundtrip-counts field={field:?} what=write-error"), format!("count {n}"), "Ok", e.to_string()));
            }
            d.add((field as u8 as usize, n, buf.len()));
            let s = |x: &fai::Index| format!("{} records", x.as_ref().len());
            verdict(field, n, "blocking", false, &ix, fai::io::Reader::new(&buf[..]).read_index(), s)?;
            let got = block_on(async { fai::r#async::io::Reader::new(&buf[..]).read_index().await });
            verdict(field, n, "async", false, &ix, got, s)
        }
        Field::CraiLines => {
            let recs: Vec<crai::Record> = (0..n)
                .map(|i| crai::Record::new(Some(i % 3), Position::new(1 + i), 100, 1000 + i as u64, 20, 300))
                .collect();
            let mut w = crai::io::Writer::new(Vec::new());
            let buf = match w.write_index(&recs).and_then(|_| w.finish()) {
                Ok(b) => b,
                Err(e) => {
                    return Err(Violation::new(format!("part=roundtrip-counts field={field:?} what=write-error"), format!("count {n}"), "Ok", e.to_string()));
                }
            };
            d.add((field as u8 as usize, n, buf.len()));
            let s = |x: &Vec<crai::Record>| format!("{} records", x.len());
            verdict(field, n, "blocking", false, &recs, crai::io::Reader::new(&buf[..]).read_index(), s)?;
            let got = block_on(async { crai::r#async::io::Reader::new(&buf[..]).read_index().await });
            verdict(field, n, "async", false, &recs, got, s)
        }
    }
}

pub fn run(ctx: &mut Ctx) {
    let counts: Vec<usize> = if ctx.quick() { COUNTS_QUICK.to_vec() } else { COUNTS_THOROUGH.to_vec() };
    let d = Distinct::new();
    let k = counts.len() as u64;
    // largest counts first so that the parallel sweep is not left waiting for one big case
    let decode = |i: u64| (FIELDS[(i / k) as usize], counts[(k - 1 - i % k) as usize]);
    ctx.sweep(
        "rt_counts_at_caps",
        FIELDS.len() as u64 * k,
        |i| {
            let (f, n) = decode(i);
            format!("{f:?} count {n} (blocking and async reader)")
        },
        |i| {
            let (f, n) = decode(i);
            check(f, n, &d)
        },
    );
    ctx.add_distinct(d.count(), d.count());
}
