//! (iii, continued) gzi / fai / crai: complete sweeps over short lists of boundary-valued entries.

use std::num::NonZero;

use bstr::BString;
use noodles_bgzf::gzi;
use noodles_core::Position;
use noodles_cram::crai;
use noodles_fasta::fai;
use vmc::{Ctx, Outcome, Violation};

use crate::util::Distinct;

/// Decodes `i` into a list of up to `max_len` letters of an alphabet of size `k`
/// (all lists of length 0, then 1, …).
fn decode_list(mut i: u64, k: u64) -> Vec<usize> {
    let mut len = 0;
    let mut block = 1u64;
    while i >= block {
        i -= block;
        block *= k;
        len += 1;
    }
    let mut v = Vec::with_capacity(len);
    for _ in 0..len {
        v.push((i % k) as usize);
        i /= k;
    }
    v
}

fn n_lists(k: u64, max_len: u32) -> u64 {
    let mut total = 0;
    let mut block = 1;
    for _ in 0..=max_len {
        total += block;
        block *= k;
    }
    total
}

// ---- gzi ----------------------------------------------------------------------------------------

const GZI_V: [u64; 8] = [0, 1, 0xffff, 0x1_0000, 1 << 32, (1 << 48) - 1, 1 << 63, u64::MAX];

fn gzi_case(i: u64) -> Vec<(u64, u64)> {
    decode_list(i, 64).into_iter().map(|x| (GZI_V[x / 8], GZI_V[x % 8])).collect()
}

fn gzi_check(i: u64, distinct: &Distinct) -> Outcome {
    let entries = gzi_case(i);
    let decoded = || format!("gzi::Index::from(vec!{entries:?}) -> gzi::io::Writer -> gzi::io::Reader");
    let ix = gzi::Index::from(entries.clone());
    let mut buf = Vec::new();
    if let Err(e) = gzi::io::Writer::new(&mut buf).write_index(&ix) {
        return Err(Violation::new("part=roundtrip fmt=gzi what=write-error", decoded(), "Ok", e.to_string()));
    }
    distinct.add(&buf);
    match gzi::io::Reader::new(&buf[..]).read_index() {
        Ok(back) => {
            if back == ix {
                return Ok(());
            }
            // not equal: the statement still accepts identical query answers
            for &p in &GZI_V {
                let (a, b) = (ix.query(p).map_err(|e| e.kind()), back.query(p).map_err(|e| e.kind()));
                if a != b {
                    return Err(Violation::new(
                        "part=roundtrip fmt=gzi what=query-answers-differ",
                        decoded(),
                        format!("query({p}) = {a:?}"),
                        format!("query({p}) = {b:?}"),
                    ));
                }
            }
            Err(Violation::new(
                "part=roundtrip fmt=gzi what=entries-differ",
                decoded(),
                format!("{:?}", ix.as_ref()),
                format!("{:?}", back.as_ref()),
            ))
        }
        Err(e) => Err(Violation::new(
            format!("part=roundtrip fmt=gzi what=read-error kind={:?}", e.kind()),
            decoded(),
            "Ok",
            e.to_string(),
        )),
    }
}

// ---- fai ----------------------------------------------------------------------------------------

fn fai_names() -> Vec<BString> {
    vec![
        BString::from("sq0"),
        BString::from(""),
        BString::from("a b"),
        BString::from("\u{e9}\u{4e2d}"),
        BString::from(vec![0xff, 0xfe]),
        BString::from("chr1|x:1-2"),
    ]
}
const FAI_LEN: [u64; 3] = [0, 1, u64::MAX];
const FAI_POS: [u64; 3] = [0, 7, u64::MAX];
const FAI_LBC: [u64; 3] = [1, 60, u64::MAX];
const FAI_LW: [u64; 3] = [1, 61, u64::MAX];
const FAI_K: u64 = 6 * 81;

fn fai_record(mut x: usize) -> fai::Record {
    let names = fai_names();
    let name = names[x % 6].clone();
    x /= 6;
    let len = FAI_LEN[x % 3];
    x /= 3;
    let p = FAI_POS[x % 3];
    x /= 3;
    let lbc = FAI_LBC[x % 3];
    x /= 3;
    let lw = FAI_LW[x % 3];
    fai::Record::new(name, len, p, NonZero::new(lbc).unwrap(), NonZero::new(lw).unwrap())
}

fn fai_check(i: u64, distinct: &Distinct) -> Outcome {
    let records: Vec<fai::Record> = decode_list(i, FAI_K).into_iter().map(fai_record).collect();
    let decoded = || format!("fai::Index::from(vec!{records:?}) -> fai::io::Writer -> fai::io::Reader");
    let ix = fai::Index::from(records.clone());
    let mut buf = Vec::new();
    if let Err(e) = fai::io::Writer::new(&mut buf).write_index(&ix) {
        return Err(Violation::new("part=roundtrip fmt=fai what=write-error", decoded(), "Ok", e.to_string()));
    }
    distinct.add(&buf);
    let utf8 = records.iter().all(|r| std::str::from_utf8(r.name()).is_ok());
    match fai::io::Reader::new(&buf[..]).read_index() {
        Ok(back) => {
            if back == ix {
                Ok(())
            } else {
                Err(Violation::new(
                    format!("part=roundtrip fmt=fai what=records-differ names-utf8={utf8}"),
                    decoded(),
                    format!("{:?}", ix.as_ref()),
                    format!("{:?}", back.as_ref()),
                ))
            }
        }
        Err(e) => Err(Violation::new(
            format!("part=roundtrip fmt=fai what=read-error kind={:?} names-utf8={utf8}", e.kind()),
            decoded(),
            "Ok",
            e.to_string(),
        )),
    }
}

// ---- crai ---------------------------------------------------------------------------------------

const CRAI_K: u64 = 3 * 3 * 3 * 2 * 2 * 2;

fn crai_record(mut x: usize) -> crai::Record {
    let id = [Some(0usize), None, Some(i32::MAX as usize)][x % 3];
    x /= 3;
    let start = [Position::new(1), None, Position::new(i32::MAX as usize)][x % 3];
    x /= 3;
    let span = [0usize, 151, usize::MAX][x % 3];
    x /= 3;
    let offset = [0u64, 1 << 40][x % 2];
    x /= 2;
    let landmark = [0u64, u64::MAX][x % 2];
    x /= 2;
    let slice_length = [0u64, 1 << 33][x % 2];
    crai::Record::new(id, start, span, offset, landmark, slice_length)
}

/// Lists of exactly three records over a sub-alphabet of eight records follow the ≤ 2 lists.
fn crai_case(i: u64) -> Vec<crai::Record> {
    let n2 = n_lists(CRAI_K, 2);
    if i < n2 {
        decode_list(i, CRAI_K).into_iter().map(crai_record).collect()
    } else {
        let mut j = i - n2;
        let sub = [0usize, 1, 5, 40, 77, 130, 200, 215];
        let mut v = Vec::new();
        for _ in 0..3 {
            v.push(crai_record(sub[(j % 8) as usize]));
            j /= 8;
        }
        v
    }
}

fn crai_domain() -> u64 {
    n_lists(CRAI_K, 2) + 512
}

fn crai_check(i: u64, distinct: &Distinct) -> Outcome {
    let records = crai_case(i);
    let n = if records.len() >= 2 { "2+" } else if records.len() == 1 { "1" } else { "0" };
    let decoded = || format!("let index: crai::Index = vec!{records:?}; crai::io::Writer -> crai::io::Reader::read_index");
    let mut w = crai::io::Writer::new(Vec::new());
    if let Err(e) = w.write_index(&records) {
        return Err(Violation::new("part=roundtrip fmt=crai what=write-error", decoded(), "Ok", e.to_string()));
    }
    let buf = match w.finish() {
        Ok(b) => b,
        Err(e) => return Err(Violation::new("part=roundtrip fmt=crai what=finish-error", decoded(), "Ok", e.to_string())),
    };
    distinct.add(&buf);
    match crai::io::Reader::new(&buf[..]).read_index() {
        Ok(back) => {
            if back == records {
                Ok(())
            } else {
                Err(Violation::new(
                    format!("part=roundtrip fmt=crai what=records-differ records={n}"),
                    decoded(),
                    format!("{records:?}"),
                    format!("{back:?}"),
                ))
            }
        }
        Err(e) => Err(Violation::new(
            format!("part=roundtrip fmt=crai what=read-error kind={:?} records={n}", e.kind()),
            decoded(),
            "Ok",
            e.to_string(),
        )),
    }
}

pub fn run(ctx: &mut Ctx) {
    let d = Distinct::new();
    ctx.sweep(
        "rt_gzi",
        n_lists(64, 3),
        |i| format!("gzi entries {:?}", gzi_case(i)),
        |i| gzi_check(i, &d),
    );
    ctx.add_distinct(d.count(), d.count());

    let d = Distinct::new();
    let n = n_lists(FAI_K, 2);
    ctx.sweep(
        "rt_fai",
        n,
        |i| format!("fai records {:?}", decode_list(i, FAI_K).into_iter().map(fai_record).collect::<Vec<_>>()),
        |i| fai_check(i, &d),
    );
    ctx.add_distinct(d.count(), d.count());

    let d = Distinct::new();
    let n = crai_domain();
    ctx.sweep(
        "rt_crai",
        n,
        |i| format!("crai records {:?}", crai_case(i)),
        |i| crai_check(i, &d),
    );
    ctx.add_distinct(d.count(), d.count());
}
