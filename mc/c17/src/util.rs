//! Small helpers: parallel loops, shared violation collection, conversions.

use std::{
    collections::{BTreeMap, HashSet},
    sync::{
        Mutex,
        atomic::{AtomicU64, Ordering},
    },
};

use noodles_bgzf as bgzf;
use noodles_core::Position;
use vmc::Violation;

pub fn pos(n: u64) -> Position {
    Position::try_from(n as usize).expect("position >= 1")
}

pub fn vp(n: u64) -> bgzf::VirtualPosition {
    bgzf::VirtualPosition::from(n)
}

pub fn threads() -> usize {
    vmc::explore::default_threads()
}

/// Runs `f(i)` for every `i in 0..n` on all worker threads (dynamic chunks). Panics inside `f` are
/// caught and turned into a violation by the caller-supplied collector.
pub fn par_for(n: u64, grain: u64, f: impl Fn(u64) + Sync) {
    let next = AtomicU64::new(0);
    let grain = grain.max(1);
    std::thread::scope(|s| {
        for _ in 0..threads() {
            s.spawn(|| {
                loop {
                    let start = next.fetch_add(grain, Ordering::Relaxed);
                    if start >= n {
                        return;
                    }
                    for i in start..(start + grain).min(n) {
                        f(i);
                    }
                }
            });
        }
    });
}

/// Violation classes found by a bespoke engine: fingerprint → (first/minimal violation, order key, count).
#[derive(Default)]
pub struct Found {
    inner: Mutex<BTreeMap<String, (Violation, u64, u64)>>,
}

impl Found {
    pub fn add(&self, key: u64, v: Violation) {
        let mut g = self.inner.lock().unwrap();
        match g.get_mut(&v.fingerprint) {
            Some(e) => {
                e.2 += 1;
                if key < e.1 {
                    e.0 = v;
                    e.1 = key;
                }
            }
            None => {
                g.insert(v.fingerprint.clone(), (v, key, 1));
            }
        }
    }

    /// Cheap pre-check for hot paths: `false` (after counting the hit) when the class is already
    /// recorded with a key that is not larger, so the caller can skip building the report.
    pub fn wants(&self, fingerprint: &str, key: u64) -> bool {
        let mut g = self.inner.lock().unwrap();
        match g.get_mut(fingerprint) {
            Some(e) if key >= e.1 => {
                e.2 += 1;
                false
            }
            _ => true,
        }
    }

    /// Runs `f`, converting a panic into a violation.
    pub fn guard(&self, key: u64, what: &str, decoded: impl Fn() -> String, f: impl FnOnce()) {
        if let Err((msg, file)) = vmc::catch(f) {
            self.add(
                key,
                Violation::new(
                    format!("part={what} outcome=panic msg={} file={file}", vmc::normalise_msg(&msg)),
                    decoded(),
                    "no panic",
                    format!("panic: {msg} in {file}"),
                ),
            );
        }
    }

    pub fn into_custom(self) -> Vec<(Violation, vmc::serde_json::Value, u64)> {
        self.inner
            .into_inner()
            .unwrap()
            .into_values()
            .map(|(v, key, n)| (v, vmc::json!({ "case": key }), n))
            .collect()
    }

    pub fn len(&self) -> usize {
        self.inner.lock().unwrap().len()
    }
}

/// Sharded set of 64-bit hashes (counts distinct observations from many threads).
pub struct Distinct {
    shards: Vec<Mutex<HashSet<u64>>>,
}

impl Distinct {
    pub fn new() -> Self {
        Self { shards: (0..64).map(|_| Mutex::new(HashSet::new())).collect() }
    }
    pub fn add(&self, h: impl std::hash::Hash) {
        use std::hash::Hasher;
        let mut s = std::collections::hash_map::DefaultHasher::new();
        h.hash(&mut s);
        let x = s.finish();
        self.shards[(x >> 58) as usize].lock().unwrap().insert(x);
    }
    pub fn count(&self) -> u64 {
        self.shards.iter().map(|s| s.lock().unwrap().len() as u64).sum()
    }
}

/// In replay mode only the harness named in the replay file runs.
pub fn should_run(ctx: &vmc::Ctx, name: &str) -> bool {
    !ctx.is_replay() || ctx.custom_replay(name).is_some()
}

/// Reports a bespoke engine's result (or, in replay mode, the outcome of the re-run class).
pub fn finish(ctx: &mut vmc::Ctx, mut c: vmc::Custom) {
    for (v, payload, _) in c.found.iter_mut() {
        payload["fp"] = vmc::json!(v.fingerprint);
    }
    if ctx.is_replay() {
        let want = ctx.custom_replay(&c.name).and_then(|p| p["fp"].as_str().map(str::to_string));
        let hit = c
            .found
            .iter()
            .find(|(v, _, _)| Some(&v.fingerprint) == want.as_ref())
            .or(if want.is_none() { c.found.first() } else { None });
        ctx.set_replay_outcome(match hit {
            Some((v, _, _)) => Err(v.clone()),
            None => Ok(()),
        });
    } else {
        ctx.custom(c);
    }
}
